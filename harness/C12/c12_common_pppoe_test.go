//go:build verif

// C12 harness, part shared by the ipoe and pppoe overlays.  The pppoe copy
// (c12_common_pppoe_test.go) is this file with the package clause changed:
//
//	sed 's/^package ipoe$/package pppoe/' c12_common_ipoe_test.go > c12_common_pppoe_test.go
package pppoe

import (
	"bufio"
	"bytes"
	"context"
	"errors"
	"fmt"
	"net"
	"os"
	"regexp"
	"runtime"
	"sort"
	"strconv"
	"strings"
	"sync"
	"testing"
	"time"

	"github.com/veesix-networks/osvbng/pkg/allocator"
	"github.com/veesix-networks/osvbng/pkg/config"
	"github.com/veesix-networks/osvbng/pkg/config/ip"
	"github.com/veesix-networks/osvbng/pkg/config/subscriber"
	"github.com/veesix-networks/osvbng/pkg/events"
	"github.com/veesix-networks/osvbng/pkg/opdb"
	"github.com/veesix-networks/osvbng/pkg/southbound"
)

// ---------------------------------------------------------------- goroutine id
func c12GID() int64 {
	var buf [64]byte
	n := runtime.Stack(buf[:], false)
	f := bytes.Fields(buf[:n])
	if len(f) < 2 {
		return -1
	}
	id, _ := strconv.ParseInt(string(f[1]), 10, 64)
	return id
}

// ---------------------------------------------------------------- log shared by all fakes
type c12Log struct {
	mu  sync.Mutex
	l   []string
	off bool
}

func (g *c12Log) add(format string, a ...any) {
	g.mu.Lock()
	if !g.off {
		g.l = append(g.l, fmt.Sprintf(format, a...))
	}
	g.mu.Unlock()
}
func (g *c12Log) take() string {
	g.mu.Lock()
	defer g.mu.Unlock()
	s := strings.Join(g.l, ",")
	g.l = nil
	if s == "" {
		return "-"
	}
	return s
}

// ---------------------------------------------------------------- opdb.Store fake
// Writes issued on the goroutine that runs the current harness op are synchronous
// writes of the implementation: they take effect at once, in program order.  Put
// calls arriving on any other goroutine are asynchronous checkpoint writes: they
// park until the case releases them (done:<ticket>) or the crash drops them.
type c12Put struct {
	key     string
	val     []byte
	release chan int // 0 drop (crash), 1 apply, 2 transient Store error
	done    chan struct{}
	ticket  int
	fail    int   // fault plan: 0 none, 1 the next attempt fails, 2 every attempt fails
	gid     int64 // the goroutine that carries this write
}

type c12Fake struct {
	mu     sync.Mutex
	data   map[string][]byte
	parked []*c12Put
	epoch  int
	opGID  int64
	log    *c12Log
	ns     string // the one namespace this component may write to
	// fault plan for synchronous writes: the next Put on the op goroutine returns a transient error
	failSync bool
	// fault plan for deletes: the next Delete returns a transient error
	failDelete bool
	// keys whose Delete keeps failing (until the case lets a repetition succeed), and the number of Delete attempts
	// seen per key: the harness synchronises on these counters, not on sleeps
	failDelKeys map[string]bool
	delAttempts map[string]int
	// stop inside a release: the Delete of this key parks at the store until the crash drops it
	parkDeleteKey string
	parkedDel     chan int
}

type c12Handle struct {
	f     *c12Fake
	epoch int
}

var errC12Dead = errors.New("c12: store handle of a crashed incarnation")
var errC12Busy = errors.New("c12: database is locked (injected transient error)")

func c12Idx(key string) string {
	return strings.TrimLeft(strings.TrimPrefix(key, "s"), "0") + c12zero(key)
}
func c12zero(key string) string {
	if strings.Trim(strings.TrimPrefix(key, "s"), "0") == "" {
		return "0"
	}
	return ""
}

func (h *c12Handle) Put(ctx context.Context, ns, key string, value []byte) error {
	f := h.f
	if ns != f.ns {
		f.log.add("BADNS:%s", ns)
	}
	lkey := key
	key = ns + "\x00" + key
	v := append([]byte(nil), value...)
	f.mu.Lock()
	if h.epoch != f.epoch {
		f.mu.Unlock()
		return errC12Dead
	}
	if c12GID() == f.opGID {
		if f.failSync {
			f.failSync = false
			f.mu.Unlock()
			f.log.add("spF%s", c12Idx(lkey))
			return errC12Busy
		}
		f.data[key] = v
		f.mu.Unlock()
		f.log.add("sp%s", c12Idx(lkey))
		return nil
	}
	p := &c12Put{key: lkey, val: v, release: make(chan int, 1), done: make(chan struct{}), ticket: -1, gid: c12GID()}
	f.parked = append(f.parked, p)
	f.mu.Unlock()
	how := <-p.release
	f.mu.Lock()
	var err error
	if how == 1 && h.epoch == f.epoch {
		f.data[key] = v
	} else if how == 2 {
		err = errC12Busy
	} else {
		err = errC12Dead
	}
	f.mu.Unlock()
	close(p.done)
	return err
}

func (h *c12Handle) Delete(ctx context.Context, ns, key string) error {
	f := h.f
	if ns != f.ns {
		f.log.add("BADNS:%s", ns)
	}
	f.mu.Lock()
	if h.epoch != f.epoch {
		f.mu.Unlock()
		return errC12Dead
	}
	if f.parkDeleteKey != "" && f.parkDeleteKey == key {
		ch := make(chan int, 1)
		f.parkedDel = ch
		f.mu.Unlock()
		how := <-ch
		f.mu.Lock()
		if how != 1 || h.epoch != f.epoch {
			f.mu.Unlock()
			return errC12Dead
		}
	}
	f.delAttempts[key]++
	if f.failDelKeys[key] {
		first := c12GID() == f.opGID
		f.mu.Unlock()
		if first {
			f.log.add("sdF%s", c12Idx(key))
		}
		return errC12Busy
	}
	if f.failDelete {
		f.failDelete = false
		f.mu.Unlock()
		f.log.add("sdF%s", c12Idx(key))
		return errC12Busy
	}
	delete(f.data, ns+"\x00"+key)
	f.mu.Unlock()
	f.log.add("sd%s", c12Idx(key))
	return nil
}

func (h *c12Handle) Load(ctx context.Context, ns string, fn opdb.LoadFunc) error {
	f := h.f
	f.mu.Lock()
	keys := make([]string, 0, len(f.data))
	for k := range f.data {
		if strings.HasPrefix(k, ns+"\x00") {
			keys = append(keys, k)
		}
	}
	sort.Strings(keys)
	vals := make([][]byte, len(keys))
	for i, k := range keys {
		vals[i] = append([]byte(nil), f.data[k]...)
	}
	f.mu.Unlock()
	for i, k := range keys {
		if err := fn(strings.TrimPrefix(k, ns+"\x00"), vals[i]); err != nil {
			return err
		}
	}
	return nil
}
func (h *c12Handle) Count(ctx context.Context, ns string) (int, error) {
	h.f.mu.Lock()
	defer h.f.mu.Unlock()
	n := 0
	for k := range h.f.data {
		if strings.HasPrefix(k, ns+"\x00") {
			n++
		}
	}
	return n, nil
}
func (h *c12Handle) Clear(ctx context.Context, ns string) error { return nil }
func (h *c12Handle) Stats() opdb.Stats                          { return opdb.Stats{} }
func (h *c12Handle) Close() error                               { return nil }

func (f *c12Fake) nParked() int {
	f.mu.Lock()
	defer f.mu.Unlock()
	return len(f.parked)
}

// waitFor polls until cond() or the timeout elapses.
func c12WaitFor(d time.Duration, cond func() bool) bool {
	dl := time.Now().Add(d)
	for i := 0; ; i++ {
		if cond() {
			return true
		}
		if time.Now().After(dl) {
			return false
		}
		if i < 200 {
			runtime.Gosched()
		} else {
			time.Sleep(50 * time.Microsecond)
		}
	}
}

// take removes the parked put selected by pick (nil if none).
func (f *c12Fake) take(pick func(p *c12Put) bool) *c12Put {
	f.mu.Lock()
	defer f.mu.Unlock()
	for i, p := range f.parked {
		if pick(p) {
			f.parked = append(f.parked[:i], f.parked[i+1:]...)
			return p
		}
	}
	return nil
}

// complete lets a parked put finish: dropped (crash), applied, or — when the fault plan says so — failed with a
// transient Store error.  Returns true when it failed that way.
func (f *c12Fake) complete(p *c12Put, apply bool) bool {
	how := 0
	if apply {
		how = 1
		if p.fail > 0 {
			how = 2
		}
	}
	p.release <- how
	<-p.done
	return how == 2
}

// ---------------------------------------------------------------- fake dataplane (southbound)
type c12DPEnt struct {
	swif       uint32
	v4, v6, pd string
}

type c12SB struct {
	southbound.Southbound // nil: any call the harness does not know about panics and is reported
	mu                    sync.Mutex
	log                   *c12Log
	ent                   map[int]*c12DPEnt // by session index
	next                  uint32
	failAdd               int // session index whose add fails (-1 none)
	prefix                string
}

const c12SwifBase = 100

func newC12SB(log *c12Log, prefix string) *c12SB {
	return &c12SB{log: log, ent: map[int]*c12DPEnt{}, next: c12SwifBase, failAdd: -1, prefix: prefix}
}

func (s *c12SB) wipe() {
	s.mu.Lock()
	s.ent = map[int]*c12DPEnt{}
	s.next = c12SwifBase
	s.mu.Unlock()
}

func (s *c12SB) add(i int) (uint32, error) {
	s.mu.Lock()
	defer s.mu.Unlock()
	if i == s.failAdd {
		s.log.add("AF%d", i)
		return 0, errors.New("c12: injected add failure")
	}
	e := s.ent[i]
	if e == nil {
		e = &c12DPEnt{swif: s.next, v4: "-", v6: "-", pd: "-"}
		s.next++
		s.ent[i] = e
	}
	s.log.add("A%d=%d", i, e.swif)
	return e.swif, nil
}

func (s *c12SB) del(i int) {
	s.mu.Lock()
	delete(s.ent, i)
	s.mu.Unlock()
	s.log.add("DEL%d", i)
}

func (s *c12SB) bySwif(sw uint32) (int, *c12DPEnt) {
	for i, e := range s.ent {
		if e.swif == sw {
			return i, e
		}
	}
	return -1, nil
}

func (s *c12SB) set(sw uint32, fam string, val string, isAdd bool) error {
	s.mu.Lock()
	defer s.mu.Unlock()
	i, e := s.bySwif(sw)
	if e == nil {
		s.log.add("%s?%d", fam, sw)
		return nil
	}
	if !isAdd {
		val = "-"
	}
	switch fam {
	case "4":
		e.v4 = val
	case "6":
		e.v6 = val
	case "P":
		e.pd = val
	}
	s.log.add("%s%d=%s", fam, i, val)
	return nil
}

func (s *c12SB) DumpInterfaces() ([]southbound.InterfaceInfo, error) {
	s.mu.Lock()
	defer s.mu.Unlock()
	out := []southbound.InterfaceInfo{{SwIfIndex: 2, Name: "TenGigE0/0"}, {SwIfIndex: 10, Name: "TenGigE0/0.100", SupSwIfIndex: 2, OuterVlanID: 100}}
	for _, e := range s.ent {
		out = append(out, southbound.InterfaceInfo{SwIfIndex: e.swif, Name: fmt.Sprintf("%s%d", s.prefix, e.swif)})
	}
	return out, nil
}
func (s *c12SB) GetInterfaceIndex(name string) (int, error) {
	return 0, errors.New("c12: no such interface")
}
func (s *c12SB) SetUnnumberedAsync(sw uint32, loopback string, cb func(error)) {
	s.mu.Lock()
	i, _ := s.bySwif(sw)
	s.mu.Unlock()
	s.log.add("U%d", i)
	cb(nil)
}
func (s *c12SB) EnableSourceVerify(sw uint32, strict bool) error {
	s.mu.Lock()
	i, _ := s.bySwif(sw)
	s.mu.Unlock()
	s.log.add("V%d", i)
	return nil
}

func (s *c12SB) dump() string {
	s.mu.Lock()
	defer s.mu.Unlock()
	ks := []int{}
	for i := range s.ent {
		ks = append(ks, i)
	}
	sort.Ints(ks)
	out := []string{}
	for _, i := range ks {
		e := s.ent[i]
		out = append(out, fmt.Sprintf("%d:%d:%s:%s:%s", i, e.swif, e.v4, e.v6, e.pd))
	}
	if len(out) == 0 {
		return "-"
	}
	return strings.Join(out, ",")
}

// ---------------------------------------------------------------- other fakes
type c12Bus struct{ log *c12Log }

func (b *c12Bus) Publish(topic string, ev events.Event) {
	switch topic {
	case events.TopicSessionRestored:
		if d, ok := ev.Data.(*events.SessionRestoredEvent); ok {
			b.log.add("R%s:%s", c12Idx(d.SessionID), string(d.RestoreCause))
		}
	case events.TopicSessionLifecycle:
		if d, ok := ev.Data.(*events.SessionLifecycleEvent); ok {
			b.log.add("L%s:%s", c12Idx(d.SessionID), string(d.State))
		}
	case events.TopicSessionProgrammed:
		b.log.add("PROG")
	case events.TopicComponentReady:
		b.log.add("RDY")
	}
}

// a subscription is the component starting to serve events: logged, so that its position relative to the restore
// is observable
func (b *c12Bus) Subscribe(string, events.Handler) events.Subscription {
	b.log.add("SUB")
	return c12Sub{}
}
func (b *c12Bus) SubscribeAll(events.Handler) events.Subscription { return c12Sub{} }
func (b *c12Bus) Stats() events.Stats                             { return events.Stats{} }
func (b *c12Bus) SetDebugTopics([]string)                         {}
func (b *c12Bus) DebugTopics() []string                           { return nil }
func (b *c12Bus) Close() error                                    { return nil }

type c12Sub struct{}

func (c12Sub) Unsubscribe() {}

type c12Cfg struct{ cfg *config.Config }

func (f *c12Cfg) GetRunning() (*config.Config, error) { return f.cfg, nil }
func (f *c12Cfg) GetStartup() (*config.Config, error) { return f.cfg, nil }
func (f *c12Cfg) LookupSubscriberGroup(svlan, cvlan uint16) (subscriber.GroupMatch, bool) {
	return subscriber.GroupMatch{}, false
}

type c12Cache struct {
	mu sync.Mutex
	m  map[string][]byte
	n  map[string]int64
}

func newC12Cache() *c12Cache { return &c12Cache{m: map[string][]byte{}, n: map[string]int64{}} }
func (c *c12Cache) Set(ctx context.Context, key string, value []byte, ttl time.Duration) error {
	c.mu.Lock()
	c.m[key] = value
	c.mu.Unlock()
	return nil
}
func (c *c12Cache) Get(ctx context.Context, key string) ([]byte, error) {
	c.mu.Lock()
	defer c.mu.Unlock()
	return c.m[key], nil
}
func (c *c12Cache) GetAll(ctx context.Context, pattern string) (map[string][]byte, error) {
	return nil, nil
}
func (c *c12Cache) Delete(ctx context.Context, key string) error {
	c.mu.Lock()
	delete(c.m, key)
	c.mu.Unlock()
	return nil
}
func (c *c12Cache) Scan(ctx context.Context, cursor uint64, pattern string, count int64) ([]string, uint64, error) {
	return nil, 0, nil
}
func (c *c12Cache) Incr(ctx context.Context, key string) (int64, error) {
	c.mu.Lock()
	defer c.mu.Unlock()
	c.n[key]++
	return c.n[key], nil
}
func (c *c12Cache) Decr(ctx context.Context, key string) (int64, error) {
	c.mu.Lock()
	defer c.mu.Unlock()
	c.n[key]--
	return c.n[key], nil
}
func (c *c12Cache) Expire(ctx context.Context, key string, ttl time.Duration) error { return nil }
func (c *c12Cache) Close() error                                                    { return nil }

// ---------------------------------------------------------------- addresses
// in-pool address index a (0..n-1); static (outside every pool) index 1000+k
const c12Static = 1000

func c12V4(a int) net.IP {
	if a >= c12Static {
		return net.IPv4(192, 0, 2, byte(10+a-c12Static)).To4()
	}
	return net.IPv4(10, 0, 0, byte(8+a)).To4()
}
func c12V4Idx(ipa net.IP) string {
	if ipa == nil {
		return "-"
	}
	p := ipa.To4()
	if p == nil {
		return "?"
	}
	if p[0] == 10 {
		return strconv.Itoa(int(p[3]) - 8)
	}
	if p[0] == 192 {
		return strconv.Itoa(c12Static + int(p[3]) - 10)
	}
	return "?" + ipa.String()
}
func c12V6(a int) net.IP {
	if a >= c12Static {
		return net.ParseIP(fmt.Sprintf("2001:db8:ffff::%x", 0x10+a-c12Static))
	}
	return net.ParseIP(fmt.Sprintf("2001:db8:0:1::%x", 0x10+a))
}
func c12V6Idx(ipa net.IP) string {
	if ipa == nil {
		return "-"
	}
	p := ipa.To16()
	if p == nil {
		return "?"
	}
	if p[4] == 0xff && p[5] == 0xff {
		return strconv.Itoa(c12Static + int(p[15]) - 0x10)
	}
	if p[7] == 1 {
		return strconv.Itoa(int(p[15]) - 0x10)
	}
	return "?" + ipa.String()
}

// PD pool 2001:db8:aa00::/56 cut into /(56+k); static prefixes 2001:db8:bb<k>::/48
func c12PD(a int, k int) *net.IPNet {
	if a >= c12Static {
		_, n, _ := net.ParseCIDR(fmt.Sprintf("2001:db8:bb%02x::/48", a-c12Static))
		return n
	}
	ipb := net.ParseIP("2001:db8:aa00::").To16()
	// index occupies bits 56..56+k-1
	ipb[7] = byte(a << (8 - uint(k)))
	return &net.IPNet{IP: ipb, Mask: net.CIDRMask(56+k, 128)}
}
func c12PDIdx(n *net.IPNet, k int) string {
	if n == nil {
		return "-"
	}
	p := n.IP.To16()
	if p == nil {
		return "?"
	}
	if p[4] == 0xbb {
		return strconv.Itoa(c12Static + int(p[5]))
	}
	if p[4] == 0xaa {
		return strconv.Itoa(int(p[7]) >> (8 - uint(k)))
	}
	return "?" + n.String()
}

func c12Profiles(n4, n6, kpd int) (map[string]*ip.IPv4Profile, map[string]*ip.IPv6Profile) {
	v4 := map[string]*ip.IPv4Profile{"p4": {Gateway: "10.0.0.1", Pools: []ip.IPv4Pool{{
		Name: "pool", Network: "10.0.0.0/26", RangeStart: c12V4(0).String(), RangeEnd: c12V4(n4 - 1).String()}}},
		// a second profile / pool nobody allocates from: reservations and releases walk ALL allocators and must leave it alone
		"p4b": {Gateway: "10.0.1.1", Pools: []ip.IPv4Pool{{Name: "poolb", Network: "10.0.1.0/26", RangeStart: "10.0.1.8", RangeEnd: "10.0.1.11"}}}}
	v6 := map[string]*ip.IPv6Profile{"p6": {
		IANAPools: []ip.IANAPool{{Name: "iana", Network: "2001:db8:0:1::/64", RangeStart: c12V6(0).String(), RangeEnd: c12V6(n6 - 1).String()}},
		PDPools:   []ip.PDPool{{Name: "pd", Network: "2001:db8:aa00::/56", PrefixLength: uint8(56 + kpd)}}}}
	return v4, v6
}

// ---------------------------------------------------------------- case description
type c12New struct {
	idx                                     int
	bound, rel4, approved, created, v6bound bool
	v4, v6, pd                              string // "-", "a", "s<k>"
	lease4, lease6                          int
	age4, age6                              string // seconds or "z"
}

func c12ParseNew(f []string) c12New {
	n := c12New{}
	n.idx, _ = strconv.Atoi(f[1])
	n.bound = strings.Contains(f[2], "b")
	n.rel4 = strings.Contains(f[2], "r") && !n.bound
	n.approved = strings.Contains(f[2], "a")
	n.created = strings.Contains(f[2], "c")
	n.v6bound = strings.Contains(f[2], "6")
	n.v4, n.v6, n.pd = f[3], f[4], f[5]
	n.lease4, _ = strconv.Atoi(f[6])
	n.age4 = f[7]
	n.lease6, _ = strconv.Atoi(f[8])
	n.age6 = f[9]
	return n
}

func c12Time(t0 time.Time, age string) time.Time {
	if age == "z" {
		return time.Time{}
	}
	a, _ := strconv.Atoi(age)
	return t0.Add(-time.Duration(a) * time.Second)
}

func c12SessID(i int) string { return fmt.Sprintf("s%03d", i) }

// identity of session i: neighbouring sessions differ in exactly ONE component of the protocol key
// (C-VLAN, S-VLAN + access sub-interface, each MAC byte in turn), so a key function that ignores a component aliases them
type c12ID struct {
	mac          net.HardwareAddr
	svlan, cvlan uint16
	encap        uint32
}

var c12IDs = []c12ID{
	{net.HardwareAddr{0x02, 0, 0, 0, 0, 0x10}, 100, 10, 10},
	{net.HardwareAddr{0x02, 0, 0, 0, 0, 0x10}, 100, 11, 10},      // C-VLAN only
	{net.HardwareAddr{0x02, 0, 0, 0, 0, 0x10}, 200, 10, 11},      // S-VLAN (and its sub-interface) only
	{net.HardwareAddr{0x02, 0, 0, 0, 0x01, 0x10}, 100, 10, 10},   // MAC byte 4
	{net.HardwareAddr{0x02, 0xaa, 0, 0, 0, 0x10}, 100, 10, 10},   // MAC byte 1
	{net.HardwareAddr{0x06, 0, 0, 0, 0, 0x10}, 100, 10, 10},      // MAC byte 0
	{net.HardwareAddr{0x02, 0, 0, 0, 0, 0x11}, 100, 10, 10},      // MAC byte 5
	{net.HardwareAddr{0x02, 0, 0xbb, 0xcc, 0, 0x10}, 100, 0, 10}, // MAC bytes 2,3 and no C-VLAN
}

func c12Ident(i int) c12ID {
	d := c12IDs[i%len(c12IDs)]
	if i >= len(c12IDs) { // further sessions: same pattern on another S-VLAN
		d.svlan, d.encap = 200, 11
		d.cvlan += uint16(100 * (i / len(c12IDs)))
	}
	return d
}

func c12KeyStr(mac net.HardwareAddr, svlan, cvlan uint16) string {
	return fmt.Sprintf("%x/%d/%d", []byte(mac), svlan, cvlan)
}

// the session whose full key this is (-1: nobody's)
func c12IdxOfKey(mac net.HardwareAddr, svlan, cvlan uint16) int {
	for i := 0; i < 4*len(c12IDs); i++ {
		d := c12Ident(i)
		if bytes.Equal(d.mac, mac) && d.svlan == svlan && d.cvlan == cvlan {
			return i
		}
	}
	return -1
}

func c12SvlanOfEncap(encap uint32) uint16 {
	if encap == 11 {
		return 200
	}
	return 100
}

// the protocol-specific part of the harness
type c12Proto interface {
	// newComponent builds a fresh component instance on the store handle (registry already re-initialised)
	newComponent(h *c12Handle)
	// restore runs the component's real Start (restore, then subscriptions, packet consumers, Ready)
	restore()
	// stop: harness clean-up of an incarnation that is dead (cancels its context, stops its timers)
	stop()
	// pktTaken: closed when the packet that was waiting on the component's packet channel before Start was taken
	pktTaken() chan struct{}
	// create builds the in-memory session and registers it as the bring-up code would; addresses already chosen
	create(n c12New, v4 net.IP, v6 net.IP, pd *net.IPNet, t0 time.Time, swif uint32) bool
	live(i int) bool
	stamp(i int, s string)
	checkpoint(i int)
	checkpointSync(i int)
	release(i int)
	// bind4 drives the real DHCPv4 ACK handler (bind or renew); v4of = the session's current IPv4 address;
	// ok=false: this protocol has no such path
	bind4(i int, a net.IP, lease int) bool
	v4of(i int) net.IP
	dumpLive(kpd int) string
	dumpStored(val []byte, kpd int) string
}

type c12Env struct {
	fake        *c12Fake
	sb          *c12SB
	bus         *c12Bus
	log         *c12Log
	cache       *c12Cache
	cfgm        *c12Cfg
	p           c12Proto
	n4, n6      int
	kpd         int
	ns          string
	tick        int
	tickets     map[int]*c12Put // assigned parked puts
	unarrived   map[int]c12Want // issued, not yet at the store
	forced      map[int]bool    // stamps of puts that were let through while an op was blocked
	poisonLater map[int]int     // fault plan for tickets that have not reached the store yet
	asc         bool            // current allocation direction
	used        map[int]bool
	t0          time.Time
}

// c12Ordering: learned at run time — the implementation serialises the writes of one key (a write waits for the
// in-flight write of the same key), so a ticket may not reach the store before earlier ones are released.
var c12Ordering bool

var c12StampRe = regexp.MustCompile(`"t(\d+)"`)

func c12StampOf(val []byte) int {
	m := c12StampRe.FindSubmatch(val)
	if m == nil {
		return -1
	}
	n, _ := strconv.Atoi(string(m[1]))
	return n
}

// goroutineWaiting reports whether goroutine gid is parked on a lock / condition / channel
func c12GoroutineWaiting(gid int64) bool {
	buf := make([]byte, 1<<20)
	n := runtime.Stack(buf, true)
	hdr := []byte(fmt.Sprintf("goroutine %d [", gid))
	i := bytes.Index(buf[:n], hdr)
	if i < 0 {
		return false
	}
	rest := buf[i+len(hdr) : n]
	j := bytes.IndexByte(rest, ']')
	if j < 0 {
		return false
	}
	st := string(rest[:j])
	for _, w := range []string{"sync.Cond.Wait", "sync.Mutex.Lock", "sync.RWMutex", "semacquire", "chan receive", "chan send", "select", "sync.WaitGroup.Wait"} {
		if strings.HasPrefix(st, w) {
			return true
		}
	}
	return false
}

func (e *c12Env) sameKeyParked(key string) bool {
	e.fake.mu.Lock()
	defer e.fake.mu.Unlock()
	for _, p := range e.fake.parked {
		if p.key == key {
			return true
		}
	}
	return false
}

// after a put failed with a transient error: did the implementation repeat the write?  A put of the same key with
// the same stamp that turns up is that retry; it keeps the ticket (and the fault plan if it fails on every attempt).
func (e *c12Env) reclaim(p *c12Put) bool {
	// handshake, no fixed sleep: the goroutine that carried the failed write either brings the same write to the
	// store again (a repetition inside its slot, whenever its back-off allows) or finishes (the write is given up)
	var got *c12Put
	c12WaitFor(5*time.Second, func() bool {
		e.fake.mu.Lock()
		for _, q := range e.fake.parked {
			if q.ticket < 0 && q.key == p.key && q.gid == p.gid && bytes.Equal(q.val, p.val) {
				got = q
				break
			}
		}
		e.fake.mu.Unlock()
		return got != nil || !c12GoroutineAlive(p.gid)
	})
	if got == nil {
		// a repetition that takes a NEW place in the order (another goroutine / after later writes) is not a
		// repetition inside the slot; if one turns up it stays an unticketed write
		return false
	}
	got.ticket = p.ticket
	if p.fail == 2 {
		got.fail = 2
	}
	if p.ticket >= 0 {
		e.tickets[p.ticket] = got
	}
	return true
}

func c12GoroutineAlive(gid int64) bool {
	for sz := 1 << 20; ; sz *= 2 {
		buf := make([]byte, sz)
		n := runtime.Stack(buf, true)
		if n < sz || sz >= 1<<26 { // complete dump
			return bytes.Contains(buf[:n], []byte(fmt.Sprintf("goroutine %d [", gid)))
		}
	}
}

// finishPut completes a parked put (applying it unless its fault plan fails it) and reports a retry
func (e *c12Env) finishPut(p *c12Put) bool {
	if n := c12StampOf(p.val); n >= 0 && p.fail == 0 && e.poisonLater[n] > 0 {
		// the fault plan was made for this write before it reached the store
		p.fail = e.poisonLater[n]
		delete(e.poisonLater, n)
	}
	if e.fake.complete(p, true) {
		return e.reclaim(p)
	}
	return false
}

// forget drops the bookkeeping of a put that was let through
func (e *c12Env) forget(p *c12Put) {
	for t, q := range e.tickets {
		if q == p {
			delete(e.tickets, t)
		}
	}
	if n := c12StampOf(p.val); n >= 0 {
		e.forced[n] = true
		if w, ok := e.unarrived[n]; ok && w.key == p.key {
			delete(e.unarrived, n)
		}
	}
}

// runOp executes fn on its own goroutine (whose id marks synchronous store writes) and waits for it.
// If the op is parked on a lock / condition while asynchronous writes of the same key are parked in the store
// (an implementation that orders its writes per key: the synchronous write or delete waits for the in-flight
// one), those writes are let through, oldest first.  key == "" : never let anything through.
func (e *c12Env) runOp(key string, fn func()) string {
	done := make(chan string, 1)
	gidc := make(chan int64, 1)
	go func() {
		defer func() {
			if r := recover(); r != nil {
				done <- fmt.Sprintf("panic:%v", r)
			}
		}()
		g := c12GID()
		e.fake.mu.Lock()
		e.fake.opGID = g
		e.fake.mu.Unlock()
		gidc <- g
		fn()
		done <- ""
	}()
	gid := <-gidc
	start := time.Now()
	waitingSince := time.Time{}
	for {
		select {
		case r := <-done:
			e.fake.mu.Lock()
			e.fake.opGID = -2
			e.fake.mu.Unlock()
			return r
		case <-time.After(time.Millisecond):
			if key != "" && e.sameKeyParked(key) && c12GoroutineWaiting(gid) {
				if waitingSince.IsZero() {
					waitingSince = time.Now()
				}
				if time.Since(waitingSince) >= 10*time.Millisecond {
					if p := e.fake.take(func(p *c12Put) bool { return p.key == key }); p != nil {
						c12Ordering = true
						e.forget(p)
						e.finishPut(p)
					}
					waitingSince = time.Time{}
				}
			} else {
				waitingSince = time.Time{}
			}
			if time.Since(start) > 20*time.Second {
				return "hang"
			}
		}
	}
}

type c12Want struct{ key, want string }

// claim waits (at most d) for a not yet ticketed parked put of key (matching want if non-empty) and gives it ticket t
func (e *c12Env) claim(t int, key string, want string, d time.Duration) bool {
	var got *c12Put
	c12WaitFor(d, func() bool {
		e.fake.mu.Lock()
		defer e.fake.mu.Unlock()
		for _, p := range e.fake.parked {
			if p.ticket < 0 && p.key == key && (want == "" || bytes.Contains(p.val, []byte(want))) {
				p.ticket = t
				got = p
				return true
			}
		}
		return false
	})
	if got != nil {
		e.tickets[t] = got
		return true
	}
	return false
}

// expect: ticket t was issued for key; claim its put, or remember that it has not reached the store yet
func (e *c12Env) expect(t int, key string, want string) {
	behind := e.sameKeyParkedOther(key, want)
	d := 300 * time.Millisecond
	if c12Ordering && behind {
		d = 2 * time.Millisecond
	}
	if !e.claim(t, key, want, d) {
		e.unarrived[t] = c12Want{key, want}
		if behind {
			c12Ordering = true
		}
	}
}

// is another put of the same key parked (one that does not carry the wanted stamp)?
func (e *c12Env) sameKeyParkedOther(key, want string) bool {
	e.fake.mu.Lock()
	defer e.fake.mu.Unlock()
	for _, p := range e.fake.parked {
		if p.key == key && (want == "" || !bytes.Contains(p.val, []byte(want))) {
			return true
		}
	}
	return false
}

func (e *c12Env) hasUnarrived(key string) bool {
	for _, w := range e.unarrived {
		if w.key == key {
			return true
		}
	}
	return false
}

// after a put of key was completed: a write queued behind it (if any) reaches the store now
func (e *c12Env) settle(key string) {
	if e.hasUnarrived(key) {
		c12WaitFor(60*time.Millisecond, func() bool { return e.sameKeyParked(key) })
	}
}

// bring: the parked put with ticket t; if the write is still queued behind earlier writes of its key, those are let
// through (oldest first) until it reaches the store.  nil: no such write (never issued, resolved, or dropped).
func (e *c12Env) bring(t int) *c12Put {
	if p := e.tickets[t]; p != nil {
		return p
	}
	w, ok := e.unarrived[t]
	if !ok {
		return nil
	}
	for n := 0; n < 64; n++ {
		if e.claim(t, w.key, w.want, 0) {
			delete(e.unarrived, t)
			p := e.tickets[t]
			if e.poisonLater[t] > 0 {
				p.fail = e.poisonLater[t]
				delete(e.poisonLater, t)
			}
			return p
		}
		p := e.fake.take(func(x *c12Put) bool { return x.key == w.key })
		if p == nil {
			delete(e.unarrived, t)
			return nil
		}
		e.forget(p)
		e.finishPut(p)
		if !c12WaitFor(60*time.Millisecond, func() bool { return e.sameKeyParked(w.key) }) {
			delete(e.unarrived, t)
			return nil
		}
	}
	return nil
}

// finish: done:<t>; reports whether the write failed (fault plan) and was repeated by the implementation
func (e *c12Env) finish(t int) bool {
	if p := e.tickets[t]; p != nil {
		delete(e.tickets, t)
		if q := e.fake.take(func(x *c12Put) bool { return x == p }); q != nil {
			r := e.finishPut(q)
			e.settle(q.key)
			return r
		}
		return false
	}
	w, ok := e.unarrived[t]
	if !ok {
		return false
	}
	delete(e.unarrived, t)
	// the write is queued behind earlier writes of the same key: let those through, oldest first
	for n := 0; n < 64; n++ {
		if e.claim(t, w.key, w.want, 0) {
			p := e.tickets[t]
			delete(e.tickets, t)
			if e.poisonLater[t] > 0 {
				p.fail = e.poisonLater[t]
				delete(e.poisonLater, t)
			}
			if q := e.fake.take(func(x *c12Put) bool { return x == p }); q != nil {
				r := e.finishPut(q)
				e.settle(q.key)
				return r
			}
			return false
		}
		p := e.fake.take(func(x *c12Put) bool { return x.key == w.key })
		if p == nil {
			return false // nothing of this key is in flight: the implementation dropped the write (superseded)
		}
		e.forget(p)
		e.finishPut(p)
		// the next queued write of this key reaches the store; none: dropped
		if !c12WaitFor(60*time.Millisecond, func() bool { return e.sameKeyParked(w.key) }) {
			return false
		}
	}
	return false
}

func (e *c12Env) crash(preserved bool, fail int, pre string, dying chan string) string {
	// the old incarnation dies: its parked writes never reach the store
	e.fake.mu.Lock()
	e.fake.epoch++
	old := e.fake.parked
	e.fake.parked = nil
	pd := e.fake.parkedDel
	e.fake.parkedDel = nil
	e.fake.parkDeleteKey = ""
	e.fake.failDelKeys = map[string]bool{}
	e.fake.mu.Unlock()
	for _, p := range old {
		e.fake.complete(p, false)
	}
	if pd != nil {
		pd <- 0
	}
	if dying != nil {
		// a handler of the dead incarnation that was in the middle of its work runs to its end (against the dead
		// store handle); what it still logs is not part of the new incarnation
		select {
		case <-dying:
		case <-time.After(5 * time.Second):
		}
		e.fake.mu.Lock()
		e.fake.opGID = -2
		e.fake.mu.Unlock()
	}
	e.tickets = map[int]*c12Put{}
	e.unarrived = map[int]c12Want{}
	e.poisonLater = map[int]int{}
	if !preserved {
		e.sb.wipe()
	}
	e.sb.failAdd = fail
	v4, v6 := c12Profiles(e.n4, e.n6, e.kpd)
	allocator.InitGlobalRegistry(v4, v6)
	e.asc = true
	h := &c12Handle{f: e.fake, epoch: e.fake.epoch}
	e.p.stop()
	e.p.newComponent(h)
	e.log.take()
	r := e.runOp("", func() { e.p.restore() })
	lg, start := e.startOrder()
	e.sb.failAdd = -1
	// asynchronous checkpoints issued by the restore path: one ticket per restored-session event, in order
	for _, tok := range strings.Split(lg, ",") {
		if strings.HasPrefix(tok, "R") {
			i, _ := strconv.Atoi(strings.SplitN(tok[1:], ":", 2)[0])
			e.expect(e.tick, c12SessID(i), "")
			e.tick++
		}
	}
	if pre != "" && pre != "-" {
		if lg == "-" {
			lg = pre
		} else {
			lg = pre + "," + lg
		}
	}
	return "crash" + r + " " + lg + " start=" + start + " live=" + e.p.dumpLive(e.kpd) + " store=" + e.dumpStore()
}

// startOrder: after Start returned.  A packet was waiting on the component's packet channel since before Start; it is
// taken by the packet consumer Start launches (handshake, no sleep).  The restore's log tokens must all precede the
// first subscription, the Ready event and the packet hand-off: the component must not serve anything before the
// restore has finished.  Returns the log without the start tokens and ok | early | nopkt.
func (e *c12Env) startOrder() (string, string) {
	res := "ok"
	select {
	case <-e.p.pktTaken():
	case <-time.After(5 * time.Second):
		res = "nopkt"
	}
	e.log.mu.Lock()
	toks := e.log.l
	e.log.l = nil
	e.log.mu.Unlock()
	keep := []string{}
	lastRestore, firstServe := -1, -1
	for i, t := range toks {
		if t == "SUB" || t == "RDY" || t == "PKT" {
			if firstServe < 0 {
				firstServe = i
			}
			continue
		}
		lastRestore = i
		keep = append(keep, t)
	}
	if firstServe >= 0 && firstServe < lastRestore {
		res = "early"
	}
	if len(keep) == 0 {
		return "-", res
	}
	return strings.Join(keep, ","), res
}

func (e *c12Env) dumpStore() string {
	e.fake.mu.Lock()
	defer e.fake.mu.Unlock()
	keys := []string{}
	for k := range e.fake.data {
		keys = append(keys, k)
	}
	sort.Strings(keys)
	out := []string{}
	for _, k := range keys {
		if !strings.HasPrefix(k, e.ns+"\x00") {
			if string(e.fake.data[k]) != c12Decoys[k] {
				out = append(out, "FOREIGN-NAMESPACE")
			}
			continue
		}
		out = append(out, e.p.dumpStored(e.fake.data[k], e.kpd))
	}
	for k := range c12Decoys {
		if _, ok := e.fake.data[k]; !ok {
			out = append(out, "DECOY-LOST")
		}
	}
	if len(out) == 0 {
		return "-"
	}
	return strings.Join(out, ",")
}

// records of OTHER namespaces under the very keys this component uses (the sibling protocol's sessions, the HA-synced
// copies): restore must not load them, release must not delete them
var c12Decoys = map[string]string{
	opdb.NamespaceIPoESessions + "x\x00s000":       "decoy",
	"x" + opdb.NamespacePPPoESessions + "\x00s000": "decoy",
	opdb.NamespaceHASyncedIPoE + "\x00s000":        "decoy",
	opdb.NamespaceHASyncedPPPoE + "\x00s001":       "decoy",
	opdb.NamespaceAcctSessions + "\x00s000":        "decoy",
}

func (e *c12Env) alloc(n c12New) (net.IP, net.IP, *net.IPNet, string) {
	reg := allocator.GetGlobalRegistry()
	sid := c12SessID(n.idx)
	var v4, v6 net.IP
	var pd *net.IPNet
	rep := []string{}
	pick := func(spec string) int {
		k, _ := strconv.Atoi(spec[1:])
		return c12Static + k
	}
	switch {
	case n.v4 == "a":
		if a, _, err := reg.AllocateFromProfile("p4", "", "", sid); err == nil {
			v4 = a
			rep = append(rep, c12V4Idx(a))
		} else {
			rep = append(rep, "x")
		}
	case strings.HasPrefix(n.v4, "s"):
		v4 = c12V4(pick(n.v4))
		rep = append(rep, c12V4Idx(v4))
	default:
		rep = append(rep, "-")
	}
	switch {
	case n.v6 == "a":
		if a, _, err := reg.AllocateIANAFromProfile("p6", "", "", sid); err == nil {
			v6 = a
			rep = append(rep, c12V6Idx(a))
		} else {
			rep = append(rep, "x")
		}
	case strings.HasPrefix(n.v6, "s"):
		v6 = c12V6(pick(n.v6))
		rep = append(rep, c12V6Idx(v6))
	default:
		rep = append(rep, "-")
	}
	switch {
	case n.pd == "a":
		if a, _, err := reg.AllocatePDFromProfile("p6", "", "", sid); err == nil {
			pd = a
			rep = append(rep, c12PDIdx(a, e.kpd))
		} else {
			rep = append(rep, "x")
		}
	case strings.HasPrefix(n.pd, "s"):
		pd = c12PD(pick(n.pd), e.kpd)
		rep = append(rep, c12PDIdx(pd, e.kpd))
	default:
		rep = append(rep, "-")
	}
	return v4, v6, pd, strings.Join(rep, " ")
}

// drain allocates everything that is still free and reports it (sorted), per pool
func (e *c12Env) drain() string {
	reg := allocator.GetGlobalRegistry()
	f4, f6, fp := []int{}, []int{}, []int{}
	for i := 0; i < 4096; i++ {
		a, _, err := reg.AllocateFromProfile("p4", "", "", "drain")
		if err != nil {
			break
		}
		x, _ := strconv.Atoi(c12V4Idx(a))
		f4 = append(f4, x)
	}
	for i := 0; i < 4096; i++ {
		a, _, err := reg.AllocateIANAFromProfile("p6", "", "", "drain")
		if err != nil {
			break
		}
		x, _ := strconv.Atoi(c12V6Idx(a))
		f6 = append(f6, x)
	}
	for i := 0; i < 4096; i++ {
		a, _, err := reg.AllocatePDFromProfile("p6", "", "", "drain")
		if err != nil {
			break
		}
		x, _ := strconv.Atoi(c12PDIdx(a, e.kpd))
		fp = append(fp, x)
	}
	j := func(l []int) string {
		sort.Ints(l)
		s := []string{}
		for _, x := range l {
			s = append(s, strconv.Itoa(x))
		}
		if len(s) == 0 {
			return "-"
		}
		return strings.Join(s, ",")
	}
	nb := 0
	for i := 0; i < 64; i++ {
		if _, _, err := reg.AllocateFromProfile("p4b", "", "", "drain"); err != nil {
			break
		}
		nb++
	}
	return "free4=" + j(f4) + " free6=" + j(f6) + " freepd=" + j(fp) + " freeb=" + strconv.Itoa(nb)
}

func (e *c12Env) runCase(f []string) string {
	out := []string{}
	for _, op := range f {
		a := strings.Split(op, ":")
		switch a[0] {
		case "new":
			n := c12ParseNew(a)
			if e.used[n.idx] {
				out = append(out, "skip")
				continue
			}
			e.used[n.idx] = true
			v4, v6, pd, rep := e.alloc(n)
			var swif uint32
			if n.created {
				e.log.off = true
				swif, _ = e.sb.add(n.idx)
				if v4 != nil {
					e.sb.set(swif, "4", c12V4Idx(v4), true)
				}
				if v6 != nil {
					e.sb.set(swif, "6", c12V6Idx(v6), true)
				}
				if pd != nil {
					e.sb.set(swif, "P", c12PDIdx(pd, e.kpd), true)
				}
				e.log.off = false
			}
			e.p.create(n, v4, v6, pd, e.t0, swif)
			out = append(out, "new "+rep)
		case "ck":
			i, _ := strconv.Atoi(a[1])
			if !e.p.live(i) {
				out = append(out, "skip")
				continue
			}
			t := e.tick
			e.tick++
			st := fmt.Sprintf("t%d", t)
			e.p.stamp(i, st)
			r := e.runOp("", func() { e.p.checkpoint(i) })
			e.expect(t, c12SessID(i), `"`+st+`"`)
			out = append(out, fmt.Sprintf("ck%s %d %s", r, t, e.log.take()))
		case "ckrel", "ck2":
			// scheduling stress: two component calls back to back on one goroutine with a single P, so that a
			// goroutine spawned by the first call cannot run before the second call is made.  The repaired
			// model assumes write order = call order.
			i, _ := strconv.Atoi(a[1])
			if !e.p.live(i) {
				out = append(out, "skip")
				continue
			}
			t := e.tick
			e.tick += 2
			st := fmt.Sprintf("t%d", t)
			st2 := fmt.Sprintf("t%d", t+1)
			e.p.stamp(i, st)
			prev := runtime.GOMAXPROCS(1)
			r := e.runOp(c12SessID(i), func() {
				e.p.checkpoint(i)
				if a[0] == "ckrel" {
					e.p.release(i)
				} else {
					e.p.stamp(i, st2)
					e.p.checkpoint(i)
				}
			})
			runtime.GOMAXPROCS(prev)
			if a[0] == "ckrel" {
				// the release has completed: an ordering implementation has applied-then-deleted or dropped the
				// checkpoint; a put that still turns up was issued after the delete
				if !e.forced[t] && !e.claim(t, c12SessID(i), `"`+st+`"`, 20*time.Millisecond) {
					e.unarrived[t] = c12Want{c12SessID(i), `"` + st + `"`}
				}
			} else {
				e.expect(t, c12SessID(i), `"`+st+`"`)
			}
			if a[0] == "ck2" {
				e.expect(t+1, c12SessID(i), `"`+st2+`"`)
				out = append(out, fmt.Sprintf("ck2%s %d %s", r, t, e.log.take()))
			} else {
				out = append(out, fmt.Sprintf("ckrel%s %d %s", r, t, e.log.take()))
			}
		case "cks":
			i, _ := strconv.Atoi(a[1])
			if !e.p.live(i) {
				out = append(out, "skip")
				continue
			}
			t := e.tick
			e.tick++
			e.p.stamp(i, fmt.Sprintf("t%d", t))
			r := e.runOp(c12SessID(i), func() { e.p.checkpointSync(i) })
			out = append(out, fmt.Sprintf("cks%s %d %s", r, t, e.log.take()))
		case "rel":
			i, _ := strconv.Atoi(a[1])
			if !e.p.live(i) {
				out = append(out, "skip")
				continue
			}
			e.tick++ // the delete takes a ticket of its own in the model
			r := e.runOp(c12SessID(i), func() { e.p.release(i) })
			out = append(out, "rel"+r+" "+e.log.take())
		case "relf":
			// release whose checkpoint Delete returns a Store error; the store keeps refusing Deletes of this key
			// until delretry:<i>:ok.  No waiting here: the background repetition is a step of its own.
			i, _ := strconv.Atoi(a[1])
			if !e.p.live(i) {
				out = append(out, "skip")
				continue
			}
			e.tick++
			e.fake.mu.Lock()
			e.fake.failDelKeys[c12SessID(i)] = true
			e.fake.mu.Unlock()
			r := e.runOp(c12SessID(i), func() { e.p.release(i) })
			out = append(out, "rel"+r+" "+e.log.take())
		case "delretry", "giveup":
			// delretry:<i>:ok|fail — the next background repetition of the failed Delete reaches the store and
			// succeeds / fails again (handshake on the store's attempt counter; the time is the production back-off).
			// giveup:<i> — after the last repetition: does another one still come?
			i, _ := strconv.Atoi(a[1])
			key := c12SessID(i)
			e.fake.mu.Lock()
			pending := e.fake.failDelKeys[key]
			n0 := e.fake.delAttempts[key]
			if pending && a[0] == "delretry" && len(a) > 2 && a[2] == "ok" {
				delete(e.fake.failDelKeys, key)
			}
			e.fake.mu.Unlock()
			if !pending {
				out = append(out, a[0]+" none")
				continue
			}
			wait := 8 * time.Second
			if a[0] == "giveup" {
				wait = 3 * time.Second
			}
			came := c12WaitFor(wait, func() bool {
				e.fake.mu.Lock()
				defer e.fake.mu.Unlock()
				return e.fake.delAttempts[key] > n0
			})
			switch {
			case a[0] == "giveup" && came:
				out = append(out, "giveup retrying")
			case a[0] == "giveup":
				e.fake.mu.Lock()
				delete(e.fake.failDelKeys, key) // nothing repeats it any more
				e.fake.mu.Unlock()
				out = append(out, "giveup gaveup")
			case !came:
				out = append(out, "delretry none")
			case len(a) > 2 && a[2] == "ok":
				c12WaitFor(2*time.Second, func() bool { // the store fake has logged the applied Delete
					e.log.mu.Lock()
					defer e.log.mu.Unlock()
					for _, l := range e.log.l {
						if l == "sd"+strconv.Itoa(i) {
							return true
						}
					}
					return false
				})
				e.tick++ // the successful delete takes a ticket in the model
				out = append(out, "delretry "+e.log.take())
			default:
				out = append(out, "delretry fail")
			}
		case "done":
			t, _ := strconv.Atoi(a[1])
			if e.finish(t) {
				out = append(out, "done retry")
			} else {
				out = append(out, "done")
			}
		case "poison":
			t, _ := strconv.Atoi(a[1])
			k := 1
			if len(a) > 2 && a[2] == "a" {
				k = 2
			}
			if p := e.tickets[t]; p != nil {
				p.fail = k
			} else if _, ok := e.unarrived[t]; ok {
				e.poisonLater[t] = k
			}
			out = append(out, "poison")
		case "cksf":
			i, _ := strconv.Atoi(a[1])
			if !e.p.live(i) {
				out = append(out, "skip")
				continue
			}
			t := e.tick
			e.tick++
			e.p.stamp(i, fmt.Sprintf("t%d", t))
			e.fake.mu.Lock()
			e.fake.failSync = true
			e.fake.mu.Unlock()
			r := e.runOp(c12SessID(i), func() { e.p.checkpointSync(i) })
			e.fake.mu.Lock()
			e.fake.failSync = false
			e.fake.mu.Unlock()
			out = append(out, fmt.Sprintf("cks%s %d %s", r, t, e.log.take()))
		case "crash":
			fail := -1
			if len(a) > 2 {
				fail, _ = strconv.Atoi(a[2])
			}
			out = append(out, e.crash(a[1] == "p", fail, "", nil))
		case "failrel":
			// failrel:<ticket>:<i> — the checkpoint Put with that ticket fails at the store and, WITHOUT waiting for what
			// the writer does with the error, session i is released.  A repetition of the failed Put is admissible only
			// inside its own slot, i.e. before the release's Delete: one that reaches the store after the release has
			// completed was re-issued behind a later write of the key (LATE) — it would resurrect the session.
			t, _ := strconv.Atoi(a[1])
			i, _ := strconv.Atoi(a[2])
			// whose write is ticket t?  Decided BEFORE anything is touched: bringing a queued ticket to the store lets
			// the earlier writes of ITS key through, which must not happen for an op that is then skipped (the
			// generator's ticket numbers are approximate, so t may belong to another session than i)
			tkey := ""
			if p := e.tickets[t]; p != nil {
				tkey = p.key
			} else if w, ok := e.unarrived[t]; ok {
				tkey = w.key
			}
			if tkey != c12SessID(i) || !e.p.live(i) {
				out = append(out, "skip")
				continue
			}
			pt := e.bring(t)
			if pt == nil || pt.key != c12SessID(i) {
				out = append(out, "skip")
				continue
			}
			delete(e.tickets, t)
			q := e.fake.take(func(x *c12Put) bool { return x == pt })
			if q == nil {
				out = append(out, "skip")
				continue
			}
			q.fail = 1
			e.fake.complete(q, true) // fails
			e.tick++
			r := e.runOp(c12SessID(i), func() { e.p.release(i) })
			lg := e.log.take()
			late := ""
			var back *c12Put
			c12WaitFor(5*time.Second, func() bool {
				e.fake.mu.Lock()
				for _, x := range e.fake.parked {
					if x.ticket < 0 && x.key == q.key && bytes.Equal(x.val, q.val) {
						back = x
						break
					}
				}
				e.fake.mu.Unlock()
				return back != nil || !c12GoroutineAlive(q.gid)
			})
			if back != nil {
				if z := e.fake.take(func(x *c12Put) bool { return x == back }); z != nil {
					e.fake.complete(z, true)
				}
				late = " LATE"
			}
			out = append(out, "failrel"+r+" "+lg+late)
		case "bind4":
			// bind4:<i>:<lease> — the provider's DHCPv4 ACK for session i reaches the real handleAck: bind with an
			// address allocated now (session without IPv4) or renew of the address it has
			i, _ := strconv.Atoi(a[1])
			lease, _ := strconv.Atoi(a[2])
			if !e.p.live(i) || !e.p.bind4(-1, nil, 0) {
				out = append(out, "skip")
				continue
			}
			addr := e.p.v4of(i)
			what := "r"
			if addr == nil {
				got, _, err := allocator.GetGlobalRegistry().AllocateFromProfile("p4", "", "", c12SessID(i))
				if err != nil {
					out = append(out, "bind4 x")
					continue
				}
				addr = got
				what = c12V4Idx(got)
			}
			t := e.tick
			e.tick++
			st := fmt.Sprintf("t%d", t)
			e.p.stamp(i, st)
			r := e.runOp("", func() { e.p.bind4(i, addr, lease) })
			e.expect(t, c12SessID(i), `"`+st+`"`)
			out = append(out, fmt.Sprintf("bind4%s %s %d %s", r, what, t, e.log.take()))
		case "flip":
			// the allocation direction flips (pkg/ha: this node is not the election winner): every pool rebuilds
			// its free list; what is leased or reserved must stay off it
			e.asc = !e.asc
			allocator.GetGlobalRegistry().SetAllocDirection(e.asc)
			out = append(out, "flip")
		case "relstop":
			// stop in the middle of the release of session i: relstop:<i>:<p|e>:<d|n>  (d: the write that was at
			// the store completes before the stop, the Delete queued behind it does not)
			i, _ := strconv.Atoi(a[1])
			key := c12SessID(i)
			var dying chan string
			if e.p.live(i) {
				e.fake.mu.Lock()
				e.fake.parkDeleteKey = key
				e.fake.mu.Unlock()
				dying = make(chan string, 1)
				gidc := make(chan int64, 1)
				go func() {
					defer func() {
						if r := recover(); r != nil {
							dying <- fmt.Sprintf("panic:%v", r)
						}
					}()
					g := c12GID()
					e.fake.mu.Lock()
					e.fake.opGID = g
					e.fake.mu.Unlock()
					gidc <- g
					e.p.release(i)
					dying <- ""
				}()
				gid := <-gidc
				c12WaitFor(2*time.Second, func() bool { return len(dying) > 0 || c12GoroutineWaiting(gid) })
			}
			if len(a) > 3 && a[3] == "d" {
				if p := e.fake.take(func(x *c12Put) bool { return x.key == key }); p != nil {
					e.forget(p)
					e.finishPut(p)
					// the Delete that waited behind it reaches the store
					c12WaitFor(200*time.Millisecond, func() bool {
						e.fake.mu.Lock()
						defer e.fake.mu.Unlock()
						return e.fake.parkedDel != nil || e.fake.parkDeleteKey == ""
					})
				}
			}
			pre := e.log.take()
			out = append(out, e.crash(a[2] == "p", -1, pre, dying))
		default:
			out = append(out, "badop")
		}
	}
	out = append(out, "final live="+e.p.dumpLive(e.kpd)+" store="+e.dumpStore()+" dp="+e.sb.dump()+" "+e.drain())
	return strings.Join(out, " | ")
}

func c12Run(t *testing.T, mk func(e *c12Env) c12Proto, dpPrefix string, ns string) {
	in, err := os.Open(os.Getenv("VERIF_CASES"))
	if err != nil {
		t.Fatal(err)
	}
	defer in.Close()
	outf, err := os.Create(os.Getenv("VERIF_OUT"))
	if err != nil {
		t.Fatal(err)
	}
	defer outf.Close()
	w := bufio.NewWriter(outf)
	defer w.Flush()
	sc := bufio.NewScanner(in)
	sc.Buffer(make([]byte, 1<<20), 1<<26)
	for sc.Scan() {
		f := strings.Fields(sc.Text())
		if len(f) < 4 {
			fmt.Fprintln(w, "badline")
			continue
		}
		res := make(chan string, 1)
		go func() {
			defer func() {
				if r := recover(); r != nil {
					res <- fmt.Sprintf("panic %v", r)
				}
			}()
			lg := &c12Log{}
			e := &c12Env{log: lg, fake: &c12Fake{data: map[string][]byte{}, log: lg, opGID: -2, failDelKeys: map[string]bool{}, delAttempts: map[string]int{}}, sb: newC12SB(lg, dpPrefix),
				bus: &c12Bus{log: lg}, cache: newC12Cache(), tickets: map[int]*c12Put{}, unarrived: map[int]c12Want{}, forced: map[int]bool{}, poisonLater: map[int]int{}, asc: true, used: map[int]bool{}, t0: time.Now()}
			e.ns = ns
			e.fake.ns = ns
			for k, v := range c12Decoys {
				e.fake.data[k] = []byte(v)
			}
			e.n4, _ = strconv.Atoi(f[1])
			e.n6, _ = strconv.Atoi(f[2])
			e.kpd, _ = strconv.Atoi(f[3])
			v4, v6 := c12Profiles(e.n4, e.n6, e.kpd)
			e.cfgm = &c12Cfg{cfg: &config.Config{IPv4Profiles: v4, IPv6Profiles: v6}}
			allocator.InitGlobalRegistry(v4, v6)
			e.p = mk(e)
			e.p.newComponent(&c12Handle{f: e.fake, epoch: 0})
			e.p.restore() // the first incarnation starts on an empty store
			e.startOrder()
			r := e.runCase(f[4:])
			// leave no parked goroutine behind
			e.fake.mu.Lock()
			e.fake.epoch++
			old := e.fake.parked
			e.fake.parked = nil
			e.fake.mu.Unlock()
			for _, p := range old {
				e.fake.complete(p, false)
			}
			e.p.stop()
			res <- r
		}()
		select {
		case r := <-res:
			fmt.Fprintln(w, r)
		case <-time.After(60 * time.Second):
			fmt.Fprintln(w, "hang")
		}
	}
}
