//go:build verif

package pppoe

import (
	"bytes"
	"context"
	"encoding/json"
	"fmt"
	"net"
	"sort"
	"strconv"
	"strings"
	"testing"
	"time"

	"github.com/veesix-networks/osvbng/pkg/component"
	"github.com/veesix-networks/osvbng/pkg/dataplane"
	"github.com/veesix-networks/osvbng/pkg/events"
	"github.com/veesix-networks/osvbng/pkg/ifmgr"
	"github.com/veesix-networks/osvbng/pkg/opdb"
	"github.com/veesix-networks/osvbng/pkg/ppp"
	"github.com/veesix-networks/osvbng/pkg/southbound"
	"github.com/veesix-networks/osvbng/pkg/svcgroup"
)

// PPPoE dataplane calls of the fake southbound
func (s *c12SB) AddPPPoESession(sessionID uint16, clientIP net.IP, clientMAC, localMAC net.HardwareAddr, encapIfIndex uint32,
	outerVLAN, innerVLAN uint16, decapVrfID uint32, pppMTU uint16, policy southbound.MSSClampPolicy) (uint32, error) {
	i := int(sessionID) - 1
	if i < 0 || c12IdxOfKey(clientMAC, outerVLAN, innerVLAN) != i || encapIfIndex != c12Ident(i).encap ||
		len(localMAC) != 6 || localMAC[5] != 0x33 {
		s.log.add("BADADD%d", i)
	}
	sw, err := s.add(i)
	if err != nil {
		return 0, err
	}
	s.set(sw, "4", c12V4Idx(clientIP), true)
	return sw, nil
}
func (s *c12SB) DeletePPPoESession(sessionID uint16, clientIP net.IP, clientMAC net.HardwareAddr) error {
	s.del(int(sessionID) - 1)
	return nil
}
func (s *c12SB) DeletePPPoESessionAsync(sessionID uint16, clientIP net.IP, clientMAC net.HardwareAddr, cb func(error)) {
	s.del(int(sessionID) - 1)
	cb(nil)
}
func (s *c12SB) PPPoESetSessionIPv6(sw uint32, clientIP net.IP, isAdd bool) error {
	return s.set(sw, "6", c12V6Idx(clientIP), isAdd)
}
func (s *c12SB) PPPoESetDelegatedPrefix(sw uint32, prefix net.IPNet, nextHop net.IP, isAdd bool) error {
	return s.set(sw, "P", c12PDIdx(&prefix, c12Kpd), isAdd)
}

var c12Kpd = 1

type c12PPPoE struct {
	e     *c12Env
	c     *Component
	taken chan struct{}
}

func (p *c12PPPoE) pktTaken() chan struct{} { return p.taken }
func (p *c12PPPoE) stop() {
	if p.c != nil {
		p.c.Stop(context.Background())
	}
}

func (p *c12PPPoE) newComponent(h *c12Handle) {
	e := p.e
	c12Kpd = e.kpd
	ifMgr := ifmgr.New()
	ifMgr.Add(&ifmgr.Interface{SwIfIndex: 10, SupSwIfIndex: 2, Name: "TenGigE0/0.100", Type: ifmgr.IfTypeSub, OuterVlanID: 100})
	ifMgr.Add(&ifmgr.Interface{SwIfIndex: 11, SupSwIfIndex: 2, Name: "TenGigE0/0.200", Type: ifmgr.IfTypeSub, OuterVlanID: 200})
	ifMgr.Add(&ifmgr.Interface{SwIfIndex: 2, Name: "TenGigE0/0", Type: ifmgr.IfTypeHardware, MAC: []byte{0x52, 0x54, 0x00, 0x11, 0x22, 0x33}})
	// a PPPoE packet is already waiting when the component starts (unbuffered channel); it has no PPPoE layer and
	// is dropped by handlePacket
	ch := make(chan *dataplane.ParsedPacket)
	taken := make(chan struct{})
	go func() {
		ch <- &dataplane.ParsedPacket{}
		e.log.add("PKT")
		close(taken)
	}()
	c, err := New(component.Dependencies{EventBus: e.bus, Cache: e.cache, Southbound: e.sb, ConfigManager: e.cfgm, OpDB: h,
		PPPChan: ch}, nil, ifMgr, nil)
	if err != nil {
		panic(err)
	}
	p.c = c
	p.taken = taken
}

func (p *c12PPPoE) restore() {
	if err := p.c.Start(context.Background()); err != nil {
		p.e.log.add("STARTERR")
	}
}

func (p *c12PPPoE) get(i int) *SessionState {
	p.c.sessionMu.RLock()
	defer p.c.sessionMu.RUnlock()
	return p.c.sessionIDIndex[c12SessID(i)]
}
func (p *c12PPPoE) live(i int) bool { return p.get(i) != nil }

func (p *c12PPPoE) create(n c12New, v4, v6 net.IP, pd *net.IPNet, t0 time.Time, swif uint32) bool {
	s := &SessionState{
		SessionID: c12SessID(n.idx), AcctSessionID: fmt.Sprintf("acct%d", n.idx), PPPoESessionID: uint16(n.idx + 1),
		MAC: append(net.HardwareAddr(nil), c12Ident(n.idx).mac...), OuterVLAN: c12Ident(n.idx).svlan,
		InnerVLAN: c12Ident(n.idx).cvlan, EncapIfIndex: c12Ident(n.idx).encap,
		HostUniq: []byte{7, byte(n.idx)}, AgentCircuitID: fmt.Sprintf("circuit-%d", n.idx),
		AgentRemoteID: fmt.Sprintf("remote-%d", n.idx), Attributes: map[string]string{"k": fmt.Sprintf("v%d", n.idx)},
		SwIfIndex: swif, Phase: ppp.PhaseAuthenticate, ServiceName: "t-", IPv4Address: v4, IPv6Address: v6, IPv6Prefix: pd,
		Username: fmt.Sprintf("u%d", n.idx), LCPMagic: 0x1000 + uint32(n.idx), CreatedAt: t0, BoundAt: c12Time(t0, n.age4),
		ServiceGroup: svcgroup.ServiceGroup{Name: "sg", URPF: "strict", Unnumbered: "loop0"}, NegotiatedPPPMTU: 1492,
		IPv6LeaseTime: uint32(n.lease6), IPv6BoundAt: c12Time(t0, n.age6),
	}
	if n.bound {
		s.Phase = ppp.PhaseOpen
	}
	if n.v4 == "a" && v4 != nil {
		s.allocatedPool = "p4/pool"
	}
	if n.v6 == "a" && v6 != nil {
		s.allocatedIANAPool = "p6/iana"
	}
	s.component = p.c
	s.initPPP()
	p.c.sessionMu.Lock()
	p.c.addToIndexes(s)
	p.c.sessionMu.Unlock()
	return true
}

func (p *c12PPPoE) stamp(i int, st string) {
	s := p.get(i)
	s.mu.Lock()
	s.ServiceName = st
	s.mu.Unlock()
}
func (p *c12PPPoE) checkpoint(i int) { p.c.checkpointSession(p.get(i)) }
func (p *c12PPPoE) checkpointSync(i int) {
	if err := p.c.checkpointSessionSync(p.get(i)); err != nil {
		p.e.log.add("CKSERR")
	}
}
func (p *c12PPPoE) v4of(i int) net.IP                     { return nil }
func (p *c12PPPoE) bind4(i int, a net.IP, lease int) bool { return false } // IPCP assigns at bring-up; no such path

func (p *c12PPPoE) release(i int) {
	p.c.handleSubscriberTerminate(events.Event{Data: &events.SubscriberTerminateEvent{SessionID: c12SessID(i), Reason: "c12"}})
}

func (p *c12PPPoE) show(s *SessionState, kpd int) string {
	i, _ := strconv.Atoi(c12Idx(s.SessionID))
	id := c12KeyStr(s.MAC, s.OuterVLAN, s.InnerVLAN) // the full key, as restored
	if s.EncapIfIndex != c12Ident(i).encap || int(s.PPPoESessionID) != i+1 ||
		s.Username != fmt.Sprintf("u%d", i) || s.AcctSessionID != fmt.Sprintf("acct%d", i) || s.ServiceGroup.URPF != "strict" ||
		s.LCPMagic != 0x1000+uint32(i) || s.NegotiatedPPPMTU != 1492 ||
		!bytes.Equal(s.HostUniq, []byte{7, byte(i)}) || s.AgentCircuitID != fmt.Sprintf("circuit-%d", i) ||
		s.AgentRemoteID != fmt.Sprintf("remote-%d", i) || s.Attributes["k"] != fmt.Sprintf("v%d", i) {
		id += "!IDENTITY"
	}
	fl := ""
	if s.Phase == ppp.PhaseOpen {
		fl += "b"
	}
	if s.SwIfIndex != 0 {
		fl += "c"
	}
	if fl == "" {
		fl = "."
	}
	return fmt.Sprintf("%d:%s:%d:%s:%s:%s:%s:%s", i, strings.TrimPrefix(s.ServiceName, "t"), s.SwIfIndex, fl,
		c12V4Idx(s.IPv4Address), c12V6Idx(s.IPv6Address), c12PDIdx(s.IPv6Prefix, kpd), id)
}

func (p *c12PPPoE) dumpLive(kpd int) string {
	out := []string{}
	p.c.sessionMu.RLock()
	for _, s := range p.c.sessionIDIndex {
		line := p.show(s, kpd)
		// the protocol's own lookups (MAC, S-VLAN, C-VLAN / PPPoE session id / accounting id) must lead to THIS session
		if p.c.sessions[p.c.sessionKey(s.MAC, s.OuterVLAN, s.InnerVLAN)] != s || p.c.sidIndex[s.PPPoESessionID] != s ||
			p.c.acctSessionIndex[s.AcctSessionID] != s {
			line += "!KEYMISS"
		}
		out = append(out, line)
	}
	p.c.sessionMu.RUnlock()
	sort.Slice(out, func(a, b int) bool {
		x, _ := strconv.Atoi(strings.SplitN(out[a], ":", 2)[0])
		y, _ := strconv.Atoi(strings.SplitN(out[b], ":", 2)[0])
		return x < y
	})
	if len(out) == 0 {
		return "-"
	}
	return strings.Join(out, ",")
}

func (p *c12PPPoE) dumpStored(val []byte, kpd int) string {
	var s SessionState
	if err := json.Unmarshal(val, &s); err != nil {
		return "UNPARSEABLE"
	}
	return p.show(&s, kpd)
}

func TestVerifC12(t *testing.T) {
	c12Run(t, func(e *c12Env) c12Proto { return &c12PPPoE{e: e} }, "pppoe_session", opdb.NamespacePPPoESessions)
}
