//go:build verif

// C12: two checkpoints of ONE IPoE session issued concurrently (the DHCPv4 and the DHCPv6 path run on different
// goroutines).  Contract the restart model assumes: the order of the images in the session's write order is the order
// in which they were marshalled.  Probabilistic detector: <n> forced overlaps while other sessions keep the writer's
// bookkeeping mutex busy; stops at the first overlap in which the OLDER image is written last.
//
//	case: race <n>      out: stale=no | stale=yes
package ipoe

import (
	"bufio"
	"bytes"
	"context"
	"errors"
	"fmt"
	"net"
	"os"
	"strconv"
	"strings"
	"sync"
	"testing"
	"time"

	"github.com/veesix-networks/osvbng/pkg/component"
	"github.com/veesix-networks/osvbng/pkg/logger"
	"github.com/veesix-networks/osvbng/pkg/opdb"
)

type c12RaceStore struct {
	mu     sync.Mutex
	key    string   // the session key of this iteration
	vals   [][]byte // every ATTEMPT on that key, in arrival order (failed ones included)
	failAt int      // fault plan: the attempt with this index fails with a transient error (-1: none)
	bad    string
}

var errC12Race = errors.New("c12: database is locked (injected)")

func (s *c12RaceStore) Put(_ context.Context, ns, key string, v []byte) error {
	if ns != opdb.NamespaceIPoESessions {
		return nil
	}
	s.mu.Lock()
	defer s.mu.Unlock()
	if key != s.key {
		s.bad = "write to key " + key + " while " + s.key + " is checkpointed"
		return nil
	}
	s.vals = append(s.vals, append([]byte(nil), v...))
	if len(s.vals)-1 == s.failAt {
		return errC12Race
	}
	return nil
}
func (s *c12RaceStore) Delete(context.Context, string, string) error      { return nil }
func (s *c12RaceStore) Load(context.Context, string, opdb.LoadFunc) error { return nil }
func (s *c12RaceStore) Count(context.Context, string) (int, error)        { return 0, nil }
func (s *c12RaceStore) Clear(context.Context, string) error               { return nil }
func (s *c12RaceStore) Stats() opdb.Stats                                 { return opdb.Stats{} }
func (s *c12RaceStore) Close() error                                      { return nil }

func c12RaceCase(n int) string {
	st := &c12RaceStore{}
	c := &Component{Base: component.NewBase("c12race"), logger: logger.NewTest(), opdb: st, raBuckets: map[int][]string{}}
	c.StartContext(context.Background())
	stop := make(chan struct{})
	var bg sync.WaitGroup
	for g := 0; g < 6; g++ {
		bg.Add(1)
		go func(g int) {
			defer bg.Done()
			k := []string{"a", "b", "c", "d", "s000", "s001"}[g] // the sessions' own keys too, in ANOTHER namespace
			for {
				select {
				case <-stop:
					return
				default:
				}
				c.checkpointWriter().Put(context.Background(), "c12other", k, []byte("x"))
			}
		}(g)
	}
	defer func() { close(stop); bg.Wait() }()
	for it := 0; it < n; it++ {
		// two sessions whose keys differ in the last character only, in turn; fault plan: every 5th overlap the first
		// attempt fails, every other 5th the second one
		sess := &SessionState{SessionID: fmt.Sprintf("s00%d", it%2), MAC: net.HardwareAddr{2, 0, 0, 0, 0, 0x10}, OuterVLAN: 100,
			InnerVLAN: uint16(10 + it%2), Hostname: "old"}
		st.mu.Lock()
		st.vals = st.vals[:0]
		st.key = sess.SessionID
		st.failAt = -1
		if it%5 >= 3 {
			st.failAt = it%5 - 3
		}
		st.mu.Unlock()
		var wg sync.WaitGroup
		wg.Add(2)
		start := make(chan struct{})
		go func() { defer wg.Done(); <-start; c.checkpointSession(sess) }()
		go func() {
			defer wg.Done()
			<-start
			sess.mu.Lock()
			sess.Hostname = "new" // e.g. the DHCPv6 binding recorded by the other path
			sess.mu.Unlock()
			c.checkpointSession(sess)
		}()
		close(start)
		wg.Wait()
		// a synchronous write of the same key is ordered after both asynchronous ones
		c.checkpointWriter().Put(context.Background(), opdb.NamespaceIPoESessions, sess.SessionID, []byte("BARRIER"))
		st.mu.Lock()
		// the last attempt before the barrier carries the image marshalled last — whether or not an attempt failed (a
		// repetition of a failed attempt inside its slot keeps that order too)
		n := len(st.vals)
		stale := n >= 3 && bytes.Contains(st.vals[n-2], []byte(`"Hostname":"old"`))
		bad := st.bad
		if bad == "" && (n < 3 || string(st.vals[n-1]) != "BARRIER") {
			bad = fmt.Sprintf("%d attempts, barrier not last", n)
		}
		st.mu.Unlock()
		if stale {
			return "stale=yes"
		}
		if bad != "" {
			return "stale=no BAD:" + strings.ReplaceAll(bad, " ", "_")
		}
	}
	return "stale=no"
}

func TestVerifC12Race(t *testing.T) {
	in, err := os.Open(os.Getenv("VERIF_CASES"))
	if err != nil {
		t.Fatal(err)
	}
	defer in.Close()
	outf, err := os.Create(os.Getenv("VERIF_OUT"))
	if err != nil {
		t.Fatal(err)
	}
	defer outf.Close()
	wr := bufio.NewWriter(outf)
	defer wr.Flush()
	sc := bufio.NewScanner(in)
	for sc.Scan() {
		f := strings.Fields(sc.Text())
		if len(f) < 2 || f[0] != "race" {
			fmt.Fprintln(wr, "badline")
			continue
		}
		n, _ := strconv.Atoi(f[1])
		res := make(chan string, 1)
		go func() {
			defer func() {
				if r := recover(); r != nil {
					res <- fmt.Sprintf("panic %v", r)
				}
			}()
			res <- c12RaceCase(n)
		}()
		select {
		case r := <-res:
			fmt.Fprintln(wr, r)
		case <-time.After(300 * time.Second):
			fmt.Fprintln(wr, "hang")
		}
	}
}
