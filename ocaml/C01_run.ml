(* C01 driver.  argv: cases file, implementation output file (needed: MODEL_NEEDS_IMPL), variant.
   Case syntax (see notes/C01.md):
     pool <lo> <hi> <E> e1..eE ; ops          ops: A<sid> R<sid>,<addr> L<addr> C<addr> D0|D1 V
     pd <net> <nbits> <plen> ; ops            ops: A<sid> R<sid>,<pfx> L<pfx> C<pfx> D0|D1 V
     reg4|reg6 <P> {<pf> <gw> <K> {<pool> <prio> <vrf> <net> <lo> <hi> <gw> <E> {<a> <b>}}} ; ops
                                              ops: A<sid>,<pf>,<override>,<vrf> L<pf>/<pool>,<addr>
                                                   P<sid>,<pf>/<pool>,<addr> R<sid>,<addr> I<addr> D0|D1 V<pf>/<pool> O<pf>
   One output token per op; Allocate answers and walk choices are taken from the implementation's line,
   checked for admissibility inside the model step and echoed. *)
let variant =
  if Array.length Sys.argv > 3 then
    (match Sys.argv.(3) with "defective" -> Defective | "sharedvrf" -> SharedVrf | "unguarded" -> Unguarded | "v4pd" -> V4Pd | _ -> Repaired)
  else Repaired

let addr_of_tok (t : string) : addr option =
  if t = "nil" || t = "bad" then None
  else if String.length t > 2 && t.[1] = ':' then
    let num = n_of_decimal (String.sub t 2 (String.length t - 2)) in
    (match t.[0] with '4' -> Some (V4, num) | '6' -> Some (V6, num) | _ -> failwith ("addr " ^ t))
  else failwith ("addr " ^ t)
let addr_exn t = match addr_of_tok t with Some a -> a | None -> failwith ("addr! " ^ t)
let tok_of_addr ((f, x) : addr) = (match f with V4 -> "4:" | V6 -> "6:") ^ decimal_of_n x
let split_on c s = String.split_on_char c s
let rest s = String.sub s 1 (String.length s - 1)
let nat_len l = string_of_int (List.length l)
let n_of_str s = n_of_decimal s
let rec split_at_semi acc = function
  | ";" :: r -> (List.rev acc, r)
  | x :: r -> split_at_semi (x :: acc) r
  | [] -> (List.rev acc, [])
let rec take k l = if k = 0 then ([], l) else match l with x :: r -> let (a, b) = take (k-1) r in (x :: a, b) | [] -> failwith "short"

exception Stop of string

(* ---------------------------------------------------------------- pool *)
let show_out = function
  | OAddr a -> "a" ^ tok_of_addr a
  | OExhausted -> "x" | OOk -> "ok" | OReserved -> "res"
  | ONum k -> "n" ^ decimal_of_n k

let why_not (c : pcfg) (st : pstate) (obs : addr option) =
  match obs with
  | None -> "exhausted-with-" ^ nat_len st.free ^ "-free"
  | Some a ->
    if not (assignable c a) then "unassignable"
    else (match lm_lookup a st.leases with
          | Some s -> "held-by-s" ^ decimal_of_n s
          | None -> "not-free")

let obs_addr (tok : string option) : addr option =
  match tok with
  | Some "x" -> None
  | Some t when String.length t > 3 && t.[0] = 'a' -> (try Some (addr_exn (rest t)) with _ -> raise (Stop "INADMISSIBLE:unparseable"))
  | _ -> raise (Stop "INADMISSIBLE:unparseable")

let run_ops (ops : string list) (impl : string list) (f : string -> string option -> string) : string list =
  let rec go ops impl acc =
    match ops with
    | [] -> List.rev acc
    | op :: r ->
      let (it, ir) = match impl with x :: y -> (Some x, y) | [] -> (None, []) in
      (match f op it with
       | s -> go r ir (s :: acc)
       | exception Stop s -> List.rev (s :: acc)) in
  go ops impl []

let pool_case toks impl =
  match toks with
  | lo :: hi :: e :: r ->
    let (ex, r) = take (int_of_string e) r in
    let ops = match r with ";" :: o -> o | _ -> failwith "pool: no ;" in
    (match pool_geom variant (addr_exn lo) (addr_exn hi) (List.map addr_exn ex) with
     | None -> ["hang"]      (* NewPoolAllocator does not return *)
     | Some c ->
    let st = ref (pool_init c) in
    run_ops ops impl (fun op it ->
      let arg = rest op in
      let call = match op.[0] with
        | 'A' -> Some (CAlloc (n_of_str arg, obs_addr it))
        | 'R' -> (match split_on ',' arg with [s; a] -> Some (CReserve (addr_of_tok a, n_of_str s)) | _ -> failwith "R")
        | 'L' -> Some (CRelease (addr_of_tok arg))
        | 'D' -> Some (CSetDir (arg = "1"))
        | 'V' -> Some CAvail
        | 'C' -> None
        | _ -> failwith "op" in
      match call with
      | None -> if contains c (addr_of_tok arg) then "t" else "f"
      | Some k ->
        (match pool_call variant c !st k with
         | Some (st', o) -> st := st'; show_out o
         | None -> raise (Stop ("INADMISSIBLE:" ^ (match k with CAlloc (_, obs) -> why_not c !st obs | _ -> "?"))))))
  | _ -> failwith "pool"

(* ---------------------------------------------------------------- prefix delegation *)
let pfx_of_tok (t : string) : pfx =
  if t = "nil" then PNil else
  let i = String.rindex t '/' in
  let ipt = String.sub t 0 i and mt = String.sub t (i+1) (String.length t - i - 1) in
  let (ones, bits) = match mt with
    | "mnil" | "mbad" -> (N0, N0)
    | _ -> (match split_on ':' mt with [o; b] -> (n_of_str o, n_of_str b) | _ -> failwith "mask") in
  Pfx (addr_of_tok ipt, ones, bits)

let show_pdout = function
  | QPfx (ip, o, b) -> "p" ^ decimal_of_n ip ^ "/" ^ decimal_of_n o ^ ":" ^ decimal_of_n b
  | QExhausted -> "x" | QOk -> "ok" | QReserved -> "res"
  | QNum k -> "n" ^ decimal_of_n k
  | QBool b -> if b then "t" else "f"

let obs_pfx (tok : string option) : ((n * n) * n) option =
  match tok with
  | Some "x" -> None
  | Some t when String.length t > 1 && t.[0] = 'p' ->
    (try
       let t = rest t in
       let i = String.rindex t '/' in
       let ipt = String.sub t 0 i and mt = String.sub t (i+1) (String.length t - i - 1) in
       (match split_on ':' mt with
        | [o; b] -> Some ((n_of_str ipt, n_of_str o), n_of_str b)
        | _ -> raise Not_found)
     with _ -> raise (Stop "INADMISSIBLE:unparseable"))
  | _ -> raise (Stop "INADMISSIBLE:unparseable")

let pd_case toks impl =
  match toks with
  | net :: nb :: pl :: ";" :: ops ->
    let (v4, netn) = if String.length net > 2 && net.[1] = ':' then (net.[0] = '4', n_of_str (String.sub net 2 (String.length net - 2)))
      else (false, n_of_str net) in
    let c = { pd_net = netn; pd_nbits = n_of_str nb; pd_plen = n_of_str pl; pd_v4 = v4 } in
    if not (pd_new variant c) then ["nilalloc"]
    else if not (N.ltb c.pd_net w128) then ["OUTSIDE-MODEL"]
    else begin
      let st = ref (pd_init c) in
      run_ops ops impl (fun op it ->
        let arg = rest op in
        let k = match op.[0] with
          | 'A' -> PAlloc (n_of_str arg, obs_pfx it)
          | 'R' -> (match split_on ',' arg with [s; p] -> PReserve (pfx_of_tok p, n_of_str s) | _ -> failwith "R")
          | 'L' -> PRelease (pfx_of_tok arg)
          | 'C' -> PContains (pfx_of_tok arg)
          | 'D' -> PSetDir (arg = "1")
          | 'V' -> PAvail
          | _ -> failwith "op" in
        match pd_step variant c !st k with
        | Some (st', o) -> st := st'; show_pdout o
        | None ->
          let why = match k with
            | PAlloc (_, None) -> "exhausted-with-" ^ nat_len !st.free ^ "-free"
            | PAlloc (_, Some ((ip, o), b)) ->
              (match prefix_to_index variant c (Pfx (Some (V6, ip), o, b)) with
               | None -> "outside-pool"
               | Some i ->
                 if index_to_prefix c i <> ip then "unaligned"
                 else (match lm_lookup (key_of_idx i) !st.leases with
                       | Some s -> "held-by-s" ^ decimal_of_n s
                       | None -> "not-free"))
            | _ -> "?" in
          raise (Stop ("INADMISSIBLE:" ^ why)))
    end
  | _ -> failwith "pd"

(* ---------------------------------------------------------------- registry *)
let key_of_tok t = match split_on '/' t with [a; b] -> (n_of_str a, n_of_str b) | _ -> failwith ("key " ^ t)
let tok_of_key (a, b) = decimal_of_n a ^ "/" ^ decimal_of_n b
let z_of_str s = let i = int_of_string s in if i = 0 then Z0 else if i > 0 then Zpos (pos_of_int i) else Zneg (pos_of_int (-i))
let pow2 k = let rec go k acc = if k = 0 then acc else go (k-1) (N.mul acc (n_of_int 2)) in go k (n_of_int 1)
let rec n_range (a : n) (b : n) : n list = if N.leb a b then a :: n_range (N.add a (n_of_int 1)) b else []
let fam_of_char = function '4' -> F4 | 'n' -> FNA | 'd' -> FPD | c -> failwith (Printf.sprintf "fam %c" c)
let fam_tag = function F4 -> "4" | FNA -> "n" | FPD -> "d"

(* configuration tokens -> the Coq pool_spec (strings are abstracted to empty / unparseable / address);
   the geometry itself (default range, gateway and exclude expansion) is computed by spec_geom in Coq *)
let cstr_of t = if t = "-" then SEmpty else if t = "junk" then SJunk else SAddr (addr_exn t)
let spec_of fam (pgw : string) (net : string) (lo : string) (hi : string) (gw : string) (excl : (string * string) list)
  : pool_spec =
  let netv = if net = "bad" then None else
      (match split_on '/' net with [a; b] -> Some (addr_exn a, n_of_str b) | _ -> failwith "net") in
  match fam with
  | FPD -> { sp_net = netv; sp_lo = SEmpty; sp_hi = SEmpty; sp_gw = SEmpty; sp_pgw = SEmpty; sp_plen = n_of_str lo; sp_excl = [] }
  | _ -> { sp_net = netv; sp_lo = cstr_of lo; sp_hi = cstr_of hi; sp_gw = cstr_of gw; sp_pgw = cstr_of pgw; sp_plen = N0;
           sp_excl = List.map (fun (a, b) -> (cstr_of a, cstr_of b)) excl }

let show_gobs = function
  | OA a -> tok_of_addr a
  | OP (ip, o, b) -> "p" ^ decimal_of_n ip ^ "/" ^ decimal_of_n o ^ ":" ^ decimal_of_n b
let show_rout = function
  | ROAns (k, o) -> "a" ^ tok_of_key k ^ "=" ^ show_gobs o
  | ROExhausted -> "x" | ROOk -> "ok" | ROReserved -> "res"
  | RONum k -> "n" ^ decimal_of_n k
  | RONoPool -> "nopool"
  | ROOverlap -> "ovl"
  | ROList l -> "o" ^ String.concat "" (List.map (fun k -> ":" ^ tok_of_key k) l)

let parse_profiles toks =
  match toks with
  | np :: r ->
    let rec profiles k r acc = if k = 0 then (List.rev acc, r) else
        match r with
        | pf :: fam :: pgw :: nk :: r ->
          let fam = fam_of_char fam.[0] in
          let rec pools j r acc = if j = 0 then (List.rev acc, r) else
              match r with
              | name :: prio :: vrf :: net :: lo :: hi :: gw :: ne :: r ->
                let (ex, r) = take (2 * int_of_string ne) r in
                let rec pairs = function a :: b :: t -> (a, b) :: pairs t | _ -> [] in
                let p = { rs_name = n_of_str name; rs_prio = z_of_str prio; rs_vrf = n_of_str vrf;
                          rs_spec = spec_of fam pgw net lo hi gw (pairs ex) } in
                pools (j-1) r (p :: acc)
              | _ -> failwith "pool spec" in
          let (ps, r) = pools (int_of_string nk) r [] in
          profiles (k-1) r ({ sf_name = n_of_str pf; sf_fam = fam; sf_pools = ps } :: acc)
        | _ -> failwith "profile spec" in
    profiles (int_of_string np) r []
  | _ -> failwith "reg"

let arg_of fam t = match fam with FPD -> RP (pfx_of_tok t) | _ -> RA (addr_of_tok t)

let obs_ans (it : string option) : (key * gobs) option =
  match it with
  | Some "x" -> None
  | Some t when String.length t > 1 && t.[0] = 'a' ->
    (try (match split_on '=' (rest t) with
         | [k; a] ->
           let o = if String.length a > 0 && a.[0] = 'p' then
               (match obs_pfx (Some a) with Some ((ip, o), b) -> OP (ip, o, b) | None -> raise Not_found)
             else OA (addr_exn a) in
           Some (key_of_tok k, o)
         | _ -> raise Not_found) with _ -> raise (Stop "INADMISSIBLE:unparseable"))
  | _ -> raise (Stop "INADMISSIBLE:unparseable")

(* the pool a containment walk stopped at: from the implementation's token (..@key) when it has one,
   otherwise inferred when at most one allocator contains the argument *)
let walk_obs st fam x (it : string option) : key option =
  let from_tok t =
    match String.index_opt t '@' with
    | Some i -> let k = String.sub t (i+1) (String.length t - i - 1) in
      if k = "-" then Some None else (try Some (Some (key_of_tok k)) with _ -> raise (Stop "INADMISSIBLE:walk-unparseable"))
    | None -> None in
  match (match it with Some t -> from_tok t | None -> None) with
  | Some o -> o
  | None ->
    (match List.filter (fun (_, (ac, _)) -> acontains variant ac x) (r_allocs st fam) with
     | [] -> None
     | [(k, _)] -> Some k
     | _ -> raise (Stop "AMBIGUOUS-WALK"))

let why_alloc st fam pf ov vrf obs =
  match alloc_target variant st fam pf ov vrf, obs with
  | None, Some _ -> "no-pool-of-this-vrf-has-a-free-address"
  | Some t, None -> "exhausted-but-" ^ tok_of_key t ^ "-has-free"
  | Some t, Some (k', o) ->
    if not (key_eqb t k') then "wrong-pool-expected-" ^ tok_of_key t
    else (match assoc_find key_eqb t (r_allocs st fam), o with
        | Some (APool c, ps), OA a -> why_not c ps (Some a)
        | Some (APd c, ps), OP (ip, on, b) ->
          (match prefix_to_index variant c (Pfx (Some (V6, ip), on, b)) with
           | None -> "outside-pool"
           | Some i -> if index_to_prefix c i <> ip then "unaligned"
             else (match lm_lookup (key_of_idx i) ps.leases with
                 | Some s -> "held-by-s" ^ decimal_of_n s | None -> "not-free"))
        | _ -> "wrong-kind-of-answer")
  | None, None -> "?"

let final_counts st =
  let one fam = List.map (fun (k, (_, ps)) -> fam_tag fam ^ ":" ^ tok_of_key k ^ "=" ^ string_of_int (List.length ps.free)) (r_allocs st fam) in
  List.sort compare (one F4 @ one FNA @ one FPD)

let reg_op st op it : rcall * bool =
  if op.[0] = 'D' then (RSetDir (rest op = "1"), false) else
  let fam = fam_of_char op.[1] in
  let q = split_on ',' (String.sub op 2 (String.length op - 2)) in
  match op.[0], q with
  | 'A', [s; pf; ov; vrf] -> (RAlloc (fam, n_of_str pf, n_of_str ov, n_of_str vrf, n_of_str s, obs_ans it), false)
  | 'L', [k; a] -> (RRelease (fam, key_of_tok k, arg_of fam a), false)
  | 'P', [s; k; a] ->
    let k = key_of_tok k and x = arg_of fam a in
    (match assoc_find key_eqb k (r_allocs st fam) with
     | Some _ -> (RReserveInPool (fam, k, x, n_of_str s, None), false)
     | None -> (RReserveInPool (fam, k, x, n_of_str s, walk_obs st fam x it), true))
  | 'R', [s; a] -> let x = arg_of fam a in (RReserve (fam, x, n_of_str s, walk_obs st fam x it), true)
  | 'Q', [k; a] ->
    let k = key_of_tok k and x = arg_of fam a in
    (match assoc_find key_eqb k (r_allocs st fam) with
     | Some _ -> (RReleaseInPool (fam, k, x, None), false)
     | None -> (RReleaseInPool (fam, k, x, walk_obs st fam x it), true))
  | 'I', [a] ->
    let x = arg_of fam a in
    if fam = FPD then (RReleaseByValue (fam, x, walk_obs st fam x it), true) else (RReleaseByValue (fam, x, None), false)
  | 'V', [k] -> (RAvail (fam, key_of_tok k), false)
  | 'O', [pf] -> (RPools (fam, n_of_str pf), false)
  | _ -> failwith ("reg op " ^ op)

let walk_key = function
  | RReserve (_, _, _, Some w) | RReserveInPool (_, _, _, _, Some w)
  | RReleaseInPool (_, _, _, Some w) | RReleaseByValue (_, _, Some w) -> tok_of_key w
  | _ -> "-"

let reg_step_show st k walk =
  match reg_step variant !st k with
  | Some (st', o) ->
    st := st';
    if walk then show_rout o ^ "@" ^ walk_key k else show_rout o
  | None ->
    let why = match k with
      | RAlloc (fam, pf, ov, vrf, _, obs) -> why_alloc !st fam pf ov vrf obs
      | _ -> "walk-stopped-at-a-pool-that-does-not-contain-the-argument" in
    raise (Stop ("INADMISSIBLE:" ^ why))

let is_inadm s = String.length s > 11 && String.sub s 0 12 = "INADMISSIBLE"

let reg_case toks impl =
  let (specs, r) = parse_profiles toks in
  let ops = match r with ";" :: o -> o | _ -> failwith "reg: no ;" in
  match reg_config variant specs with
  | None -> ["hang"]       (* newRegistry does not return *)
  | Some pfs ->
  let st = ref (reg_init variant pfs) in
  let outs = run_ops ops impl (fun op it -> let (k, walk) = reg_op !st op it in reg_step_show st k walk) in
  let complete = List.length outs = List.length ops && not (List.exists is_inadm outs) in
  if not complete then outs else outs @ ("|" :: final_counts !st)

(* ---------------------------------------------------------------- ResolveV4 / ResolveV6 (pkg/dhcp) *)
(* res <profiles as for reg> ; ops
     Y<sid>,<pf>,<override>,<vrf>,<addr|->                       ResolveV4
     Z<sid>,<pf>,<iana override>,<pd override>,<vrf>,<addr|->,<pfx|->   ResolveV6
     plus the registry ops A L I of reg (exported API)
   no '@' tokens: pools of one family are disjoint in these cases, so walks are inferred *)
let opt_key = function Some k -> tok_of_key k | None -> "-"
(* contexts persist per session id within a case: Y/Z start a fresh context, y/z re-enter with the kept one,
   n<sid> / m<sid> clear the address fields (what the protocol code does after a refused reservation) *)
(* the context's prefix as the harness shows a *net.IPNet *)
let show_ctx_pfx = function
  | None -> "-"
  | Some PNil -> "pnil"
  | Some (Pfx (Some (V6, a), o, b)) -> "p" ^ decimal_of_n a ^ "/" ^ decimal_of_n o ^ ":" ^ decimal_of_n b
  | Some (Pfx (Some a, _, _)) -> "p?" ^ tok_of_addr a
  | Some (Pfx (None, _, _)) -> "p?bad"

(* AAA attribute tokens: "-" absent, "!" not a string, "junk" unparseable string, otherwise the text *)
let av_of tok (f : string -> 'a) : 'a option aval =
  if tok = "-" then AvAbsent else if tok = "!" then AvNotString else if tok = "junk" then AvStr None else AvStr (Some (f tok))
let av_name tok : n aval =
  if tok = "-" then AvAbsent else if tok = "!" then AvNotString else if tok = "junk" then AvStr (n_of_int 999) else AvStr (n_of_str tok)
let cidr_of tok = let i = String.rindex tok '/' in (addr_exn (String.sub tok 0 i), n_of_str (String.sub tok (i+1) (String.length tok - i - 1)))
let ctx4_of_attrs q = match q with
  | [s; pf; vrf; a4; pool] -> (s, new_context4 (n_of_str pf) (n_of_str vrf) { at_v4 = av_of a4 addr_exn; at_pool = av_name pool })
  | _ -> failwith "X"
let ctx6_of_attrs q = match q with
  | [s; pf; vrf; a6; pd; nap; pdp] ->
    (s, new_context6 (n_of_str pf) (n_of_str vrf)
       { at_v6 = av_of a6 addr_exn; at_pd = av_of pd cidr_of; at_napool = av_name nap; at_pdpool = av_name pdp })
  | _ -> failwith "W"

(* resn: the same ops with no registry at all (GetGlobalRegistry() == nil, nil *Registry receivers) *)
let resn_case toks impl =
  let (_, r) = parse_profiles toks in
  let ops = match r with ";" :: o -> o | _ -> failwith "resn: no ;" in
  let c4 : (string, sctx4) Hashtbl.t = Hashtbl.create 8 and c6 : (string, sctx6) Hashtbl.t = Hashtbl.create 8 in
  let run4 sid (cx : sctx4) it =
    let obs = match it with Some t when String.length t > 1 && t.[0] = 'r' && cx.c4_addr = None -> Some ((N0, N0), OA (V4, N0)) | _ -> None in
    match resolve4_ctx_opt variant None (n_of_str sid) cx obs None with
    | Some ((_, cx'), r) -> Hashtbl.replace c4 sid cx';
      (match r with R4Nil -> "nil" | R4 (a, pool) -> "r" ^ tok_of_addr a ^ "@" ^ opt_key pool)
    | None -> raise (Stop "INADMISSIBLE:an-address-from-no-registry") in
  let run6 sid (cx : sctx6) it =
    let fields = match it with
      | Some t -> List.filter_map (fun f -> match String.index_opt f '=' with
          | Some i -> Some (String.sub f 0 i, String.sub f (i+1) (String.length f - i - 1)) | None -> None) (split_on ';' t)
      | None -> [] in
    let fld n = try List.assoc n fields with Not_found -> "-" in
    let dummy = Some ((N0, N0), OA (V6, N0)) in
    let obsna = if cx.c6_na = None && fld "na" <> "-" then dummy else None in
    let obspd = if cx.c6_pd = None && fld "pd" <> "-" then dummy else None in
    match resolve6_ctx_opt variant None (n_of_str sid) cx obsna obspd None None with
    | Some ((_, cx'), r) -> Hashtbl.replace c6 sid cx';
      Printf.sprintf "%s;na=%s;napool=%s;pd=%s;pdpool=%s;rna=%s;rpd=%s;cpd=%s" (if r.r6_nil then "nil" else "ok")
        (match cx'.c6_na with Some a -> tok_of_addr a | None -> "-") (opt_key cx'.c6_napool)
        (match r.r6_pd with Some o -> show_gobs o | None -> "-") (opt_key cx'.c6_pdpool)
        (if r.r6_nil then "-" else opt_key r.r6_napool) (if r.r6_nil then "-" else opt_key r.r6_pdpool)
        (show_ctx_pfx cx'.c6_pd)
    | None -> raise (Stop "INADMISSIBLE:an-address-or-prefix-from-no-registry") in
  run_ops ops impl (fun op it ->
    match op.[0] with
    | 'Y' ->
      (match split_on ',' (rest op) with
       | [s; pf; ov; vrf; have] ->
         let have = if have = "-" then None else Some (unmap (addr_exn have)) in
         run4 s { c4_pf = n_of_str pf; c4_ov = n_of_str ov; c4_vrf = n_of_str vrf; c4_addr = have; c4_pool = None } it
       | _ -> failwith "Y")
    | 'X' -> let (sid, cx) = ctx4_of_attrs (split_on ',' (rest op)) in run4 sid cx it
    | 'W' -> let (sid, cx) = ctx6_of_attrs (split_on ',' (rest op)) in run6 sid cx it
    | 'y' -> (match Hashtbl.find_opt c4 (rest op) with Some cx -> run4 (rest op) cx it | None -> "noctx")
    | 'n' -> (match Hashtbl.find_opt c4 (rest op) with
        | Some cx -> Hashtbl.replace c4 (rest op) { cx with c4_addr = None }; "ok" | None -> "noctx")
    | 'Z' ->
      (match split_on ',' (rest op) with
       | [s; pf; naov; pdov; vrf; hna; hpd] ->
         let hna = if hna = "-" then None else Some (unmap (addr_exn hna)) in
         let hpd = if hpd = "-" then None else Some (pfx_of_tok hpd) in
         run6 s { c6_pf = n_of_str pf; c6_naov = n_of_str naov; c6_pdov = n_of_str pdov; c6_vrf = n_of_str vrf;
                  c6_na = hna; c6_pd = hpd; c6_napool = None; c6_pdpool = None } it
       | _ -> failwith "Z")
    | 'z' -> (match Hashtbl.find_opt c6 (rest op) with Some cx -> run6 (rest op) cx it | None -> "noctx")
    | 'm' -> (match Hashtbl.find_opt c6 (rest op) with
        | Some cx -> Hashtbl.replace c6 (rest op) { cx with c6_na = None; c6_pd = None }; "ok" | None -> "noctx")
    | _ ->
      (* A / L / I on a nil *Registry *)
      let fam = fam_of_char op.[1] in
      let q = split_on ',' (String.sub op 2 (String.length op - 2)) in
      let k = match op.[0], q with
        | 'A', [s; pf; ov; vrf] ->
          let obs = match it with Some "x" -> None | _ -> Some ((N0, N0), OA (V4, N0)) in
          RAlloc (fam, n_of_str pf, n_of_str ov, n_of_str vrf, n_of_str s, obs)
        | 'L', [k; a] -> RRelease (fam, key_of_tok k, arg_of fam a)
        | 'I', [a] -> RReleaseByValue (fam, arg_of fam a, None)
        | _ -> failwith ("resn op " ^ op) in
      (match reg_step_opt variant None k with
       | Some (_, o) -> show_rout o
       | None -> raise (Stop "INADMISSIBLE:an-answer-from-a-nil-registry")))

let res_case toks impl =
  let (specs, r) = parse_profiles toks in
  let ops = match r with ";" :: o -> o | _ -> failwith "res: no ;" in
  match reg_config variant specs with
  | None -> ["hang"]
  | Some pfs ->
  let st = ref (reg_init variant pfs) in
  let c4 : (string, sctx4) Hashtbl.t = Hashtbl.create 8 and c6 : (string, sctx6) Hashtbl.t = Hashtbl.create 8 in
  let run4 sid (cx : sctx4) it =
    let obs = match cx.c4_addr, it with
      | None, Some "nil" -> None
      | None, Some t when String.length t > 1 && t.[0] = 'r' ->
        (match split_on '@' (rest t) with
         | [a; k] when k <> "-" -> (try Some (key_of_tok k, OA (addr_exn a)) with _ -> raise (Stop "INADMISSIBLE:unparseable"))
         | _ -> raise (Stop "INADMISSIBLE:unparseable"))
      | None, _ -> raise (Stop "INADMISSIBLE:unparseable")
      | Some _, _ -> None in
    let w = match cx.c4_addr with Some a -> walk_obs !st F4 (RA (Some a)) None | None -> None in
    match resolve4_ctx variant !st (n_of_str sid) cx obs w with
    | Some ((st', cx'), r) ->
      st := st'; Hashtbl.replace c4 sid cx';
      (match r with R4Nil -> "nil" | R4 (a, pool) -> "r" ^ tok_of_addr a ^ "@" ^ opt_key pool)
    | None -> raise (Stop ("INADMISSIBLE:" ^ why_alloc !st F4 cx.c4_pf cx.c4_ov cx.c4_vrf obs)) in
  let run6 sid (cx : sctx6) it =
    (* impl token: <nil|ok>;na=<addr|->;napool=<k|->;pd=<p..|->;pdpool=<k|-> *)
    let fields = match it with
      | Some t -> List.filter_map (fun f -> match String.index_opt f '=' with
          | Some i -> Some (String.sub f 0 i, String.sub f (i+1) (String.length f - i - 1)) | None -> None)
          (split_on ';' t)
      | None -> [] in
    let fld n = try List.assoc n fields with Not_found -> raise (Stop "INADMISSIBLE:unparseable") in
    let obsna = match cx.c6_na with
      | Some _ -> None
      | None -> if fld "na" = "-" then None else
          (try Some (key_of_tok (fld "napool"), OA (addr_exn (fld "na"))) with Stop s -> raise (Stop s) | _ -> raise (Stop "INADMISSIBLE:unparseable")) in
    let obspd = match cx.c6_pd with
      | Some _ -> None
      | None -> if fld "pd" = "-" then None else
          (match obs_pfx (Some (fld "pd")) with
           | Some ((ip, o), b) -> (try Some (key_of_tok (fld "pdpool"), OP (ip, o, b)) with _ -> raise (Stop "INADMISSIBLE:unparseable"))
           | None -> None) in
    let wna = match cx.c6_na with Some a -> walk_obs !st FNA (RA (Some a)) None | None -> None in
    let wpd = match cx.c6_pd with Some p -> walk_obs !st FPD (RP p) None | None -> None in
    match resolve6_ctx variant !st (n_of_str sid) cx obsna obspd wna wpd with
    | Some ((st', cx'), r) ->
      st := st'; Hashtbl.replace c6 sid cx';
      Printf.sprintf "%s;na=%s;napool=%s;pd=%s;pdpool=%s;rna=%s;rpd=%s;cpd=%s" (if r.r6_nil then "nil" else "ok")
        (match cx'.c6_na with Some a -> tok_of_addr a | None -> "-") (opt_key cx'.c6_napool)
        (match r.r6_pd with Some o -> show_gobs o | None -> "-") (opt_key cx'.c6_pdpool)
        (if r.r6_nil then "-" else opt_key r.r6_napool) (if r.r6_nil then "-" else opt_key r.r6_pdpool)
        (show_ctx_pfx cx'.c6_pd)
    | None -> raise (Stop "INADMISSIBLE:resolve6") in
  run_ops ops impl (fun op it ->
    match op.[0] with
    | 'Y' ->
      (match split_on ',' (rest op) with
       | [s; pf; ov; vrf; have] ->
         let have = if have = "-" then None else Some (unmap (addr_exn have)) in
         run4 s { c4_pf = n_of_str pf; c4_ov = n_of_str ov; c4_vrf = n_of_str vrf; c4_addr = have; c4_pool = None } it
       | _ -> failwith "Y")
    | 'X' -> let (sid, cx) = ctx4_of_attrs (split_on ',' (rest op)) in run4 sid cx it
    | 'W' -> let (sid, cx) = ctx6_of_attrs (split_on ',' (rest op)) in run6 sid cx it
    | 'y' -> (match Hashtbl.find_opt c4 (rest op) with Some cx -> run4 (rest op) cx it | None -> "noctx")
    | 'n' -> (match Hashtbl.find_opt c4 (rest op) with
        | Some cx -> Hashtbl.replace c4 (rest op) { cx with c4_addr = None }; "ok" | None -> "noctx")
    | 'Z' ->
      (match split_on ',' (rest op) with
       | [s; pf; naov; pdov; vrf; hna; hpd] ->
         let hna = if hna = "-" then None else Some (unmap (addr_exn hna)) in
         let hpd = if hpd = "-" then None else Some (pfx_of_tok hpd) in
         run6 s { c6_pf = n_of_str pf; c6_naov = n_of_str naov; c6_pdov = n_of_str pdov; c6_vrf = n_of_str vrf;
                  c6_na = hna; c6_pd = hpd; c6_napool = None; c6_pdpool = None } it
       | _ -> failwith "Z")
    | 'z' -> (match Hashtbl.find_opt c6 (rest op) with Some cx -> run6 (rest op) cx it | None -> "noctx")
    | 'm' -> (match Hashtbl.find_opt c6 (rest op) with
        | Some cx -> Hashtbl.replace c6 (rest op) { cx with c6_na = None; c6_pd = None }; "ok" | None -> "noctx")
    | _ -> let (k, _) = reg_op !st op it in reg_step_show st k false)

let () =
  let cases = read_lines Sys.argv.(1) in
  let impls = if Array.length Sys.argv > 2 && Sys.argv.(2) <> "-" then read_lines Sys.argv.(2) else [] in
  let rec go cases impls =
    match cases with
    | [] -> ()
    | line :: cr ->
      let (il, ir) = match impls with x :: y -> (x, y) | [] -> ("", []) in
      let it = tokens il in
      let res =
        try
          (match tokens line with
           | "pool" :: r | "xpool" :: r -> String.concat " " (pool_case r it)
           | "pd" :: r | "xpd" :: r -> String.concat " " (pd_case r it)
           | "xreg" :: r -> String.concat " " (reg_case r it)
           | "reg" :: r -> String.concat " " (reg_case r it)
           | "res" :: r -> String.concat " " (res_case r it)
           | "resn" :: r -> String.concat " " (resn_case r it)
           | _ -> "badline")
        with Failure m -> "MODEL-DRIVER-ERROR " ^ m | Stop m -> m | Not_found -> "MODEL-DRIVER-ERROR notfound"
           | Invalid_argument m -> "MODEL-DRIVER-ERROR " ^ m in
      print_endline res;
      go cr ir in
  go cases impls
