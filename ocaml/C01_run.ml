(* C01 driver.  argv: cases file, implementation output file (needed: MODEL_NEEDS_IMPL), variant.
   Case syntax (see notes/C01.md):
     pool <lo> <hi> <E> e1..eE ; ops          ops: A<sid> R<sid>,<addr> L<addr> C<addr> D0|D1 V
     pd <net> <nbits> <plen> ; ops            ops: A<sid> R<sid>,<pfx> L<pfx> C<pfx> D0|D1 V
     reg4|reg6 <P> {<pf> <gw> <K> {<pool> <prio> <vrf> <net> <lo> <hi> <gw> <E> {<a> <b>}}} ; ops
                                              ops: A<sid>,<pf>,<override>,<vrf> L<pf>/<pool>,<addr>
                                                   P<sid>,<pf>/<pool>,<addr> R<sid>,<addr> I<addr> D0|D1 V<pf>/<pool> O<pf>
   One output token per op; Allocate answers and walk choices are taken from the implementation's line,
   checked for admissibility inside the model step and echoed. *)
let variant = if Array.length Sys.argv > 3 && Sys.argv.(3) = "defective" then Defective else Repaired

let addr_of_tok (t : string) : addr option =
  if t = "nil" || t = "bad" then None
  else if String.length t > 2 && t.[1] = ':' then
    let num = n_of_decimal (String.sub t 2 (String.length t - 2)) in
    (match t.[0] with '4' -> Some (V4, num) | '6' -> Some (V6, num) | _ -> failwith ("addr " ^ t))
  else failwith ("addr " ^ t)
let addr_exn t = match addr_of_tok t with Some a -> a | None -> failwith ("addr! " ^ t)
let tok_of_addr ((f, x) : addr) = (match f with V4 -> "4:" | V6 -> "6:") ^ decimal_of_n x
let split_on c s = String.split_on_char c s
let rest s = String.sub s 1 (String.length s - 1)
let nat_len l = string_of_int (List.length l)
let n_of_str s = n_of_decimal s
let rec split_at_semi acc = function
  | ";" :: r -> (List.rev acc, r)
  | x :: r -> split_at_semi (x :: acc) r
  | [] -> (List.rev acc, [])
let rec take k l = if k = 0 then ([], l) else match l with x :: r -> let (a, b) = take (k-1) r in (x :: a, b) | [] -> failwith "short"

exception Stop of string

(* ---------------------------------------------------------------- pool *)
let show_out = function
  | OAddr a -> "a" ^ tok_of_addr a
  | OExhausted -> "x" | OOk -> "ok" | OReserved -> "res"
  | ONum k -> "n" ^ decimal_of_n k

let why_not (c : pcfg) (st : pstate) (obs : addr option) =
  match obs with
  | None -> "exhausted-with-" ^ nat_len st.free ^ "-free"
  | Some a ->
    if not (assignable c a) then "unassignable"
    else (match lm_lookup a st.leases with
          | Some s -> "held-by-s" ^ decimal_of_n s
          | None -> "not-free")

let obs_addr (tok : string option) : addr option =
  match tok with
  | Some "x" -> None
  | Some t when String.length t > 3 && t.[0] = 'a' -> (try Some (addr_exn (rest t)) with _ -> raise (Stop "INADMISSIBLE:unparseable"))
  | _ -> raise (Stop "INADMISSIBLE:unparseable")

let run_ops (ops : string list) (impl : string list) (f : string -> string option -> string) : string list =
  let rec go ops impl acc =
    match ops with
    | [] -> List.rev acc
    | op :: r ->
      let (it, ir) = match impl with x :: y -> (Some x, y) | [] -> (None, []) in
      (match f op it with
       | s -> go r ir (s :: acc)
       | exception Stop s -> List.rev (s :: acc)) in
  go ops impl []

let pool_case toks impl =
  match toks with
  | lo :: hi :: e :: r ->
    let (ex, r) = take (int_of_string e) r in
    let ops = match r with ";" :: o -> o | _ -> failwith "pool: no ;" in
    let (fam, lon) = unmap (addr_exn lo) in
    let c = { p_fam = fam; p_lo = lon; p_hi = snd (unmap (addr_exn hi)); p_excl = List.map addr_exn ex } in
    let st = ref (pool_init c) in
    run_ops ops impl (fun op it ->
      let arg = rest op in
      let call = match op.[0] with
        | 'A' -> Some (CAlloc (n_of_str arg, obs_addr it))
        | 'R' -> (match split_on ',' arg with [s; a] -> Some (CReserve (addr_of_tok a, n_of_str s)) | _ -> failwith "R")
        | 'L' -> Some (CRelease (addr_of_tok arg))
        | 'D' -> Some (CSetDir (arg = "1"))
        | 'V' -> Some CAvail
        | 'C' -> None
        | _ -> failwith "op" in
      match call with
      | None -> if contains c (addr_of_tok arg) then "t" else "f"
      | Some k ->
        (match pool_call variant c !st k with
         | Some (st', o) -> st := st'; show_out o
         | None -> raise (Stop ("INADMISSIBLE:" ^ (match k with CAlloc (_, obs) -> why_not c !st obs | _ -> "?")))))
  | _ -> failwith "pool"

(* ---------------------------------------------------------------- prefix delegation *)
let pfx_of_tok (t : string) : pfx =
  if t = "nil" then PNil else
  let i = String.rindex t '/' in
  let ipt = String.sub t 0 i and mt = String.sub t (i+1) (String.length t - i - 1) in
  let (ones, bits) = match mt with
    | "mnil" | "mbad" -> (N0, N0)
    | _ -> (match split_on ':' mt with [o; b] -> (n_of_str o, n_of_str b) | _ -> failwith "mask") in
  Pfx (addr_of_tok ipt, ones, bits)

let show_pdout = function
  | QPfx (ip, o, b) -> "p" ^ decimal_of_n ip ^ "/" ^ decimal_of_n o ^ ":" ^ decimal_of_n b
  | QExhausted -> "x" | QOk -> "ok" | QReserved -> "res"
  | QNum k -> "n" ^ decimal_of_n k
  | QBool b -> if b then "t" else "f"

let obs_pfx (tok : string option) : ((n * n) * n) option =
  match tok with
  | Some "x" -> None
  | Some t when String.length t > 1 && t.[0] = 'p' ->
    (try
       let t = rest t in
       let i = String.rindex t '/' in
       let ipt = String.sub t 0 i and mt = String.sub t (i+1) (String.length t - i - 1) in
       (match split_on ':' mt with
        | [o; b] -> Some ((n_of_str ipt, n_of_str o), n_of_str b)
        | _ -> raise Not_found)
     with _ -> raise (Stop "INADMISSIBLE:unparseable"))
  | _ -> raise (Stop "INADMISSIBLE:unparseable")

let pd_case toks impl =
  match toks with
  | net :: nb :: pl :: ";" :: ops ->
    let c = { pd_net = n_of_str net; pd_nbits = n_of_str nb; pd_plen = n_of_str pl } in
    if not (pd_valid c) then ["nilalloc"]
    else if not (pd_wf c) then ["OUTSIDE-MODEL"]
    else begin
      let st = ref (pd_init c) in
      run_ops ops impl (fun op it ->
        let arg = rest op in
        let k = match op.[0] with
          | 'A' -> PAlloc (n_of_str arg, obs_pfx it)
          | 'R' -> (match split_on ',' arg with [s; p] -> PReserve (pfx_of_tok p, n_of_str s) | _ -> failwith "R")
          | 'L' -> PRelease (pfx_of_tok arg)
          | 'C' -> PContains (pfx_of_tok arg)
          | 'D' -> PSetDir (arg = "1")
          | 'V' -> PAvail
          | _ -> failwith "op" in
        match pd_step variant c !st k with
        | Some (st', o) -> st := st'; show_pdout o
        | None ->
          let why = match k with
            | PAlloc (_, None) -> "exhausted-with-" ^ nat_len !st.free ^ "-free"
            | PAlloc (_, Some ((ip, o), b)) ->
              (match prefix_to_index variant c (Pfx (Some (V6, ip), o, b)) with
               | None -> "outside-pool"
               | Some i ->
                 if index_to_prefix c i <> ip then "unaligned"
                 else (match lm_lookup (key_of_idx i) !st.leases with
                       | Some s -> "held-by-s" ^ decimal_of_n s
                       | None -> "not-free"))
            | _ -> "?" in
          raise (Stop ("INADMISSIBLE:" ^ why)))
    end
  | _ -> failwith "pd"

(* ---------------------------------------------------------------- registry *)
let key_of_tok t = match split_on '/' t with [a; b] -> (n_of_str a, n_of_str b) | _ -> failwith ("key " ^ t)
let tok_of_key (a, b) = decimal_of_n a ^ "/" ^ decimal_of_n b
let z_of_str s = let i = int_of_string s in if i = 0 then Z0 else if i > 0 then Zpos (pos_of_int i) else Zneg (pos_of_int (-i))
let pow2 k = let rec go k acc = if k = 0 then acc else go (k-1) (N.mul acc (n_of_int 2)) in go k (n_of_int 1)
let rec n_range (a : n) (b : n) : n list = if N.leb a b then a :: n_range (N.add a (n_of_int 1)) b else []

(* the glue from configuration strings to a pool geometry (what initV4Pools/initV6Pools compute with
   netaddr/netip before calling NewPoolAllocator) *)
let reg_cfg v6 (pgw : string) (net : string) (lo : string) (hi : string) (gw : string) (excl : (string * string) list)
  : pcfg option =
  if net = "bad" then None else
  let (nb, bits) = match split_on '/' net with [a; b] -> (addr_exn a, int_of_string b) | _ -> failwith "net" in
  let width = match fst nb with V4 -> 32 | V6 -> 128 in
  let m = pow2 (width - bits) in
  let first = N.mul (N.div (snd nb) m) m in
  let last = N.sub (N.add first m) (n_of_int 1) in
  let bound t dflt = if t = "-" then Some (fst nb, dflt) else if t = "junk" then None else Some (addr_exn t) in
  match bound lo (N.add first (n_of_int 1)), bound hi (N.sub last (n_of_int 1)) with
  | Some (f1, l), Some (_, h) ->
    let gwtok = if v6 then gw else if gw = "-" then pgw else gw in
    let gws = if gwtok = "-" || gwtok = "junk" then [] else [addr_exn gwtok] in
    let ex = if v6 then [] else
        List.concat_map (fun (a, b) ->
            if a = "junk" || b = "junk" then [] else
            if b = "-" then [addr_exn a] else
              let (fa, na) = addr_exn a and (fb, nb) = addr_exn b in
              if fa <> fb then [] else List.map (fun x -> (fa, x)) (n_range na nb)) excl in
    Some { p_fam = f1; p_lo = l; p_hi = h; p_excl = gws @ ex }
  | _ -> None

let show_rout = function
  | ROAddr (k, a) -> "a" ^ tok_of_key k ^ "=" ^ tok_of_addr a
  | ROExhausted -> "x" | ROOk -> "ok" | ROReserved -> "res"
  | RONum k -> "n" ^ decimal_of_n k
  | RONoPool -> "nopool"

let reg_case v6 toks impl =
  match toks with
  | np :: r ->
    let rec profiles k r acc = if k = 0 then (List.rev acc, r) else
        match r with
        | pf :: pgw :: nk :: r ->
          let rec pools j r acc = if j = 0 then (List.rev acc, r) else
              match r with
              | name :: prio :: vrf :: net :: lo :: hi :: gw :: ne :: r ->
                let (ex, r) = take (2 * int_of_string ne) r in
                let rec pairs = function a :: b :: t -> (a, b) :: pairs t | _ -> [] in
                let p = { rp_name = n_of_str name; rp_prio = z_of_str prio; rp_vrf = n_of_str vrf;
                          rp_cfg = reg_cfg v6 pgw net lo hi gw (pairs ex) } in
                pools (j-1) r (p :: acc)
              | _ -> failwith "pool spec" in
          let (ps, r) = pools (int_of_string nk) r [] in
          profiles (k-1) r ({ rf_name = n_of_str pf; rf_sorted = not v6; rf_pools = ps } :: acc)
        | _ -> failwith "profile spec" in
    let (pfs, r) = profiles (int_of_string np) r [] in
    let ops = match r with ";" :: o -> o | _ -> failwith "reg: no ;" in
    let st = ref (reg_init pfs) in
    let walk_obs it = match it with
      | Some t -> (match String.index_opt t '@' with
          | Some i -> let k = String.sub t (i+1) (String.length t - i - 1) in
            if k = "-" then None else (try Some (key_of_tok k) with _ -> raise (Stop "INADMISSIBLE:walk-unparseable"))
          | None -> raise (Stop "INADMISSIBLE:walk-unparseable"))
      | None -> raise (Stop "INADMISSIBLE:walk-unparseable") in
    let outs = run_ops ops impl (fun op it ->
        let arg = rest op in
        let q = split_on ',' arg in
        if op.[0] = 'O' then
          "o" ^ String.concat "" (List.map (fun k -> ":" ^ tok_of_key k) (pools_of !st (n_of_str arg)))
        else
        let (k, walk) = match op.[0], q with
          | 'A', [s; pf; ov; vrf] ->
            let obs = match it with
              | Some "x" -> None
              | Some t when String.length t > 1 && t.[0] = 'a' ->
                (try (match split_on '=' (rest t) with
                     | [k; a] -> Some (key_of_tok k, addr_exn a)
                     | _ -> raise Not_found) with _ -> raise (Stop "INADMISSIBLE:unparseable"))
              | _ -> raise (Stop "INADMISSIBLE:unparseable") in
            (RAlloc (n_of_str pf, n_of_str ov, n_of_str vrf, n_of_str s, obs), false)
          | 'L', [k; a] -> (RRelease (key_of_tok k, addr_of_tok a), false)
          | 'P', [s; k; a] ->
            let k = key_of_tok k in
            (match assoc_find key_eqb k !st.r_allocs with
             | Some _ -> (RReserveInPool (k, addr_of_tok a, n_of_str s, None), false)
             | None -> (RReserveInPool (k, addr_of_tok a, n_of_str s, walk_obs it), true))
          | 'R', [s; a] -> (RReserveIP (addr_of_tok a, n_of_str s, walk_obs it), true)
          | 'I', [a] -> (RReleaseIP (addr_of_tok a), false)
          | 'D', _ -> (RSetDir (arg = "1"), false)
          | 'V', [k] -> (RAvail (key_of_tok k), false)
          | _ -> failwith ("reg op " ^ op) in
        match reg_step variant !st k with
        | Some (st', o) ->
          st := st';
          if walk then show_rout o ^ "@" ^ (match k with
              | RReserveIP (_, _, Some w) | RReserveInPool (_, _, _, Some w) -> tok_of_key w
              | _ -> "-")
          else show_rout o
        | None ->
          let why = match k with
            | RAlloc (pf, ov, vrf, _, obs) ->
              (match alloc_target !st pf ov vrf, obs with
               | None, Some _ -> "no-pool-of-this-vrf-has-a-free-address"
               | Some t, None -> "exhausted-but-" ^ tok_of_key t ^ "-has-free"
               | Some t, Some (k', a) ->
                 if not (key_eqb t k') then "wrong-pool-expected-" ^ tok_of_key t
                 else (match assoc_find key_eqb t !st.r_allocs with
                     | Some (c, ps) -> why_not c ps (Some a)
                     | None -> "?")
               | None, None -> "?")
            | _ -> "walk-stopped-at-a-pool-that-does-not-contain-the-address" in
          raise (Stop ("INADMISSIBLE:" ^ why))) in
    let complete = List.length outs = List.length ops && not (List.exists (fun s -> String.length s > 11 && String.sub s 0 12 = "INADMISSIBLE") outs) in
    if not complete then outs else
      let ks = List.sort compare (List.map (fun (k, (_, ps)) -> (tok_of_key k, List.length ps.free)) !st.r_allocs) in
      outs @ ("|" :: List.map (fun (k, n) -> k ^ "=" ^ string_of_int n) ks)
  | _ -> failwith "reg"

let () =
  let cases = read_lines Sys.argv.(1) in
  let impls = if Array.length Sys.argv > 2 && Sys.argv.(2) <> "-" then read_lines Sys.argv.(2) else [] in
  let rec go cases impls =
    match cases with
    | [] -> ()
    | line :: cr ->
      let (il, ir) = match impls with x :: y -> (x, y) | [] -> ("", []) in
      let it = tokens il in
      let res =
        try
          (match tokens line with
           | "pool" :: r -> String.concat " " (pool_case r it)
           | "pd" :: r -> String.concat " " (pd_case r it)
           | "reg4" :: r -> String.concat " " (reg_case false r it)
           | "reg6" :: r -> String.concat " " (reg_case true r it)
           | _ -> "badline")
        with Failure m -> "MODEL-DRIVER-ERROR " ^ m | Not_found -> "MODEL-DRIVER-ERROR notfound"
           | Invalid_argument m -> "MODEL-DRIVER-ERROR " ^ m in
      print_endline res;
      go cr ir in
  go cases impls
