(* C04 driver.  argv[1] = cases, argv[2] = implementation output, argv[3] = variant (optional).
   Read from the implementation's output: the wall-clock second ("now=<unix>"), the cookies it issued (opaque
   bytes), the session ids it chose, its verdicts where the property leaves the answer open.  The extracted model
   decides admissibility (alloc_choice, ideal_validate, admissible_verdict2) and everything else exactly. *)

(* ---- helpers ---- *)
let ints_of_hex t = List.map int_of_n (bytes_of_hex t)
let ns_of_ints l = List.map n_of_int l
let z_of_int (i : int) : z = if i = 0 then Z0 else if i > 0 then Zpos (pos_of_int i) else Zneg (pos_of_int (- i))
let two32 = 4294967296
let wrap32 x = ((x mod two32) + two32) mod two32
let split c s = String.split_on_char c s
let mk_tuple mac sv cv : tuple = ((bytes_of_hex mac, n_of_int (int_of_string sv)), n_of_int (int_of_string cv))
let mutate (c : int list) (m : string) : int list =
  if m = "id" then c else
  let rest = String.sub m 1 (String.length m - 1) in
  match m.[0] with
  | 'x' -> (match split '.' rest with
            | [i; k] -> let i = int_of_string i and k = int_of_string k in
              List.mapi (fun j x -> if j = i then x lxor (k land 255) else x) c
            | _ -> c)
  | 't' -> let n = int_of_string rest in List.filteri (fun j _ -> j < n) c
  | 'a' -> c @ ints_of_hex rest
  | _ -> c
let impl_now (l : string) : int option =
  match tokens l with
  | t :: _ when String.length t > 4 && String.sub t 0 4 = "now=" -> int_of_string_opt (String.sub t 4 (String.length t - 4))
  | _ -> None

let variant = ref repaired
(* tokens of the implementation's line after "now=..." up to ";" *)
let impl_tokens (l : string) : string array =
  match tokens l with
  | _ :: r -> let rec upto = function [] -> [] | ";" :: _ -> [] | x :: t -> x :: upto t in Array.of_list (upto r)
  | [] -> [||]
(* the admissible verdict: echo the implementation's answer when the model allows it, else the model's *)
let adm_verdict (t : tuple) (m : bool) (impl : char option) : string =
  match impl with
  | Some ('0' | '1' as ch) -> let i = (ch = '1') in
    if admissible_verdict t m i then String.make 1 ch else (if m then "1" else "0")
  | _ -> if m then "1" else "0"
let ids_of (tok : string) (pfx : string) : int list =
  (* "conc:1+2+3" / "ovl:1+2/g2.2" -> [1;2;3] *)
  let n = String.length pfx in
  if String.length tok < n || String.sub tok 0 n <> pfx then [] else
  let body = String.sub tok n (String.length tok - n) in
  let body = match String.index_opt body '/' with Some i -> String.sub body 0 i | None -> body in
  List.filter_map int_of_string_opt (String.split_on_char '+' body)
let choice_of_tok (tok : string) : choice =
  match String.split_on_char ':' tok with
  | "pads" :: sid :: _ -> (match int_of_string_opt sid with Some k -> Chose (n_of_int k) | None -> Policy)
  | ["none"] -> Refused
  | _ -> Policy
let nth_choice (ids : int list) (i : int) : choice =
  match List.nth_opt ids i with Some k -> Chose (n_of_int k) | None -> Refused

(* ---- sq: a history on one CookieManager, as a black box.  The cookies are the implementation's (opaque bytes read
   from its output); the verdict expected for a presented byte string is the layout-free specification: accepted
   iff it is one of the issued cookies, presented by the tuple it was issued for, within its lifetime.  For tuples
   that are no Ethernet tuples, and for cookies dated in the future, the implementation may also reject. ---- *)
let do_sq toks now il =
  match toks with
  | ttl :: steps ->
    let ttl = ref (int_of_string ttl) and cur = ref now in
    let gens : int list list ref = ref [] and issued : issued_cookie list ref = ref [] in
    let itok = impl_tokens il in
    let outs = List.mapi (fun si st ->
      let itk = if si < Array.length itok then itok.(si) else "" in
      match split '/' st with
      | ["G"; m; sv; cv] ->
        let c = if String.length itk > 2 && String.sub itk 0 2 = "c:" then ints_of_hex (String.sub itk 2 (String.length itk - 2)) else [] in
        gens := !gens @ [c];
        issued := ((ns_of_ints c, mk_tuple m sv cv), n_of_int !cur) :: !issued;
        if c = [] then "c:EMPTY" else itk
      | ["V"; src; mut; m; sv; cv] ->
        let i = (try int_of_string (String.sub src 1 (String.length src - 1)) with _ -> -1) in
        let c = if src.[0] = 'z' then ints_of_hex (String.sub src 1 (String.length src - 1))
          else if i >= 0 && i < List.length !gens then List.nth !gens i else [] in
        let c = ns_of_ints (mutate c mut) in
        let t = mk_tuple m sv cv in
        let now_ns = z_of_int (!cur * 1000000000 + 500000000) in
        let mdl = ideal_validate !issued (z_of_int !ttl) now_ns c t in
        let may = future_dated !issued now_ns c in
        (match (if String.length itk = 1 then Some itk.[0] else None) with
         | Some ('0' | '1' as ch) ->
           if admissible_verdict2 may t mdl (ch = '1') then String.make 1 ch else (if mdl then "1" else "0")
         | _ -> if mdl then "1" else "0")
      | ["L"; n] -> ttl := int_of_string n; "-"
      | ["W"; k] -> cur := now + int_of_string k; "-"
      | ["N"] -> issued := []; "-"          (* another manager: nothing it is shown has been issued by it *)
      | _ -> "badstep") steps in
    String.concat " " (Printf.sprintf "now=%d" now :: outs)
  | _ -> "badline"

let do_tags toks =
  match toks with
  | [p] ->
    (match parse_tags (bytes_of_hex p) with
     | Ok tg -> Printf.sprintf "ok n=%d ck=%s hu=%s mp=%d" (int_of_n tg.t_nraw) (hex_of_bytes tg.t_cookie)
                  (hex_of_bytes tg.t_hostuniq) (int_of_n tg.t_maxpayload)
     | Err _ -> "err"
     | Panic -> "panic"
     | OutOfFuel -> "hang")
  | _ -> "badline"

(* ---- tb ---- *)
let strip pfx s = let n = String.length pfx in String.sub s n (String.length s - n)
let do_tb toks now il =
  match toks with
  | ttl :: g :: occ :: nx :: ";" :: ops ->
    let (lo, hi) = match split '-' (strip "G=" g) with [a; b] -> (int_of_string a, int_of_string b) | _ -> (1, 0) in
    (* the cookie manager is a black box: the cookies it handed out (opaque bytes, taken from the implementation's
       output), for which tuple and when; acceptance is decided by the layout-free specification *)
    let issued : issued_cookie list ref = ref [] in
    let cur_ttl = ref (int_of_string ttl) and cur_now = ref now in
    let pado_next = ref [] in
    let mk_env () = { e_gen = (fun _ -> !pado_next);
              e_val = (fun c t -> ideal_validate !issued (z_of_int (!cur_ttl * 1000000000))
                                    (z_of_int (!cur_now * 1000000000 + 500000000)) c t);
              e_grp = (fun ((_, sv), _) -> let s = int_of_n sv in lo <= s && s <= hi) } in
    let env = ref (mk_env ()) in
    let issue (c : int list) (t : tuple) = issued := ((ns_of_ints c, t), n_of_int !cur_now) :: !issued in
    let s = ref st0 in
    let dead = ref false in
    let nonbulk = ref [] in          (* (uid, sid, tuple) in creation order, reversed *)
    let do_step o = if !dead then None else
      match step !variant !env !s o with
      | Some (s', x) -> s := s'; Some x
      | None -> dead := true; None in
    (* bulk population *)
    let occ = strip "occ=" occ in
    if occ <> "-" then
      List.iter (fun r -> match split '-' r with
        | [a; b] -> for i = int_of_string a to int_of_string b do
            ignore (do_step (RESTORE (n_of_int i, ((ns_of_ints [2;0;0;0;(i lsr 8) land 255; i land 255], n_of_int 3000), N0), [])))
          done
        | _ -> ()) (split ',' occ);
    let nx = strip "next=" nx in
    if nx <> "-" then ignore (do_step (SETNEXT (n_of_int (int_of_string nx))));
    let last_pado = ref [] in
    let op_cookies = ref [] in       (* cookies the harness generated for the current op, in order *)
    let next_cookie () = match !op_cookies with c :: r -> op_cookies := r; c | [] -> [] in
    let cookie spec =
      match split ':' spec with
      | ["P"; m] -> mutate !last_pado m
      | ["g"; fm; fs; fc; m] -> let c = next_cookie () in issue c (mk_tuple fm fs fc); mutate c m
      | ["r"; hx] -> ints_of_hex hx
      | _ -> [] in
    let tag ty v = List.map int_of_n (add_tag (n_of_int ty) (ns_of_ints v)) in
    let tags spec = if spec = "-" then [] else
      List.concat_map (fun it ->
        let rest = String.sub it 1 (String.length it - 1) in
        match it.[0] with
        | 's' -> tag 0x0101 []
        | 'h' -> tag 0x0103 (ints_of_hex rest)
        | 'e' -> tag 0 []
        | 'm' -> tag 0x0120 (ints_of_hex rest)
        | 'r' -> ints_of_hex rest
        | 'n' -> tag 0x0101 (ints_of_hex rest)
        | 'a' -> tag 0x0102 (ints_of_hex rest)
        | 'y' -> tag 0x0110 (ints_of_hex rest)
        | 'v' -> tag 0x0105 (ints_of_hex rest)
        | 'c' -> tag 0x0104 (cookie rest)
        | _ -> []) (split ',' spec) in
    let conc_extra = ref 0 in
    let show o t = match o with
      | None -> "INADMISSIBLE"
      | Some ONone -> "none"
      | Some (OPado c) -> last_pado := List.map int_of_n c; "pado:" ^ hex_of_bytes c
      | Some (OPads (sid, uid)) ->
        (match t with Some t -> nonbulk := (int_of_n uid, int_of_n sid, t) :: !nonbulk | None -> ());
        Printf.sprintf "pads:%d:u%d" (int_of_n sid) (int_of_n uid)
      | Some (OPend (sid, uid)) -> Printf.sprintf "pend:%d:u%d" (int_of_n sid) (int_of_n uid)
      | Some (OTerm u) -> Printf.sprintf "term:u%d" (int_of_n u)
      | Some (OReach u) -> Printf.sprintf "reach:u%d" (int_of_n u)
      | Some (ORestored u) -> Printf.sprintf "restored:u%d" (int_of_n u)
      | Some (OSynced u) -> Printf.sprintf "synced:u%d" (int_of_n u) in
    let itok = impl_tokens il in
    let outs = List.mapi (fun oi tok ->
      let itk_full = if oi < Array.length itok then itok.(oi) else "" in
      let (itk, cks) = match String.index_opt itk_full '|' with
        | Some i -> (String.sub itk_full 0 i, String.sub itk_full (i + 1) (String.length itk_full - i - 1))
        | None -> (itk_full, "") in
      op_cookies := (if cks = "" then [] else List.map ints_of_hex (split ';' cks));
      let res = match split '/' tok with
      | "I" :: m :: sv :: cv :: _ ->
        let t = mk_tuple m sv cv in
        (match String.split_on_char ':' itk with
         | ["pado"; hx] -> pado_next := bytes_of_hex hx; issue (ints_of_hex hx) t
         | _ -> pado_next := []);
        show (do_step (PADI t)) None
      | ["R"; m; sv; cv; spec] -> let t = mk_tuple m sv cv in
        show (do_step (PADR (t, ns_of_ints (tags spec), choice_of_tok itk))) (Some t)
      | ["T"; m; sv; cv; sid] -> show (do_step (PADT (mk_tuple m sv cv, n_of_int (int_of_string sid)))) None
      | ["S"; m; sv; cv; sid; k] when String.length k > 5 && String.sub k 0 5 = "name:" ->
        show (do_step (SETATTR (mk_tuple m sv cv, n_of_int (int_of_string sid),
                                bytes_of_hex (String.sub k 5 (String.length k - 5))))) None
      | ["S"; m; sv; cv; sid; _] -> show (do_step (SESS (mk_tuple m sv cv, n_of_int (int_of_string sid)))) None
      | ["D"; sid] -> show (do_step (DEAD (n_of_int (int_of_string sid)))) None
      | ["K"; m; lst] ->
        let keys = List.map (fun q -> match split '.' q with
            | [a; b] -> session_key (mk_tuple m a b) | _ -> []) (split ',' lst) in
        let arr = Array.of_list keys in
        let cls = List.mapi (fun i k ->
            let rec first j = if j >= i then i else if arr.(j) = k then j else first (j + 1) in
            string_of_int (first 0)) keys in
        "kcls:" ^ String.concat "." cls
      | ["W"; k] -> cur_now := now + int_of_string k; "-"
      | ["L"; n] -> cur_ttl := int_of_string n; "-"
      | "X" :: sid :: m :: sv :: cv :: rest ->
        let t = mk_tuple m sv cv in
        let a = match rest with [u] -> bytes_of_hex u | _ -> [] in
        (match do_step (RESTORE (n_of_int (int_of_string sid), t, a)) with
         | Some (ORestored u) -> nonbulk := (int_of_n u, int_of_string sid, t) :: !nonbulk;
           Printf.sprintf "restored:u%d" (int_of_n u)
         | o -> show o None)
      | [("F" | "A") as kind; k] ->
        let k = abs (int_of_string k) in
        let objs = !nonbulk in            (* newest first *)
        if k < 1 || k > List.length objs then "nosess" else
        let (u, sid, t) = List.nth objs (k - 1) in
        let x = { s_uid = n_of_int u; s_sid = n_of_int sid; s_tup = t } in
        show (do_step (if kind = "F" then VPPFAIL x else AAAREJ x)) None
      | "H" :: sid :: m :: sv :: cv :: rest ->
        let t = mk_tuple m sv cv in
        let a = match rest with [u] -> bytes_of_hex u | _ -> [] in
        (match do_step (HASYNC (n_of_int (int_of_string sid), t, a)) with
         | Some (OSynced u) -> nonbulk := (int_of_n u, int_of_string sid, t) :: !nonbulk;
           Printf.sprintf "synced:u%d" (int_of_n u)
         | o -> show o None)
      | ["J"; sid; m; sv; cv; rm] ->
        let t = mk_tuple m sv cv and rt = mk_tuple rm sv cv in
        let r1 = match do_step (HASYNC (n_of_int (int_of_string sid), t, [])) with
          | Some (OSynced u) -> nonbulk := (int_of_n u, int_of_string sid, t) :: !nonbulk; Printf.sprintf "u%d" (int_of_n u)
          | _ -> "none" in
        let ck = next_cookie () in issue ck rt;
        let jc = match String.split_on_char ':' itk with
          | "join" :: _ :: sid2 :: _ -> (match int_of_string_opt sid2 with Some k -> Chose (n_of_int k) | None -> Refused)
          | _ -> Policy in
        let r2 = match do_step (PADR (rt, ns_of_ints (tag 0x0104 ck), jc)) with
          | Some (OPads (s2, u)) -> nonbulk := (int_of_n u, int_of_n s2, rt) :: !nonbulk; Printf.sprintf "%d:u%d" (int_of_n s2) (int_of_n u)
          | _ -> "none" in
        if !dead then "INADMISSIBLE" else "join:" ^ r1 ^ ":" ^ r2
      | ["P"; n; sv] ->
        let n = int_of_string n in
        let pids = ids_of itk "ovl:" in
        let uids = ref [] in
        for i = 0 to n - 1 do
          let mac = [10;0;0;0;(i lsr 8) land 255; i land 255] in
          let t : tuple = ((ns_of_ints mac, n_of_int (int_of_string sv)), N0) in
          let ck = next_cookie () in issue ck t;
          match do_step (PBEGIN (t, ns_of_ints (tag 0x0104 ck), (if itk = "" then Policy else nth_choice pids i))) with
          | Some (OPend (_, u)) -> uids := u :: !uids
          | _ -> ()
        done;
        let sids = ref [] in
        List.iter (fun u -> match do_step (PCOMMIT u) with
          | Some (OPads (sid, _)) -> sids := int_of_n sid :: !sids
          | _ -> ()) (List.rev !uids);
        if !dead then "INADMISSIBLE" else
        (* where the harness's gate was entered (with sidMu held or not) depends on the code layout, not on the
           property: it is recorded in the implementation's token for the evidence and echoed here *)
        (* /g<held>.<entries>: evidence only, echoed.  /p<state>: the reservation probe — while one handler waits to
           index, no other handler may be inside the allocator and sidMu must be held: REQUIRED to be "held" whenever
           some handler got an id (it then reaches the indexing step), "none" otherwise; anything else (free, timeout)
           is a mismatch *)
        let gate = match String.split_on_char '/' itk with
          | _ :: g :: _ when String.length g > 0 && g.[0] = 'g' -> "/" ^ g | _ -> "" in
        let probe = if List.length !uids >= 1 then "/pheld" else "/pnone" in
        "ovl:" ^ String.concat "+" (List.map string_of_int (List.sort compare !sids)) ^ gate ^ probe
      | ["C"; n; sv] ->
        let n = int_of_string n in
        let cids = ids_of itk "conc:" in
        let sids = ref [] in
        for i = 0 to n - 1 do
          let mac = [6;0;0;0;(i lsr 8) land 255; i land 255] in
          let t : tuple = ((ns_of_ints mac, n_of_int (int_of_string sv)), N0) in
          let ck = next_cookie () in issue ck t;
          match do_step (PADR (t, ns_of_ints (tag 0x0104 ck), (if itk = "" then Policy else nth_choice cids i))) with
          | Some (OPads (sid, _)) -> sids := int_of_n sid :: !sids; incr conc_extra
          | _ -> ()
        done;
        if !dead then "INADMISSIBLE" else
        "conc:" ^ String.concat "+" (List.map string_of_int (List.sort compare !sids))
      | _ -> "badop" in
      if cks = "" then res else res ^ "|" ^ cks) ops in
    let nb = List.rev !nonbulk in
    let flags = List.map (fun (u, sid, t) ->
      let a = match lookup_sid !s (n_of_int sid) with Some x when int_of_n x.s_uid = u -> 1 | _ -> 0 in
      let b = match lookup_tup !s t with Some x when int_of_n x.s_uid = u -> 1 | _ -> 0 in
      let d = match lookup_uidx !s (n_of_int u) with Some x when int_of_n x.s_uid = u -> 1 | _ -> 0 in
      let e = match get_attr !s (n_of_int u) with
        | Some k -> (match lookup_attr !s k with Some x when int_of_n x.s_uid = u -> 1 | _ -> 0)
        | None -> 0 in
      (u, sid, a, b, d, e)) nb in
    let ns = int_of_n (size_sid !s) and nt = int_of_n (size_tup !s) in
    let bs = ns - List.fold_left (fun acc (_, _, a, _, _, _) -> acc + a) 0 flags in
    let bt = nt - List.fold_left (fun acc (_, _, _, b, _, _) -> acc + b) 0 flags in
    String.concat " " ([Printf.sprintf "now=%d" now] @ outs @ [";"; Printf.sprintf "n=%d/%d bulk=%d/%d" ns nt bs bt]
                       @ List.map (fun (u, sid, a, b, d, e) -> Printf.sprintf "u%d:%d:%d%d%d%d" u sid a b d e) flags)
  | _ -> "badline"

let () =
  let lines = read_lines Sys.argv.(1) in
  let impl = if Array.length Sys.argv > 2 && Sys.argv.(2) <> "-" then read_lines Sys.argv.(2) else [] in
  if Array.length Sys.argv > 3 then
    variant := (match Sys.argv.(3) with
      | "defective" -> defective | "def_iso" -> defIso | "def_sid" -> defSid
      | "no_ha_check" -> noHACheck | "unreserved" -> unreserved | "reserve_only" -> reserveOnly | "guard_only" -> guardOnly | _ -> repaired);
  let impl = Array.of_list impl in
  List.iteri (fun i line ->
    let il = if i < Array.length impl then impl.(i) else "" in
    let out =
      try
        match tokens line with
        | [] -> ""
        | "tags" :: r -> do_tags r
        | "sq" :: r -> (match impl_now il with Some now -> do_sq r now il | None -> "noclock")
        | "tb" :: r -> (match impl_now il with Some now -> do_tb r now il | None -> "noclock")
        | _ -> "badline"
      with ex -> "driver-exception " ^ Printexc.to_string ex in
    print_endline out) lines
