(* C12 driver (composite ops ckrel:<i> = ck;rel and ck2:<i> = ck;ck issued back to back).  argv[1] = cases, argv[2] = implementation output (needed: allocator answers are observations),
   argv[3] = variant: repaired | d_async | d_reserve | defective.
   case:  <ipoe|pppoe> <n4> <n6> <kpd> op...      (PD pool has 2^kpd prefixes)
     new:<i>:<flags bac6|.>:<v4>:<v6>:<pd>:<lease4>:<age4|z>:<lease6>:<age6|z>     addr spec: - | a | s<k>
     ck:<i>  cks:<i>  rel:<i>  done:<ticket>  crash:<p|e>[:<failing session>]
   output: one segment per op joined by " | ", then the final dump (same format as the Go harness). *)
let z_of_int (i : int) : z = if i = 0 then Z0 else if i > 0 then Zpos (pos_of_int i) else Zneg (pos_of_int (-i))
let ni = n_of_int
let si x = string_of_int (int_of_n x)
let opt_s = function Some a -> si a | None -> "-"
let split_on (sep : string) (s : string) : string list = Str.split_delim (Str.regexp_string sep) s
let join_or_dash l = if l = [] then "-" else String.concat "," l
let tok_s = function
  | TA (i, sw) -> Printf.sprintf "A%s=%s" (si i) (si sw)
  | TAF i -> "AF" ^ si i | TU i -> "U" ^ si i | TV i -> "V" ^ si i
  | T4 (i, a) -> Printf.sprintf "4%s=%s" (si i) (si a)
  | T6 (i, a) -> Printf.sprintf "6%s=%s" (si i) (si a)
  | TP (i, a) -> Printf.sprintf "P%s=%s" (si i) (si a)
  | TR (i, c) -> Printf.sprintf "R%s:%s" (si i) (if int_of_n c = 0 then "osvbngd_restart" else "vpp_recovery")
  | TL i -> "L" ^ si i ^ ":released" | TDEL i -> "DEL" ^ si i | TSP i -> "sp" ^ si i | TSD i -> "sd" ^ si i
  | TSPF i -> "spF" ^ si i | TCKSERR -> "CKSERR" | TSDF i -> "sdF" ^ si i
  | TPROG -> "PROG" | TLA i -> "L" ^ si i ^ ":active" | T4Q sw -> "4?" ^ si sw
let log_s l = join_or_dash (List.map tok_s l)
let by_key l = List.sort (fun (a, _) (b, _) -> compare (int_of_n a) (int_of_n b)) l
let rec dedup_keys seen = function
  | [] -> []
  | (k, v) :: r -> if List.mem (int_of_n k) seen then dedup_keys seen r else (k, v) :: dedup_keys (int_of_n k :: seen) r
(* full protocol key (MAC / S-VLAN / C-VLAN) of session i: neighbours differ in exactly one component; same table as the harness *)
let ident_tbl = [| ("020000000010", 100, 10); ("020000000010", 100, 11); ("020000000010", 200, 10); ("020000000110", 100, 10);
                   ("02aa00000010", 100, 10); ("060000000010", 100, 10); ("020000000011", 100, 10); ("0200bbcc0010", 100, 0) |]
let ident_s i =
  let (m, sv, cv) = ident_tbl.(i mod 8) in
  let (sv, cv) = if i >= 8 then (200, cv + 100 * (i / 8)) else (sv, cv) in
  Printf.sprintf "%s/%d/%d" m sv cv
let sess_s proto (r : sess) =
  let fl = match proto with
    | IPoE -> (if r.s_bound then "b" else "") ^ (if r.s_rel4 then "r" else "") ^ (if r.s_appr then "a" else "") ^ (if r.s_crea then "c" else "")
              ^ (if r.s_v6b then "6" else "")
    | PPPoE -> (if r.s_bound then "b" else "") ^ (if int_of_n r.s_swif <> 0 then "c" else "") in
  let fl = if fl = "" then "." else fl in
  Printf.sprintf "%s:%s:%s:%s:%s:%s:%s:%s" (si r.s_id) (opt_s r.s_stamp) (si r.s_swif) fl
    (opt_s r.s_v4) (opt_s r.s_v6) (opt_s r.s_pd) (ident_s (int_of_n r.s_id))
let sessions_s proto l = join_or_dash (List.map (fun (_, r) -> sess_s proto r) (by_key (dedup_keys [] l)))
let dp_s l = join_or_dash (List.map (fun (k, e) ->
    Printf.sprintf "%s:%s:%s:%s:%s" (si k) (si e.d_swif) (opt_s e.d_v4) (opt_s e.d_v6) (opt_s e.d_pd)) (by_key (dedup_keys [] l)))
let free_s c s f =
  join_or_dash (List.map string_of_int (List.sort compare (List.map int_of_n (free_of c s (ni f)))))
let aspec_of s = if s = "-" then ANone else if s = "a" then AAlloc
  else AStatic (ni (int_of_string (String.sub s 1 (String.length s - 1))))
let obs_of s = match int_of_string_opt s with Some a when a >= 0 -> Some (ni a) | _ -> None
let has ch s = String.contains s ch
let () =
  let cases = read_lines Sys.argv.(1) in
  let impl = if Array.length Sys.argv > 2 && Sys.argv.(2) <> "-" then read_lines Sys.argv.(2) else [] in
  let variant = if Array.length Sys.argv > 3 then Sys.argv.(3) else "repaired" in
  let ordered = (variant = "repaired" || variant = "d_reserve" || variant = "d_delfail" || variant = "d_giveup") in
  let reserve = (variant = "repaired" || variant = "d_async" || variant = "d_delfail" || variant = "d_giveup") in
  let delretry = (variant = "repaired" || variant = "d_reserve" || variant = "d_async" || variant = "d_giveup") in
  let delforever = (variant = "repaired") in
  List.iteri (fun idx line ->
    let il = (try List.nth impl idx with _ -> "") in
    let segs = Array.of_list (split_on " | " il) in
    match tokens line with
    | p :: n4 :: n6 :: kpd :: ops when (p = "ipoe" || p = "pppoe") ->
      (try
        let proto = if p = "ipoe" then IPoE else PPPoE in
        let c = { c_proto = proto; c_ordered = ordered; c_reserve = reserve; c_delretry = delretry; c_delforever = delforever; c_n4 = ni (int_of_string n4);
                  c_n6 = ni (int_of_string n6); c_npd = ni (1 lsl (int_of_string kpd)) } in
        let s = ref init in
        let outs = ref [] in
        List.iteri (fun k optok ->
          let a = Array.of_list (String.split_on_char ':' optok) in
          let o = match a.(0) with
            | "new" ->
              let seg = if k < Array.length segs then tokens segs.(k) else [] in
              let (o4, o6, opd) = match seg with
                | ["new"; x; y; z] -> (obs_of x, obs_of y, obs_of z)
                | _ -> (None, None, None) in
              let tm s = if s = "z" then None else Some (z_of_int (- (int_of_string s))) in
              Some (New ({ n_id = ni (int_of_string a.(1)); n_bound = has 'b' a.(2); n_rel4 = has 'r' a.(2); n_appr = has 'a' a.(2);
                           n_crea = has 'c' a.(2); n_v6b = has '6' a.(2); n_a4 = aspec_of a.(3); n_a6 = aspec_of a.(4);
                           n_apd = aspec_of a.(5); n_l4 = ni (int_of_string a.(6)); n_b4 = tm a.(7);
                           n_l6 = ni (int_of_string a.(8)); n_b6 = tm a.(9) }, o4, o6, opd))
            | "ckrel" | "ck2" | "failrel" -> None
            | "ck" -> Some (Ck (ni (int_of_string a.(1))))
            | "cks" -> Some (Cks (ni (int_of_string a.(1))))
            | "rel" -> Some (Rel (ni (int_of_string a.(1))))
            | "done" ->
              let retried = k < Array.length segs && String.trim segs.(k) = "done retry" in
              Some (Done (ni (int_of_string a.(1)), retried))
            | "poison" -> Some (Poison (ni (int_of_string a.(1)), Array.length a > 2 && a.(2) = "a"))
            | "cksf" -> Some (CksF (ni (int_of_string a.(1))))
            | "relf" -> Some (RelF (ni (int_of_string a.(1))))
            | "delretry" -> Some (DelRetry (ni (int_of_string a.(1)), Array.length a > 2 && a.(2) = "ok"))
            | "giveup" -> Some (GiveUp (ni (int_of_string a.(1))))
            | "bind4" ->
              let seg = if k < Array.length segs then tokens segs.(k) else [] in
              let o = match seg with "bind4" :: x :: _ -> obs_of x | _ -> None in
              Some (Bind4 (ni (int_of_string a.(1)), ni (int_of_string a.(2)), o))
            | "flip" -> Some Flip
            | "relstop" ->
              Some (RelStop (ni (int_of_string a.(1)), (Array.length a > 3 && a.(3) = "d"), a.(2) = "p", None, Z0))
            | "crash" ->
              let fail = if Array.length a > 2 then Some (ni (int_of_string a.(2))) else None in
              Some (Crash (a.(1) = "p", fail, Z0))
            | _ -> None in
          match o with
          | None when a.(0) = "failrel" ->
            (* Poison t; Done t (given up); Rel i — only when ticket t is a pending Put of the live session i *)
            let t = ni (int_of_string a.(1)) and i = ni (int_of_string a.(2)) in
            let ok = (match aget t !s.pend with Some r -> int_of_n r.s_id = int_of_n i | None -> false)
                     && (aget i !s.live <> None) && effective c !s i t in
            if not ok then outs := "skip" :: !outs else
            (match step c !s (Poison (t, false)) with
             | Some (s1, _) ->
               (match step c s1 (Done (t, false)) with
                | Some (s2, _) ->
                  (match step c s2 (Rel i) with
                   | Some (s3, ORel lg) -> s := s3; outs := ("failrel " ^ log_s lg) :: !outs
                   | _ -> outs := "MODELBUG" :: !outs)
                | None -> outs := "MODELBUG" :: !outs)
             | None -> outs := "MODELBUG" :: !outs)
          | None when a.(0) = "ckrel" || a.(0) = "ck2" ->
            let i = ni (int_of_string a.(1)) in
            (match step c !s (Ck i) with
             | Some (s1, OCk (t, _)) ->
               let second = if a.(0) = "ckrel" then Rel i else Ck i in
               (match step c s1 second with
                | Some (s2, ORel lg) -> s := s2; outs := Printf.sprintf "ckrel %s %s" (si t) (log_s lg) :: !outs
                | Some (s2, OCk (_, lg)) -> s := s2; outs := Printf.sprintf "ck2 %s %s" (si t) (log_s lg) :: !outs
                | _ -> outs := "MODELBUG" :: !outs)
             | _ -> outs := "skip" :: !outs)
          | None -> outs := "badop" :: !outs
          | Some o ->
            (match step c !s o with
             | None -> outs := "INADMISSIBLE" :: !outs
             | Some (s', out) ->
               s := s';
               let txt = match out with
                 | ONew (a4, a6, apd, x4, x6, xpd) ->
                   let f a x = if x then "x" else opt_s a in
                   Printf.sprintf "new %s %s %s" (f a4 x4) (f a6 x6) (f apd xpd)
                 | OSkip -> if a.(0) = "poison" then "poison" else "skip"
                 | OCk (t, lg) -> Printf.sprintf "ck %s %s" (si t) (log_s lg)
                 | OCks (t, lg) -> Printf.sprintf "cks %s %s" (si t) (log_s lg)
                 | ORel lg -> "rel " ^ log_s lg
                 | ODone rt -> if a.(0) = "flip" then "flip" else if a.(0) = "poison" then "poison" else if rt then "done retry" else "done"
                 | ONote (n, lg) ->
                   (match a.(0), int_of_n n with
                    | "delretry", 0 -> "delretry none" | "delretry", 1 -> "delretry fail"
                    | "delretry", _ -> "delretry " ^ log_s lg
                    | "giveup", 0 -> "giveup none" | "giveup", 1 -> "giveup gaveup" | "giveup", _ -> "giveup retrying"
                    | _ -> "note")
                 | OBind (ad, t, lg) ->
                   Printf.sprintf "bind4 %s %s %s" (match ad with Some x -> si x | None -> "r") (si t) (log_s lg)
                 | OBindX -> "bind4 x"
                 | OCrash lg -> Printf.sprintf "crash %s start=ok live=%s store=%s" (log_s lg) (sessions_s proto s'.live)
                                  (sessions_s proto s'.store) in
               outs := txt :: !outs)) ops;
        let st = !s in
        let fin = Printf.sprintf "final live=%s store=%s dp=%s free4=%s free6=%s freepd=%s freeb=4" (sessions_s proto st.live)
            (sessions_s proto st.store) (dp_s st.dp) (free_s c st 0) (free_s c st 1) (free_s c st 2) in
        print_endline (String.concat " | " (List.rev (fin :: !outs)))
      with e -> print_endline ("modelerror " ^ Printexc.to_string e))
    | "ow" :: ops ->
      (* direct OrderedWriter cases: one single-key model instance per key *)
      (try
        let tbl : (string, owk) Hashtbl.t = Hashtbl.create 7 in
        let get k = try Hashtbl.find tbl k with Not_found -> ow_init in
        let keys = ref [] in
        let note k = if not (List.mem k !keys) then keys := k :: !keys in
        let log = ref [] and issues = ref [] in
        (* the implementation's reaction to each failed Store operation (r = repeated inside its slot) *)
        let errs_obs = ref (try
            let f = List.find (fun t -> String.length t > 5 && String.sub t 0 5 = "errs=") (tokens il) in
            let v = String.sub f 5 (String.length f - 5) in
            if v = "-" then [] else String.split_on_char ',' v
          with Not_found -> []) in
        let errs_out = ref [] in
        List.iter (fun o ->
          match String.split_on_char ':' o with
          | [("pa" | "ps") as kind; k; v] ->
            note k; let w = get k in
            issues := (kind, k, w.q_next) :: !issues;
            Hashtbl.replace tbl k (ow_step w (OIssue (WPut (ni (int_of_string v)))))
          | ["del"; k] ->
            note k; let w = get k in
            issues := ("del", k, w.q_next) :: !issues;
            Hashtbl.replace tbl k (ow_step w (OIssue WDel))
          | [("ok" | "err") as c; k] ->
            note k; let w = get k in
            let retried = if c = "err" && w.q_infl <> None then
                (match !errs_obs with x :: r -> errs_obs := r; errs_out := x :: !errs_out; x = "r"
                                    | [] -> errs_out := "f" :: !errs_out; false)
              else false in
            let w' = ow_step w (OComplete (c = "ok", retried)) in
            (if List.length w'.q_log > List.length w.q_log then
               match w'.q_log with
               | (_, WPut v) :: _ -> log := (k ^ ":P" ^ si v) :: !log
               | (_, WDel) :: _ -> log := (k ^ ":D") :: !log
               | [] -> ());
            Hashtbl.replace tbl k w'
          | _ -> ()) ops;
        let ks = List.sort compare !keys in
        let sv = List.map (fun k -> k ^ ":" ^ (match (get k).q_val with Some v -> si v | None -> "-")) ks in
        let inf = List.concat_map (fun k -> match (get k).q_infl with
            | Some (_, WPut v) -> [k ^ ":P" ^ si v] | Some (_, WDel) -> [k ^ ":D"] | None -> []) ks in
        let res = List.map (fun (kind, k, seq) ->
            let r = List.find_opt (fun (s, _) -> int_of_n s = int_of_n seq) (get k).q_res in
            match kind, r with
            | "pa", Some (_, false) -> "E" | "pa", _ -> "-"
            | _, Some (_, true) -> "ok" | _, Some (_, false) -> "err" | _, None -> "pend") (List.rev !issues) in
        let j l = if l = [] then "-" else String.concat "," l in
        Printf.printf "store=%s log=%s infl=%s res=%s errs=%s\n" (j sv) (j (List.rev !log)) (j inf) (j res)
          (j (List.rev !errs_out))
      with e -> print_endline ("modelerror " ^ Printexc.to_string e))
    | "race" :: _ ->
      (* two concurrent checkpoints of one session, images marshalled in the order old, new.  HEAD / repaired: the
         write slots are taken in marshalling order; d_ckrace (before the fix): in reverse order *)
      let evs = if variant = "d_ckrace"
        then [OIssue (WPut (ni 2)); OIssue (WPut (ni 1)); OComplete (true, false); OComplete (true, false)]
        else [OIssue (WPut (ni 1)); OIssue (WPut (ni 2)); OComplete (true, false); OComplete (true, false)] in
      let w = List.fold_left ow_step ow_init evs in
      print_endline (match w.q_val with Some v when int_of_n v = 2 -> "stale=no" | _ -> "stale=yes")
    | "sq" :: ops ->
      (* Store contract on the sqlite store; keys are single letters, values numbers *)
      (try
        let kn k = ni (Char.code k.[0]) in
        let st = ref sq_init and res = ref [] in
        List.iter (fun o ->
          let op = match String.split_on_char ':' o with
            | ["put"; k; v] -> Some (SPut (kn k, ni (int_of_string v)))
            | ["putr"; k; v] -> Some (SPutR (kn k, ni (int_of_string v)))
            | ["del"; k] -> Some (SDel (kn k)) | ["delr"; k] -> Some (SDelR (kn k))
            | ["clear"] -> Some SClear | ["lock"] -> Some SLock | ["unlock"] -> Some SUnlock
            | _ -> None in
          match op with
          | None -> ()
          | Some op ->
            let (s', r) = sq_step !st op in
            st := s';
            (match r with Some true -> res := "ok" :: !res | Some false -> res := "err" :: !res | None -> ())) ops;
        let kv = List.sort compare (List.map (fun (k, v) -> (String.make 1 (Char.chr (int_of_n k)), int_of_n v))
                                      (dedup_keys [] !st.sq_data)) in
        let j l = if l = [] then "-" else String.concat "," l in
        Printf.printf "res=%s store=%s count=%d\n" (j (List.rev !res))
          (j (List.map (fun (k, v) -> Printf.sprintf "%s:%d" k v) kv)) (List.length kv)
      with e -> print_endline ("modelerror " ^ Printexc.to_string e))
    | _ -> print_endline "badline") cases
