(* C11 driver: one case per input line, one result line per case (same text as harness/C11/zz_verif_c11_test.go).
   argv[1] cases, argv[2] impl output or "-" (unused), argv[3] variant: repaired | d_stale (= Model.head) *)
let flags_of_variant v =
  match v with
  | "repaired" -> repaired
  | "d_head" | "head" -> head                      (* /repo HEAD: the open findings (stale redelivery, lagging bulk) *)
  | "d_stale" -> { repaired with f_stale = true }   (* HEAD once the lagging-standby finding is fixed *)
  | "defective" -> defective                        (* /repo before the C11 fixes; not used by the check *)
  | _ -> failwith ("unknown variant " ^ v)
let variant_name = ref "repaired"

let z_of_decimal s = match n_of_decimal s with N0 -> Z0 | Npos p -> Zpos p
let two64_n = n_of_decimal "18446744073709551616"
let u64_of_decimal s = N.modulo (n_of_decimal s) two64_n
let zu64 s = match u64_of_decimal s with N0 -> Z0 | Npos p -> Zpos p

let rec bits_of_pos p = match p with XH -> [1] | XO q -> 0 :: bits_of_pos q | XI q -> 1 :: bits_of_pos q
let hex_of_n width x =
  let bits = match x with N0 -> [] | Npos p -> bits_of_pos p in
  let arr = Array.make (width * 4) 0 in
  List.iteri (fun i b -> if i < width * 4 then arr.(i) <- b) bits;
  String.init width (fun k ->
      let j = (width - 1 - k) * 4 in
      "0123456789abcdef".[arr.(j) + 2 * arr.(j+1) + 4 * arr.(j+2) + 8 * arr.(j+3)])
let si x = string_of_int (int_of_n x)
let opt_hex w = function None -> "-" | Some a -> hex_of_n w a
let opt_si = function None -> "-" | Some a -> si a

let dummy_session sid srg = { s_kind = KL2GW; s_sid = sid; s_srg = srg; s_mac = N0; s_ov = N0; s_iv = N0; s_user = N0;
  s_v4 = None; s_v4pool = N0; s_v6 = None; s_napool = N0; s_pd = None; s_pdpool = N0; s_vrf = N0; s_circ = None;
  s_rem = None; s_ppp = N0; s_misc = N0 }

let show_range r =
  match r with
  | Ok [] -> "nil"
  | Ok l -> String.concat "," (List.map (function None -> "x" | Some q -> decimal_of_n q.q_seq) l)
  | _ -> "panic"
let show_seq = function Ok v -> decimal_of_n v | _ -> "panic"

let run_rng fl toks =
  match toks with
  | _cls :: cap :: nseg :: rest ->
    let b = ref (new_ring (let c = int_of_string cap in if c <= 0 then Z0 else Zpos (pos_of_int c))) in
    let rest = ref rest in
    for _ = 1 to int_of_string nseg do
      (match !rest with
       | seg :: r ->
         rest := r;
         (match String.split_on_char '+' seg with
          | [first; n] ->
            let s = ref (u64_of_decimal first) in
            for _ = 1 to int_of_string n do
              b := push !b { q_srg = N0; q_seq = !s; q_act = AUpdate; q_cp = s2c (dummy_session N0 N0) };
              s := N.modulo (N.add !s (Npos XH)) two64_n
            done
          | _ -> failwith "bad seg")
       | [] -> failwith "short")
    done;
    let qs = match !rest with _ :: q -> q | [] -> [] in
    let qs = List.filter (fun t -> not (String.length t > 1 && t.[0] = 'A')) qs in
    let rec pairs = function a :: c :: t -> (a, c) :: pairs t | _ -> [] in
    let head = Printf.sprintf "size=%d old=%s new=%s" (int_of_nat !b.r_size) (show_seq (oldest_seq !b)) (show_seq (newest_seq !b)) in
    String.concat " ; " (head :: List.map (fun (f, t) -> show_range (range fl !b (zu64 f) (zu64 t))) (pairs qs))
  | _ -> "badline"

let run_conc fl toks =
  match toks with
  | _cls :: cap :: ops ->
    let c = int_of_string cap in
    let zc = if c <= 0 then Z0 else Zpos (pos_of_int c) in
    let parse t = match String.split_on_char ':' t with
      | ["H"; i; sid] | ["G"; i; sid] -> [SStart (n_of_decimal i, dummy_session (n_of_decimal sid) (n_of_int 1), false)]
      | ["F"; i] -> [SFinish (n_of_decimal i)]
      | ["A"; b] -> [SSetActive (b = "1")]
      | ["E"; sid] -> [SStart (N0, dummy_session (n_of_decimal sid) (n_of_int 1), false); SFinish N0]
      | _ -> failwith ("bad op " ^ t) in
    let st = ss_run fl (n_of_int 1) zc (List.concat (List.map parse ops)) in
    let seqs_of l = List.map (function None -> None | Some q -> Some q.q_seq) l in
    let ring = seqs_of (ring_list st.ss_ring) in
    let retained = List.filter_map (fun x -> x) ring in
    let stream = List.map (fun q -> q.q_seq) st.ss_chan in
    let show l = if l = [] then "-" else String.concat "," (List.map decimal_of_n l) in
    let rec consec = function a :: (b :: _ as r) -> N.eqb b (N.add a (Npos XH)) && consec r | _ -> true in
    let n = List.length stream in
    let exact = ref true in
    let answers = ref [] in
    for from = 0 to n + 1 do
      for to_ = 0 to n + 1 do
        let zf = if from = 0 then Z0 else Zpos (pos_of_int from) and zt = if to_ = 0 then Z0 else Zpos (pos_of_int to_) in
        let got = show_range (range fl st.ss_ring zf zt) in
        answers := got :: !answers;
        let want = List.sort compare (List.filter (fun s -> from <= s && s <= to_) (List.map int_of_n retained)) in
        let ws = if want = [] then "nil" else String.concat "," (List.map string_of_int want) in
        if got <> ws then exact := false
      done
    done;
    let okbad b = if b then "ok" else "bad" in
    Printf.sprintf "seq=%s ring=%s stream=%s answers=%s ringconsec=%s streamorder=%s rangeexact=%s" (decimal_of_n st.ss_seq)
      (if ring = [] then "-" else String.concat "," (List.map (function None -> "x" | Some s -> decimal_of_n s) ring))
      (show stream) (String.concat "|" (List.rev !answers)) (okbad (consec retained)) (okbad (consec stream)) (okbad !exact)
  | _ -> "badline"

(* storm: workers*rounds handlers, released together round by round.  C11_sender_atomic_exact: every interleaving gives a
   consecutive stream, the ring is the stream pushed in order and Range is exact — the model runs one interleaving (the
   sequential one) and prints the monitors the theorem pins down for all of them *)
let run_storm fl toks =
  match toks with
  | _cls :: cap :: workers :: rounds :: _ ->
    let c = int_of_string cap in
    let zc = if c <= 0 then Z0 else Zpos (pos_of_int c) in
    let n = int_of_string workers * int_of_string rounds in
    let ops = List.concat (List.init n (fun i -> [SStart (N0, dummy_session (n_of_int (i + 1)) (n_of_int 1), false); SFinish N0])) in
    let st = ss_run fl (n_of_int 1) zc ops in
    let retained = List.filter_map (function None -> None | Some q -> Some q.q_seq) (ring_list st.ss_ring) in
    let stream = List.map (fun q -> q.q_seq) st.ss_chan in
    let rec consec = function a :: (b :: _ as r) -> N.eqb b (N.add a (Npos XH)) && consec r | _ -> true in
    let exact = match retained with
      | [] -> true
      | lo :: _ ->
        let hi = List.nth retained (List.length retained - 1) in
        let z x = match x with N0 -> Z0 | Npos p -> Zpos p in
        show_range (range fl st.ss_ring (z lo) (z hi)) = String.concat "," (List.map decimal_of_n retained) in
    let okbad b = if b then "ok" else "bad" in
    Printf.sprintf "seq=%s ringconsec=%s streamorder=%s rangeexact=%s" (decimal_of_n st.ss_seq) (okbad (consec retained))
      (okbad (consec stream)) (okbad exact)
  | _ -> "badline"

let opt_n t = if t = "-" then None else Some (n_of_decimal t)

let parse_session tok =
  match String.split_on_char ':' tok with
  | [_; k; sid; srg; rel; mac; ov; iv; user; v4; v4p; v6; nap; pd; pdl; pdp; vrf; circ; rem; ppp; misc] ->
    let s = { s_kind = (match k with "I" -> KIPoE | "P" -> KPPP | _ -> KL2GW);
              s_sid = n_of_decimal sid; s_srg = n_of_decimal srg; s_mac = n_of_decimal mac; s_ov = n_of_decimal ov;
              s_iv = n_of_decimal iv; s_user = n_of_decimal user; s_v4 = opt_n v4; s_v4pool = n_of_decimal v4p;
              s_v6 = opt_n v6; s_napool = n_of_decimal nap;
              s_pd = (if pd = "-" then None else Some (n_of_decimal pd, n_of_decimal pdl));
              s_pdpool = n_of_decimal pdp; s_vrf = n_of_decimal vrf; s_circ = opt_n circ; s_rem = opt_n rem;
              s_ppp = n_of_decimal ppp; s_misc = n_of_decimal misc } in
    (s, rel = "1")
  | _ -> failwith ("bad session token " ^ tok)

let show_cp ((ns, sid), c) =
  let (pd, pdl) = match c.c_pd with None -> ("-", "0") | Some (a, l) -> (hex_of_n 32 a, si l) in
  Printf.sprintf "%s/%s:%s,%s,%s,%s,%s,%s,%s,%s,%s/%s,%s,%s,%s,%s,%s,%s,%s,%s" (si ns) (si sid) (si c.c_at) (si c.c_srg)
    (hex_of_n 12 c.c_mac) (si c.c_ov) (si c.c_iv) (si c.c_user) (opt_hex 8 c.c_v4) (opt_hex 32 c.c_v6) pd pdl
    (si c.c_v4pool) (si c.c_napool) (si c.c_pdpool) (si c.c_vrf) (opt_si c.c_circ) (opt_si c.c_rem) (si c.c_ppp)
    (decimal_of_n c.c_misc)

let show_lease reg (((fam, pool), key), sid) =
  let f = int_of_n fam in
  let a = if f = 4 then hex_of_n 8 key else if f = 6 then hex_of_n 32 key else
      match aget N.eqb pool reg.g_pd with Some d -> hex_of_n 32 (index_to_prefix d key) | None -> "?" in
  ((f, int_of_n pool, a), Printf.sprintf "%d/%d/%s=%s" f (int_of_n pool) a (si sid))

let sorted_strings l = List.map snd (List.sort (fun (a, _) (b, _) -> compare a b) l)

let run_hist fl toks =
  match toks with
  | _mode :: cap :: page :: rest ->
    let is_pool t = t.[0] >= '0' && t.[0] <= '9' in
    let pools = List.filter is_pool rest and ops = List.filter (fun t -> not (is_pool t)) rest in
    let v4 = ref [] and na = ref [] and pd = ref [] in
    List.iter (fun t ->
        match String.split_on_char ':' t with
        | [fam; name; a; b; c] ->
          let name = n_of_decimal name and a = n_of_decimal a and b = n_of_decimal b and c = n_of_decimal c in
          (match fam with
           | "4" -> v4 := !v4 @ [(name, mk_pool a b (if c = N0 then [] else [c]))]
           | "6" -> na := !na @ [(name, mk_pool a b (if c = N0 then [] else [c]))]
           | _ -> pd := !pd @ [(name, mk_pd a b c)])
        | _ -> failwith "bad pool") pools;
    let reg = { g_v4 = !v4; g_na = !na; g_pd = !pd } in
    let c = int_of_string cap in
    let y0 = sys_init (if c <= 0 then Z0 else Zpos (pos_of_int c)) [n_of_int 1; n_of_int 2] reg in
    let parse_op t =
      match String.split_on_char ':' t with
      | "E" :: _ -> let (s, rel) = parse_session t in OEvent (s, rel)
      | "M" :: ok :: ev -> let (s, _) = parse_session (String.concat ":" ("E" :: ev)) in OMutation (s, ok = "1")
      | ["D"; g] -> ODeliver (n_of_decimal g)
      | ["R"; g; s] -> ORedeliver (n_of_decimal g, u64_of_decimal s)
      | ["DF"; g] -> ODeliverF (n_of_decimal g)
      | ["RF"; g; s] -> ORedeliverF (n_of_decimal g, u64_of_decimal s)
      | ["P"; g; f; t] -> OReplay (n_of_decimal g, zu64 f, zu64 t)
      | ["B"; g] -> OBulk (n_of_decimal g)
      | "C" :: g :: k :: ev ->
        let (s, rel) = parse_session (String.concat ":" ("E" :: ev)) in
        let ps = int_of_string page in
        OBulkChurn (n_of_decimal g, nat_of_int (int_of_string k), nat_of_int (if ps <= 0 then 1000 else ps), s, rel)
      | _ -> failwith ("bad op " ^ t) in
    let y = sys_run fl y0 (List.map parse_op ops) in
    let sn g = match aget N.eqb (n_of_int g) y.y_sender with
      | Some (seq, b) -> (decimal_of_n seq, Printf.sprintf "%s/%s/%d" (show_seq (oldest_seq b)) (show_seq (newest_seq b)) (int_of_nat b.r_size))
      | None -> ("0", "0/0/0") in
    let (s1, r1) = sn 1 and (s2, r2) = sn 2 in
    let head = Printf.sprintf "seq=%s,%s last=%s,%s ring=%s,%s panics=%d" s1 s2
        (decimal_of_n (last_of y.y_recv (n_of_int 1))) (decimal_of_n (last_of y.y_recv (n_of_int 2))) r1 r2 (int_of_nat y.y_panics) in
    let keyed l = sorted_strings (List.map (fun ((ns, sid), c) -> ((int_of_n ns, int_of_n sid), show_cp ((ns, sid), c))) l) in
    let st = keyed y.y_recv.rc_store in
    let g = y.y_recv.rc_reg in
    let ls = sorted_strings (List.map (show_lease g) (leases_of g)) in
    let av =
      sorted_strings
        (List.map (fun (n, p) -> ((4, int_of_n n), Printf.sprintf "4/%d/=%d" (int_of_n n) (List.length p.p_al.a_free))) g.g_v4
         @ List.map (fun (n, p) -> ((6, int_of_n n), Printf.sprintf "6/%d/=%d" (int_of_n n) (List.length p.p_al.a_free))) g.g_na
         @ List.map (fun (n, p) -> ((7, int_of_n n), Printf.sprintf "7/%d/=%d" (int_of_n n) (List.length p.d_al.a_free))) g.g_pd) in
    let last3 w x = let h = hex_of_n w x in String.sub h (String.length h - 6) 6 in
    let fr =
      sorted_strings
        (List.map (fun (n, p) -> ((4, int_of_n n), Printf.sprintf "4/%d/=%s" (int_of_n n) (String.concat "," (List.sort compare (List.map (last3 8) p.p_al.a_free))))) g.g_v4
         @ List.map (fun (n, p) -> ((6, int_of_n n), Printf.sprintf "6/%d/=%s" (int_of_n n) (String.concat "," (List.sort compare (List.map (last3 32) p.p_al.a_free))))) g.g_na
         @ List.map (fun (n, d) -> ((7, int_of_n n), Printf.sprintf "7/%d/=%s" (int_of_n n)
                                      (String.concat "," (List.sort compare (List.map (fun i -> let h = hex_of_n 32 (index_to_prefix d i) in String.sub h 10 6) d.d_al.a_free))))) g.g_pd) in
    let exp_st = keyed (expected_store y.y_live) in
    let exp_ls = sorted_strings (List.map (show_lease g) (expected_leases g y.y_live)) in
    String.concat " " [ head; "store=[" ^ String.concat ";" st ^ "]"; "leases=[" ^ String.concat ";" ls ^ "]";
                        "avail=[" ^ String.concat ";" av ^ "]"; "free=[" ^ String.concat ";" fr ^ "]";
                        (* the repaired variant states the property's verdict: once every message of both SRGs has been
                           delivered (or covered by a bulk sync) store and pools MUST be right; if the repaired model
                           itself got it wrong the line says so and cannot match the implementation silently *)
                        (let complete = List.for_all (fun g -> int_of_nat (next_of y (n_of_int g)) = List.length (sent_of (n_of_int g) y.y_sent)) [1; 2]
                                        && int_of_nat y.y_panics = 0 in
                         let verdict ok = if ok then "ok" else if !variant_name = "repaired" && complete then "MODEL-DOES-NOT-CONVERGE" else "bad" in
                         "fields=ok conv=" ^ verdict (exp_st = st) ^ " pools=" ^ verdict (exp_ls = ls)) ]
  | _ -> "badline"

let () =
  let lines = read_lines Sys.argv.(1) in
  let vn = if Array.length Sys.argv > 3 then Sys.argv.(3) else "repaired" in
  variant_name := vn;
  let fl = flags_of_variant vn in
  List.iter (fun line ->
      match tokens line with
      | [] -> ()
      | "rng" :: t -> print_endline (try run_rng fl t with e -> "modelerror " ^ Printexc.to_string e)
      | "hist" :: t -> print_endline (try run_hist fl t with e -> "modelerror " ^ Printexc.to_string e)
      | "conc" :: t -> print_endline (try run_conc fl t with e -> "modelerror " ^ Printexc.to_string e)
      | "storm" :: t -> print_endline (try run_storm fl t with e -> "modelerror " ^ Printexc.to_string e)
      | _ -> print_endline "badline") lines
