(* C15 driver.  argv[1] = cases, argv[2] = implementation output ("-" if none), argv[3] = variant.
   Case format: see harness/C15/zz_verif_c15_test.go.  One output line per case line, same projection as the harness.
   Allocation answers are taken from the implementation's line (which free block is not part of the contract) and
   checked for admissibility by the model ([alloc_obs]); everything else is computed by the model alone. *)
let ni = n_of_int
let si x = string_of_int (int_of_n x)
let split_on s sep = Str.split_delim (Str.regexp_string sep) s

(* Q in a "def:" name: the restore-window queue drops releases past its bound *)
let vq = ref true
let variant_of = function
  | "repaired" | "" -> repaired
  | "defective" -> defective
  | s ->
    (* "def:RADS" = the listed defects present: R restore unvalidated, A reverse Add appends, D duplicate
       addresses, S synced-activation rollback leaves reverse entries *)
    let has c = String.length s > 4 && String.contains (String.sub s 4 (String.length s - 4)) c in
    (* V: the component keys the pool by (0, inside address); X: Config.Validate accepts pools sharing addresses *)
    { v_validate = not (has 'R'); v_replace = not (has 'A'); v_dedup = not (has 'D'); v_rollback = not (has 'S');
      v_vrfkey = not (has 'V'); v_xpool = not (has 'X'); v_late = not (has 'L');
      (* C: Validate accepts a reversed range / block size 0; G: release ignores a mapping preserved by the degraded restore *)
      v_cfgcheck = not (has 'C'); v_degrel = not (has 'G') }

let hex_of_n (x : n) : string =
  match x with
  | N0 -> "0"
  | Npos p ->
    let rec bits p acc = match p with XH -> 1 :: acc | XO q -> bits q (0 :: acc) | XI q -> bits q (1 :: acc) in
    let bl = bits p [] in (* most significant first *)
    let pad = (4 - (List.length bl mod 4)) mod 4 in
    let bl = List.init pad (fun _ -> 0) @ bl in
    let rec go l acc = match l with
      | a :: b :: c :: d :: r -> go r (acc ^ Printf.sprintf "%x" (a * 8 + b * 4 + c * 2 + d))
      | _ -> acc in
    go bl ""

let parse_cfg (toks : string list) : rawcfg =
  let bs = ref 0 and ratio = ref 0 and range = ref None and mx = ref 0 and pooling = ref 0
  and out = ref [] and excl = ref [] in
  List.iter (fun t ->
    match split_on t "=" with
    | ["bs"; v] -> bs := int_of_string v
    | ["ratio"; v] -> ratio := int_of_string v
    | ["range"; "def"] -> range := None
    | ["range"; v] -> (match split_on v "-" with [a; b] -> range := Some (ni (int_of_string a), ni (int_of_string b)) | _ -> failwith "range")
    | ["max"; v] -> mx := int_of_string v
    | ["pooling"; v] -> pooling := int_of_string v
    | ["out"; v] ->
      out := List.map (fun o -> match split_on o "/" with
          | [ip] -> OIp (ni (int_of_string ip))
          | [ip; l] -> OCidr (ni (int_of_string ip), ni (int_of_string l))
          | _ -> failwith "out") (split_on v ",")
    | ["excl"; "-"] -> excl := []
    | ["excl"; v] -> excl := List.map (fun o -> ni (int_of_string o)) (split_on v ",")
    | _ -> failwith ("cfg token " ^ t)) toks;
  { r_bs = ni !bs; r_ratio = ni !ratio; r_range = !range; r_max = ni !mx; r_pooling = ni !pooling;
    r_outside = !out; r_excluded = !excl }

let show_block b = Printf.sprintf "%s %s %s" (si b.b_ip) (si b.b_start) (si b.b_end)
let show_err = function ELimit -> "err limit" | ENoFree -> "err nofree" | EAllocFail -> "err allocfail"

(* the block the implementation reported for an allocation, if its output has the expected shape *)
let obs_of_impl (s : string) : block option =
  match tokens s with
  | ["ok"; _; ip; a; b] | ["dp"; ip; a; b] ->
    (try Some { b_ip = ni (int_of_string ip); b_start = ni (int_of_string a); b_end = ni (int_of_string b) }
     with _ -> None)
  | _ -> None

let dump (c : cfg) (p : pool) : string =
  let subs = List.sort (fun (a, _) (b, _) -> compare (int_of_n a) (int_of_n b)) p.p_subs in
  let subs = List.map (fun (k, bl) ->
      si k ^ ":" ^ String.concat "," (List.map (fun b -> Printf.sprintf "%s/%s-%s" (si b.b_ip) (si b.b_start) (si b.b_end)) bl)) subs in
  let subs = if subs = [] then ["-"] else subs in
  let bits = List.map (fun a ->
      (* trailing zero words dropped (the harness does the same): only the set of taken indices is compared *)
      let rec trim = function [] -> [] | w :: r -> (match trim r with [] -> if w = N0 then [] else [w] | t -> w :: t) in
      let ws = (match trim a.a_bits with [] -> ["0"] | l -> List.map hex_of_n l) in
      si a.a_ip ^ (if a.a_excl then "x" else "") ^ ":" ^ String.concat "." ws) p.p_addrs in
  let bits = if bits = [] then ["-"] else bits in
  let (((((ta, al), fr), tb), ex), sc) = stats p in
  let flags = (if mon_disjoint p then [] else ["OVERLAP"]) @ (if mon_range c p then [] else ["RANGE"])
              @ (if mon_limit c p then [] else ["LIMIT"]) @ (if mon_paired c p then [] else ["SPAN"]) in
  let flags = if flags = [] then ["none"] else flags in
  Printf.sprintf "subs=%s bits=%s stats=%s/%s/%s/%s/%s/%s flags=%s" (String.concat ";" subs) (String.concat "," bits)
    (si ta) (si al) (si fr) (si tb) (si ex) (si sc) (String.concat "," flags)

let rec uniq = function [] -> [] | x :: r -> x :: uniq (List.filter (fun y -> y <> x) r)

let sweep (s : comp) (lo : int) (hi : int) : string =
  let ips = uniq (List.map (fun a -> int_of_n a.a_ip) s.cp_pool.p_addrs) @ [1] in
  let runs = ref [] and bad = ref "" in
  List.iter (fun ip ->
    let cur = ref "" and cur_lo = ref 0 in
    let flush p = if !cur <> "" then runs := Printf.sprintf "%d:%d-%d=%s" ip !cur_lo (p - 1) !cur :: !runs in
    for p = lo to hi do
      let r = match rev_lookup s.cp_rev (ni ip) (ni p) with
        | Some m -> Printf.sprintf "%s/%s-%s" (si m.m_sub) (si m.m_blk.b_start) (si m.m_blk.b_end)
        | None -> "" in
      if not (mon_trace s (ni ip) (ni p)) && !bad = "" then bad := Printf.sprintf "BAD@%d:%d" ip p;
      if r <> !cur then (flush p; cur := r; cur_lo := p)
    done;
    flush (hi + 1)) ips;
  let runs = if !runs = [] then ["-"] else List.rev !runs in
  "sw " ^ String.concat "," runs ^ " trace=" ^ (if !bad = "" then "ok" else !bad)

let blk ip a b = { b_ip = ni (int_of_string ip); b_start = ni (int_of_string a); b_end = ni (int_of_string b) }
let nn s = ni (int_of_string s)

let show_out_pool = function
  | RBlock (true, b) -> "ok new " ^ show_block b
  | RBlock (false, b) -> "ok old " ^ show_block b
  | RErr e -> show_err e
  | RInadmissible b -> "INADMISSIBLE " ^ show_block b
  | ROk -> "ok"
  | RRestoreErr -> "err"
let show_out_dp = function
  | RBlock (true, b) -> "dp " ^ show_block b
  | RInadmissible b -> "INADMISSIBLE " ^ show_block b
  | _ -> "nodp"


(* two pools on one PoolManager *)
let run_mp (v : variant) (head : string) (ops : string list) (impl : string option) : string =
  match split_on head " || " with
  | [h1; h2] ->
    let r1 = parse_cfg (List.tl (tokens h1)) and r2 = parse_cfg (tokens h2) in
    let impl_outs = match impl with Some l -> Array.of_list (split_on l " ; ") | None -> [||] in
    let obs i = if i < Array.length impl_outs then obs_of_impl impl_outs.(i) else None in
    let outs = ref [] in
    let emit s = outs := s :: !outs in
    let st = ref None and stop = ref false in
    let pools () = match !st with
      | Some ps -> ps
      | None -> (match configure_all v [r1; r2] with Some ps -> st := Some ps; ps | None -> raise Exit) in
    List.iteri (fun i tok ->
      if not !stop then
      try
      match split_on tok ":" with
      | ["v"] ->
        if (v.v_xpool && not (pools_valid [r1; r2])) || (v.v_cfgcheck && not (pool_ok r1 && pool_ok r2))
        then (emit "invalid"; stop := true) else emit "valid"
      | ["d"] ->
        let ps = pools () in
        let (c1, p1) = List.nth ps 0 and (c2, p2) = List.nth ps 1 in
        emit (Printf.sprintf "P1{%s} P2{%s} flags=%s" (dump c1 p1) (dump c2 p2)
                (if mon_xdisjoint ps then "none" else "XOVERLAP"))
      | opn :: pi :: rest ->
        let ps = pools () in
        let idx = int_of_string pi - 1 in
        let (c, p) = List.nth ps idx in
        let o = (match opn, rest with
          | "a", [k] -> Some (OAlloc (nn k, obs i))
          | "g", [k] -> Some (OGoa (nn k, obs i))
          | "r", [k] -> Some (ORelease (nn k))
          | "R", [k; ip; a; b] -> Some (ORestore (nn k, blk ip a b))
          | "I", [k; ip; a; b] -> Some (ORestoreIfAbsent (nn k, blk ip a b))
          | _ -> None) in
        (match o with
         | None -> emit "badop"
         | Some o ->
           let (_, out) = step v c p o in
           st := Some (mstep v ps (nat_of_int idx, o));
           emit (show_out_pool out))
      | _ -> emit "badop"
      with Exit -> (emit "panic runtime_error:_integer_divide_by_zero"; stop := true)) ops;
    if !outs = [] then "empty" else String.concat " ; " (List.rev !outs)
  | _ -> "badline"

let run_case (v : variant) (line : string) (impl : string option) : string =
  match split_on line " | " with
  | [] -> "badline"
  | head :: rest ->
    let ops = match rest with [o] -> tokens o | _ -> [] in
    (match tokens head with
     | [] -> "badline"
     | "mp" :: _ -> run_mp v head ops impl
     | kind :: cfgtoks ->
       let raw = parse_cfg cfgtoks in
       let c = effective raw in
       if v.v_cfgcheck && not (pool_ok raw) then "invalid" else
       (match configure v raw with
        | None -> "panic runtime_error:_integer_divide_by_zero"
        | Some p0 ->
          let impl_outs = match impl with Some l -> Array.of_list (split_on l " ; ") | None -> [||] in
          let obs i = if i < Array.length impl_outs then obs_of_impl impl_outs.(i) else None in
          let outs = ref [] in
          let emit s = outs := s :: !outs in
          if kind = "pool" then begin
            let p = ref p0 in
            List.iteri (fun i tok ->
              match split_on tok ":" with
              | ["a"; k] -> let (p', o) = step v c !p (OAlloc (nn k, obs i)) in p := p'; emit (show_out_pool o)
              | ["g"; k] -> let (p', o) = step v c !p (OGoa (nn k, obs i)) in p := p'; emit (show_out_pool o)
              | ["r"; k] -> let (p', o) = step v c !p (ORelease (nn k)) in p := p'; emit (show_out_pool o)
              | ["R"; k; ip; a; b] -> let (p', o) = step v c !p (ORestore (nn k, blk ip a b)) in p := p'; emit (show_out_pool o)
              | ["I"; k; ip; a; b] -> let (p', o) = step v c !p (ORestoreIfAbsent (nn k, blk ip a b)) in p := p'; emit (show_out_pool o)
              | ["d"] -> emit (dump c !p)
              | _ -> emit "badop") ops
          end else if kind = "ev" then begin
            let es = ref (ecomp_init p0) in
            let acc_of = function "p" -> APPPoE | "o" -> AOtherAccess | _ -> AIPoE in
            let st_of = function "a" -> SActive | "r" -> SReleased | _ -> SOtherState in
            let qstate () = Printf.sprintf " q=%d/%s" (List.length !es.e_queue) (si !es.e_dropped) in
            (* the blocks the implementation reported in one output, in order *)
            let adds_of i =
              if i < Array.length impl_outs then
                List.filter_map (fun t -> obs_of_impl (String.trim t))
                  (split_on (List.hd (split_on impl_outs.(i) " q=")) "+")
              else [] in
            let deliver i e =
              let was_drained = !es.e_drained in
              let o = (match adds_of i with b :: _ -> Some b | [] -> None) in
              let out = if was_drained then show_out_dp (snd (dispatch v c !es.e_comp e o)) else "nodp" in
              es := estep !vq v c !es (EvDeliver (e, o));
              emit (out ^ qstate ()) in
            List.iteri (fun i tok ->
              match split_on tok ":" with
              | "eL" :: st :: acc :: sid :: k :: rest ->
                let pat = (match rest with [x] -> x | _ -> "") in
                let dl = List.init (String.length pat) (fun j -> pat.[j] = 'o' || pat.[j] = 'O') in
                deliver i (ELifecycle (st_of st, acc_of acc, nn sid, nn k, dl))
              | ["eP"; acc; sid; k; ok] -> deliver i (EProgrammed (acc_of acc, nn sid, nn k, ok = "1"))
              | ["eR"; acc; sid; k; ok] -> deliver i (ERestored (acc_of acc, nn sid, nn k, ok = "1"))
              | ["eB"] -> deliver i EBadPayload; es := estep !vq v c !es (EvDeliver (EBadPayload, None));
                          es := estep !vq v c !es (EvDeliver (EBadPayload, None));
                          (match !outs with _ :: r -> outs := ("nodp" ^ qstate ()) :: r | [] -> ())
              | ["F"; n] ->
                for _ = 1 to int_of_string n do
                  es := estep !vq v c !es (EvDeliver (ELifecycle (SActive, AIPoE, N0, N0, []), None))
                done;
                emit ("ok" ^ qstate ())
              | ["Z"] ->
                (* replay the queue, giving every event that makes a dataplane add the next block the implementation
                   reported *)
                let remaining = ref (adds_of i) and results = ref [] and obsl = ref [] in
                let sim = ref !es.e_comp in
                List.iter (fun e ->
                  let o = (match !remaining with b :: _ -> Some b | [] -> None) in
                  let (s', out) = dispatch v c !sim e o in
                  (match out with
                   | RBlock (true, _) | RInadmissible _ ->
                     results := show_out_dp out :: !results;
                     (match !remaining with _ :: r -> remaining := r | [] -> ())
                   | _ -> ());
                  obsl := o :: !obsl; sim := s') !es.e_queue;
                es := estep !vq v c !es (EvDrain (List.rev !obsl));
                emit ((if !results = [] then "nodp" else String.concat "+" (List.rev !results)) ^ qstate ())
              | ["P"; sid; mk; ip; a; b] | ["P"; sid; mk; ip; a; b; "0"] ->
                es := estep !vq v c !es (EvDirect (CRestorePresent (nn sid, nn mk, blk ip a b, N0, None))); emit "nodp"
              | ["D"; sid; mk; ip; a; b] ->
                es := estep !vq v c !es (EvDirect (CRestoreDegraded (nn sid, nn mk, blk ip a b))); emit "nodp"
              | ["d"] ->
                let s = !es.e_comp in
                let sess = List.sort compare (List.map int_of_n s.cp_sess) in
                let sess = if sess = [] then "-" else String.concat "," (List.map string_of_int sess) in
                emit (Printf.sprintf "%s sess=%s rev=%d/%d" (dump c s.cp_pool) sess
                        (List.length s.cp_rev.r_byblock) (List.length s.cp_rev.r_byip))
              | ["w"; lo; hi] -> emit (sweep !es.e_comp (int_of_string lo) (int_of_string hi))
              | _ -> emit "badop") ops
          end else begin
            let s = ref (comp_init p0) in
            let db = ref [] in
            let do_cop o = let (s', out) = cstep v c !s o in db := db_step v c !s o out !db; s := s'; out in
            List.iteri (fun i tok ->
              match split_on tok ":" with
              | ["A"; sid; k; ok] ->
                let o = do_cop (CActivate (nn sid, nn k, ok = "1", obs i)) in emit (show_out_dp o)
              | "S" :: sid :: k :: mk :: ip :: a :: b :: rest ->
                let ok = (match rest with [x] -> x = "1" | _ -> true) in
                let o = do_cop (CSynced (nn sid, nn k, nn mk, blk ip a b, ok, obs i)) in emit (show_out_dp o)
              | "X" :: sid :: k :: rest ->
                let pat = (match rest with [x] -> x | _ -> "") in
                let dl = List.init (String.length pat) (fun j -> pat.[j] = 'o' || pat.[j] = 'O') in
                ignore (do_cop (CRelease (nn sid, nn k, dl))); emit "ok"
              | "P" :: sid :: mk :: ip :: a :: b :: rest ->
                let bulk = (match rest with [x] -> nn x | _ -> N0) in
                let o = do_cop (CRestorePresent (nn sid, nn mk, blk ip a b, bulk, obs i)) in emit (show_out_dp o)
              | ["C"] -> ignore (do_cop CComplete); emit "ok"
              | ["L"; sid; k] ->
                let o = do_cop (CActivateLate (nn sid, nn k, obs i)) in emit (show_out_dp o)
              | ["K"; sid; ok] -> ignore (do_cop (CAddComplete (nn sid, ok = "1"))); emit "ok"
              | ["D"; sid; mk; ip; a; b] ->
                ignore (do_cop (CRestoreDegraded (nn sid, nn mk, blk ip a b))); emit "nodp"
              | ["d"] ->
                let sess = List.sort compare (List.map int_of_n !s.cp_sess) in
                let sess = if sess = [] then "-" else String.concat "," (List.map string_of_int sess) in
                emit (Printf.sprintf "%s sess=%s rev=%d/%d" (dump c !s.cp_pool) sess
                        (List.length !s.cp_rev.r_byblock) (List.length !s.cp_rev.r_byip))
              | ["w"; lo; hi] -> emit (sweep !s (int_of_string lo) (int_of_string hi))
              | ["B"] ->
                (* process restart: the store lists the session ids in string order *)
                let sids = List.sort (fun a b -> compare (string_of_int a) (string_of_int b)) (List.map (fun (sid, _) -> int_of_n sid) !db) in
                let ps = pstep v c p0 { pc_comp = !s; pc_db = !db } (PRestart (List.map ni sids)) in
                s := ps.pc_comp; db := ps.pc_db; emit "nodp"
              | ["b"] ->
                (* persisted records: sid=subscriber/ip/start-end *)
                let recs = List.sort compare (List.map (fun (sid, (k, b)) ->
                    (int_of_n sid, Printf.sprintf "%s=%s/%s/%s-%s" (si sid) (si k) (si b.b_ip) (si b.b_start) (si b.b_end))) !db) in
                emit ("db " ^ (if recs = [] then "-" else String.concat "," (List.map snd recs)))
              | _ -> emit "badop") ops
          end;
          if !outs = [] then "empty" else String.concat " ; " (List.rev !outs)))

let () =
  let lines = read_lines Sys.argv.(1) in
  let impl = if Array.length Sys.argv > 2 && Sys.argv.(2) <> "-" then Some (Array.of_list (read_lines Sys.argv.(2))) else None in
  let vname = if Array.length Sys.argv > 3 then Sys.argv.(3) else "repaired" in
  (* "all=v1,v2,...": every listed variant's answer on one line (used by props/C15.py to describe a mismatch) *)
  let multi = if String.length vname > 4 && String.sub vname 0 4 = "all=" then
      Some (String.split_on_char ',' (String.sub vname 4 (String.length vname - 4))) else None in
  List.iteri (fun i line ->
    let il = match impl with Some a when i < Array.length a -> Some a.(i) | _ -> None in
    let one v = vq := not (String.length v > 4 && String.contains (String.sub v 4 (String.length v - 4)) 'Q');
      try run_case (variant_of v) line il with e -> "MODELERROR " ^ Printexc.to_string e in
    match multi with
    | Some vs -> print_endline (String.concat " ### " (List.map one vs))
    | None -> print_endline (one vname)) lines
