(* C14 driver: one case per input line, one result line per case.
   parse <str>                                    -> ok <first> <last> <count> | err
   cvlan <str>                                    -> any | exact <n> | err
   cfg <G> {<name> <R> {<sv> <cv>}} <Q> {<s> <c>} -> <validate> ; <lookup results...>     (R = -1: nil group entry)
     <validate> = valid | rejected
   cfgnil <Q> {<s> <c>}                           -> same, for a nil configuration
   sweep <G> {<name> <R> {<sv> <cv>}}             -> <validate> ; md5=<digest of the 4096x4096 table> hits=<n> rowruns=<k> diff=none
   runes <kind> <lo> <hi>                         -> accepted code points, as runs lo-hi=<result>
   l2gw | l2fw ...                                -> see [consumer] below
*)
let show_sel = function SelAny -> "any" | SelExact c -> "c" ^ string_of_int (int_of_n c)
let show_match = function
  | None -> "none"
  | Some (name, idx) -> token_of_cps name ^ "#" ^ string_of_int (int_of_nat idx)
let rec take k l = if k = 0 then ([], l) else match l with x :: r -> let (a, b) = take (k-1) r in (x :: a, b) | [] -> failwith "short"

let show_parse s =
  match parse_vlan_range s with
  | None -> "err"
  | Some [] -> "ok EMPTYLIST"
  | Some l ->
    let a = int_of_n (List.hd l) and b = int_of_n (List.nth l (List.length l - 1)) in
    let r = Printf.sprintf "ok %d %d %d" a b (List.length l) in
    let consec = List.for_all2 (fun x i -> int_of_n x = a + i) l (List.init (List.length l) (fun i -> i)) in
    if consec then r else r ^ " NONCONSECUTIVE"
let show_cvlan s =
  match parse_cvlan s with
  | None -> "err"
  | Some SelAny -> "any"
  | Some (SelExact c) -> Printf.sprintf "exact %d" (int_of_n c)

(* tokens = G {name R {sv cv}} rest ; a nil group (R = -1) claims nothing, like a group without ranges *)
let read_config toks =
  match toks with
  | [] -> failwith "bad cfg"
  | g :: rest ->
    let ng = int_of_string g in
    let rec groups k rest acc = if k = 0 then (List.rev acc, rest) else
      match rest with
      | name :: r :: rest ->
        let nr = max 0 (int_of_string r) in
        let (toks, rest) = take (2 * nr) rest in
        let rec pairs = function a :: b :: t -> (cps_of_token a, cps_of_token b) :: pairs t | _ -> [] in
        groups (k-1) rest ((cps_of_token name, pairs toks) :: acc)
      | _ -> failwith "bad cfg" in
    groups ng rest []

(* ValidateMatchIndex: the property constrains acceptance only (C14_strict_accepts_iff); which defect is reported
   first (HEAD: validate_strict's VCollision / VMalformed in walk order) is not compared *)
let show_validate cfg =
  match validate_strict cfg with
  | VOk -> "valid"
  | VCollision _ | VMalformed _ -> "rejected"

(* consumers.  l2gw: the l2gw trigger's AAA request (group, AAA policy) for a pair; l2fw: does the ipoe component hand a
   DHCP frame of the pair to l2gw (both ask the matched group's access-types, group level or any range).
   argv[3] = "rescan": the l2gw policy resolution before /repo 60d937f (old replays only)
   l2gw|l2fw <G> {<name> <gpol> <gacc> <R> {<sv> <cv> <rpol> <acc>}} <Q> {<s> <c>}   gacc = l | - ; acc = l | i | p | ip *)
let variant = if Array.length Sys.argv > 3 then Sys.argv.(3) else "repaired"

let consumer kind toks =
  match toks with
  | [] -> "badline"
  | g :: rest ->
    let ng = int_of_string g in
    let rec groups k rest acc = if k = 0 then (List.rev acc, rest) else
      match rest with
      | name :: gpol :: gacc :: r :: rest ->
        let nr = int_of_string r in
        let (toks, rest) = take (4 * nr) rest in
        let rec quads = function
          | a :: b :: c :: d :: t -> ((cps_of_token a, cps_of_token b), (cps_of_token c, d = "l")) :: quads t
          | _ -> [] in
        groups (k-1) rest (((cps_of_token name, (cps_of_token gpol, gacc = "l")), quads toks) :: acc)
      | _ -> failwith "bad consumer case" in
    let (acfg, rest) = groups ng rest [] in
    let qs = match rest with _ :: qs -> qs | [] -> [] in
    let rec qpairs = function a :: b :: t -> (int_of_string a, int_of_string b) :: qpairs t | _ -> [] in
    if kind = "gpn" then
      String.concat " " (List.concat_map (fun (s, _) ->
          List.map (fun g ->
              token_of_cps (rescan_policy g (n_of_int s)) ^ "@" ^
              (match rescan_index (snd g) (n_of_int s) O with None -> "-1" | Some i -> string_of_int (int_of_nat i))) acfg)
          (qpairs qs))
    else if kind = "l2fw" then
      String.concat " " (List.map (fun (s, c) -> if l2gw_handoff acfg (n_of_int s) (n_of_int c) then "fwd" else "no") (qpairs qs))
    else
      let f = if variant = "rescan" then l2gw_policy_rescan else l2gw_policy in
      String.concat " " (List.map (fun (s, c) ->
          match f acfg (n_of_int s) (n_of_int c) with
          | None -> "none"
          | Some (n, p) -> token_of_cps n ^ ":" ^ token_of_cps p) (qpairs qs))

(* cm <mode> <faults> <K> { <G> {<name> <R> {<sv> <cv>}} } <Q> {<s> <c>}: the candidates are committed one after the other through the
   configuration manager (cm_commit from cm_init; mode boot: the first one through the start-up path, same gate);
   per candidate: verdict ':' handler applications (h0 none, h+ applied) ':' answers of cm_lookup on the state after it; then conc=ok (the harness's concurrent-reader
   check has nothing to report when C14_cm_reads_one_generation holds of the code) *)
let cm toks =
  match toks with
  | _mode :: faults :: k :: rest ->
    let k = int_of_string k in
    let rec cfgs n rest acc = if n = 0 then (List.rev acc, rest) else
        let (c, rest) = read_config rest in cfgs (n-1) rest (c :: acc) in
    let (cs, rest) = cfgs k rest [] in
    let qs = match rest with _ :: qs -> qs | [] -> [] in
    let rec qpairs = function a :: b :: t -> (int_of_string a, int_of_string b) :: qpairs t | _ -> [] in
    let qs = qpairs qs in
    (* fault plan (driver only): a candidate that passes validation but whose commit is made to fail afterwards (handler
       or persist failure) publishes nothing: the state stays; a rejected candidate is rejected before the fault matters *)
    let (_, _, outs) = List.fold_left (fun (i, st, outs) cfg ->
        let faulted = i < String.length faults && faults.[i] <> '-' && (_mode <> "boot" || i > 0) in
        if faulted && validate_strict cfg = VOk then
          let a = String.concat "," (List.map (fun (s, c) -> show_match (cm_lookup st (n_of_int s) (n_of_int c))) qs) in
          (i + 1, st, ("failed:h*:" ^ a) :: outs)
        else
        let st' = cm_commit st cfg in
        (* verdict and handler applications from the step model: applied grows by one iff the candidate is accepted *)
        let da = int_of_nat (applied st') - int_of_nat (applied st) in
        let v = (match validate_strict cfg with VOk -> "valid" | _ -> "rejected") ^ (if da = 0 then ":h0" else ":h+") in
        let a = String.concat "," (List.map (fun (s, c) -> show_match (cm_lookup st' (n_of_int s) (n_of_int c))) qs) in
        (i + 1, st', (v ^ ":" ^ a) :: outs)) (0, cm_init, []) cs in
    String.concat " | " (List.rev ("conc=ok" :: outs))
  | _ -> "badline"

let queries cfg rest =
  let qs = match rest with _ :: qs -> qs | [] -> [] in
  let rec qpairs = function a :: b :: t -> (int_of_string a, int_of_string b) :: qpairs t | _ -> [] in
  let ix = build cfg in
  List.map (fun (s, c) ->
      let a = lookup ix (n_of_int s) (n_of_int c) in
      let b = ref_lookup cfg (n_of_int s) (n_of_int c) in
      if a <> b then "MODELBUG" else show_match a) (qpairs qs)

(* the full 4096 x 4096 table from one evaluation of ref_lookup per class of the compressed domain:
   (s, c) is answered by ref_lookup at (rep (s_cuts cfg) s, rep (c_cuts cfg) c), which is what
   theorem C14_lookup_via_representative states for every s and c. *)
let all_n = Array.init 4096 n_of_int
let sweep cfg =
  let sc = s_cuts cfg and cc = c_cuts cfg in
  let cs = claims cfg in   (* ref_lookup cfg s c is by definition ref_lookup_in (claims cfg) s c *)
  let srep = Array.map (fun x -> int_of_n (rep sc x)) all_n in
  let crep = Array.map (fun x -> int_of_n (rep cc x)) all_n in
  let cell = Hashtbl.create 64 in
  let rowmemo = Hashtbl.create 64 in
  let hits = ref 0 in
  let row s =
    let rs = srep.(s) in
    match Hashtbl.find_opt rowmemo rs with
    | Some r -> r
    | None ->
      let b = Buffer.create 256 in
      let cur = ref "" and run = ref 0 and h = ref 0 in
      for c = 0 to 4095 do
        let rc = crep.(c) in
        let v = match Hashtbl.find_opt cell (rs, rc) with
          | Some v -> v
          | None -> let v = show_match (ref_lookup_in cs all_n.(rs) all_n.(rc)) in Hashtbl.add cell (rs, rc) v; v in
        if v <> "none" then incr h;
        if v <> !cur then begin
          if !run > 0 then Buffer.add_string b (Printf.sprintf "%dx%s," !run !cur);
          cur := v; run := 0 end;
        incr run
      done;
      Buffer.add_string b (Printf.sprintf "%dx%s" !run !cur);
      let r = (Buffer.contents b, !h) in
      Hashtbl.add rowmemo rs r; r in
  let tb = Buffer.create 1024 in
  let nruns = ref 0 in
  let s = ref 0 in
  while !s < 4096 do
    let (r0, h0) = row !s in
    let e = ref !s in
    while !e < 4096 && fst (row !e) = r0 do hits := !hits + h0; incr e done;
    if !nruns > 0 then Buffer.add_char tb ';';
    Buffer.add_string tb (Printf.sprintf "%d*[%s]" (!e - !s) r0);
    incr nruns;
    s := !e
  done;
  (* identifiers above 4095: every claim's S-VLAN and exact C-VLAN lie in 1..4094 (C14_parser_bounds, C14_cvlan_bounds,
     C14_lookup_sound), so an S-VLAN above 4095 never matches and a C-VLAN above 4095 is answered by the wildcard like the
     untagged pair; the harness's probe of bits 12-15 has nothing to report.  The cfg cases query such pairs through the
     model explicitly. *)
  Printf.sprintf "md5=%s hits=%d rowruns=%d diff=none high=ok" (Digest.to_hex (Digest.string (Buffer.contents tb))) !hits !nruns

let runes kind lo hi =
  let n c = n_of_int (Char.code c) in
  let b = Buffer.create 256 in
  let prev = ref "err" and start = ref 0 and last = ref 0 in
  let flush () =
    if !prev <> "err" then begin
      if Buffer.length b > 0 then Buffer.add_char b ',';
      Buffer.add_string b (Printf.sprintf "%d-%d=%s" !start !last
                             (String.concat "_" (String.split_on_char ' ' !prev))) end in
  for r = lo to hi do
    if not (r >= 0xD800 && r <= 0xDFFF) then begin
      let u = n_of_int r in
      let o = match kind with
        | "pl" -> show_parse [u; n '7']
        | "pt" -> show_parse [n '7'; u]
        | "pd" -> show_parse [n '7'; u; n '-'; u; n '9']
        | "pa" -> show_parse [u]
        | "pm" -> show_parse [n '1'; u; n '2']
        | "cl" -> show_cvlan [u; n 'a'; n 'N'; n 'y']
        | "ct" -> show_cvlan [n '5'; u]
        | "ca" -> show_cvlan [u]
        | "cy" -> show_cvlan [n 'a'; u; n 'y']
        | _ -> "badkind" in
      if o <> !prev || r <> !last + 1 then begin flush (); prev := o; start := r end;
      last := r
    end
  done;
  flush ();
  if Buffer.length b = 0 then "nothing" else Buffer.contents b

let () =
  let lines = read_lines Sys.argv.(1) in
  List.iter (fun line ->
    match tokens line with
    | [] -> ()
    | "parse" :: [s] -> print_endline (show_parse (cps_of_token s))
    | "cvlan" :: [s] -> print_endline (show_cvlan (cps_of_token s))
    | "cfg" :: rest ->
      let (cfg, rest) = read_config rest in
      print_endline (String.concat " " (show_validate cfg :: ";" :: queries cfg rest))
    | "cfgnil" :: rest ->
      print_endline (String.concat " " (show_validate [] :: ";" :: queries [] rest))
    | "sweep" :: rest ->
      let (cfg, _) = read_config rest in
      print_endline (show_validate cfg ^ " ; " ^ sweep cfg)
    | "l2gw" :: rest -> print_endline (consumer "l2gw" rest)
    | "l2fw" :: rest -> print_endline (consumer "l2fw" rest)
    | "gpn" :: rest -> print_endline (consumer "gpn" rest)
    | "cm" :: rest -> print_endline (cm rest)
    | ["runes"; kind; lo; hi] -> print_endline (runes kind (int_of_string lo) (int_of_string hi))
    | _ -> print_endline "badline") lines
