(* C14 driver: one case per input line, one result line per case.
   parse <str>                                  -> ok <first> <last> <count> | err
   cvlan <str>                                  -> any | exact <n> | err
   cfg <G> {<name> <R> {<sv> <cv>}} <Q> {<s> <c>} -> <validate> ; <lookup results...>
*)
let show_sel = function SelAny -> "any" | SelExact c -> "c" ^ string_of_int (int_of_n c)
let show_match = function
  | None -> "none"
  | Some (name, idx) -> token_of_cps name ^ "#" ^ string_of_int (int_of_nat idx)
let rec take k l = if k = 0 then ([], l) else match l with x :: r -> let (a, b) = take (k-1) r in (x :: a, b) | [] -> failwith "short"
let () =
  let lines = read_lines Sys.argv.(1) in
  List.iter (fun line ->
    match tokens line with
    | [] -> ()
    | "parse" :: [s] ->
      (match parse_vlan_range (cps_of_token s) with
       | None -> print_endline "err"
       | Some l -> let a = List.hd l and b = List.nth l (List.length l - 1) in
         Printf.printf "ok %d %d %d\n" (int_of_n a) (int_of_n b) (List.length l))
    | "cvlan" :: [s] ->
      (match parse_cvlan (cps_of_token s) with
       | None -> print_endline "err"
       | Some SelAny -> print_endline "any"
       | Some (SelExact c) -> Printf.printf "exact %d\n" (int_of_n c))
    | "cfg" :: g :: rest ->
      let ng = int_of_string g in
      let rec groups k rest acc = if k = 0 then (List.rev acc, rest) else
        match rest with
        | name :: r :: rest ->
          let nr = int_of_string r in
          let (toks, rest) = take (2 * nr) rest in
          let rec pairs = function a :: b :: t -> (cps_of_token a, cps_of_token b) :: pairs t | _ -> [] in
          groups (k-1) rest ((cps_of_token name, pairs toks) :: acc)
        | _ -> failwith "bad cfg" in
      let (cfg, rest) = groups ng rest [] in
      let qs = match rest with _ :: qs -> qs | [] -> [] in
      let rec qpairs = function a :: b :: t -> (int_of_string a, int_of_string b) :: qpairs t | _ -> [] in
      let ix = build cfg in
      let v = match validate cfg with
        | None -> "valid"
        | Some (((s, se), prev), name) ->
          Printf.sprintf "collision %d %s %s %s" (int_of_n s) (show_sel se) (token_of_cps prev) (token_of_cps name) in
      let rs = List.map (fun (s, c) ->
          let a = lookup ix (n_of_int s) (n_of_int c) in
          let b = ref_lookup cfg (n_of_int s) (n_of_int c) in
          if a <> b then "MODELBUG" else show_match a) (qpairs qs) in
      print_endline (String.concat " " (v :: ";" :: rs))
    | _ -> print_endline "badline") lines
