(* C08 driver.  argv[1] = cases, argv[2] = implementation output (needed: the CoA and auth cases take the
   wall-clock second, the datagram the harness built from the recipe, and the request with its random
   authenticator from the implementation's line), argv[3] = variant:
     repaired | defective | v<r><a><w><l>   (one digit per repair flag, 1 = repaired)
   MD5 is supplied to the extracted model as an ordinary function: OCaml's Digest. *)
let string_of_bytes (l : n list) : string =
  let b = Buffer.create 64 in List.iter (fun x -> Buffer.add_char b (Char.chr (int_of_n x))) l; Buffer.contents b
let bytes_of_string (s : string) : n list = List.init (String.length s) (fun i -> n_of_int (Char.code s.[i]))
let md5f (l : n list) : n list = bytes_of_string (Digest.string (string_of_bytes l))

let rec z_of_int (i : int) : z = if i = 0 then Z0 else if i > 0 then Zpos (pos_of_int i) else Zneg (pos_of_int (-i))

let kv tok key =
  let p = key ^ "=" in
  let lp = String.length p in
  if String.length tok >= lp && String.sub tok 0 lp = p then String.sub tok lp (String.length tok - lp)
  else failwith ("expected " ^ key ^ "= got " ^ tok)

let flags_of_variant v =
  if v = "repaired" then repaired else if v = "head" then head else failwith "variant"

let rec take k l = if k = 0 then ([], l) else match l with x :: r -> let (a, b) = take (k-1) r in (x :: a, b) | [] -> failwith "short"
let rec drop k l = if k = 0 then l else match l with _ :: r -> drop (k-1) r | [] -> []
let sublist off n l = fst (take (min n (max 0 (List.length l - off))) (drop off l))

let split_on_str (sep : string) (s : string) : string list =
  Str.split_delim (Str.regexp_string sep) s

let k_of_first g = match g with (k, _, _, _) :: _ -> k | [] -> 0
(* ------------------------------------------------------------ reply cases *)
(* rounds are processed in groups: a held round ("h<id>") and the round after it form one group whose two
   requests are both registered (CSend, CSend) before the datagrams of both arrive; every delivery goes to the
   round that registered the slot last. *)
let run_reply fl toks impl =
  let isegs = Array.of_list (split_on_str " ; " impl) in
  let impl_got k = if k < Array.length isegs then (try kv (List.find (fun t -> String.length t > 4 && String.sub t 0 4 = "got=") (tokens isegs.(k))) "got" with Not_found -> "") else "" in
  match toks with
  | sec :: r :: rest ->
    let secret = bytes_of_hex (kv sec "secret") in
    let rounds = int_of_string r in
    let st = ref pending0 in
    let out = Array.make rounds "" in
    let rest = ref rest in
    let parse_round () =
      match !rest with
      | id :: code :: auth :: attrs :: nd :: more ->
        let nd = int_of_string nd in
        let (dgs, more) = take nd more in
        rest := more;
        let isheld = String.length id > 0 && id.[0] = 'h' in
        let id = if isheld then String.sub id 1 (String.length id - 1) else id in
        let ab = bytes_of_hex attrs in
        let attrs = match parse_attrs (nat_of_int (List.length ab + 1)) ab with Some a -> a | None -> failwith "attrs" in
        let idn = n_of_int (int_of_string id) in
        (isheld, idn, build_request md5f secret (n_of_int (int_of_string code)) idn (bytes_of_hex auth) attrs, List.map bytes_of_hex dgs)
      | _ -> failwith "bad reply case" in
    let show d =
      let len = int_of_n (List.nth d 2) * 256 + int_of_n (List.nth d 3) in
      Printf.sprintf "%d:%s:%s" (int_of_n (List.hd d)) (hex_of_bytes (sublist 4 16 d)) (hex_of_bytes (sublist 20 (len - 20) d)) in
    let i = ref 0 in
    while !i < rounds do
      let (h1, id1, rq1, d1) = parse_round () in
      let group = if h1 && !i + 1 < rounds then [(!i, id1, rq1, d1); (let (_, id2, rq2, d2) = parse_round () in (!i + 1, id2, rq2, d2))]
        else [(!i, id1, rq1, d1)] in
      i := !i + List.length group;
      (* register the requests in order *)
      let owner = Hashtbl.create 4 in
      List.iter (fun (k, idn, rq, _) ->
          match rq with
          | None -> out.(k) <- "noreq:true"
          | Some req ->
            let (s1, _) = cstep md5f fl secret !st (CSend (idn, req)) in
            st := s1; Hashtbl.replace owner (int_of_n idn) k;
            out.(k) <- "req=" ^ hex_of_bytes req ^ " got=timeout") group;
      let delivered = Hashtbl.create 4 in
      List.iter (fun (_, _, _, dgs) ->
          List.iter (fun d ->
              (* admissible choice: a verifying datagram with an irregular Message-Authenticator may be ignored; the
                 implementation's answer for the round that owns the slot decides *)
              let rej = match cstep md5f fl secret !st (CRecv d) with
                | (_, Some idd) when ma_irregular (truncate d) ->
                  (match Hashtbl.find_opt owner (int_of_n idd) with
                   | Some k when not (Hashtbl.mem delivered k) -> impl_got k <> show d
                   | _ -> false)
                | _ -> false in
              let (s2, o) = cstep_g md5f fl rej secret !st (CRecv d) in
              st := s2;
              match o with
              | Some idd ->
                (match Hashtbl.find_opt owner (int_of_n idd) with
                 | Some k when not (Hashtbl.mem delivered k) ->
                   Hashtbl.replace delivered k ();
                   (match List.find (fun (k', _, _, _) -> k' = k) group with
                    | (_, _, Some req, _) -> out.(k) <- "req=" ^ hex_of_bytes req ^ " got=" ^ show d
                    | _ -> out.(k) <- "MODELBUG")
                 | _ -> out.(k_of_first group) <- "MODELBUG")
              | None -> ()) dgs) group;
      List.iter (fun (k, idn, rq, _) ->
          if rq <> None && not (Hashtbl.mem delivered k) then
            (let (s3, _) = cstep md5f fl secret !st (CTimeout idn) in st := s3)) group
    done;
    String.concat " ; " (Array.to_list out)
  | _ -> "badcase"

(* ------------------------------------------------------------ CoA cases *)
let ip_of_string s =
  match List.map int_of_string (String.split_on_char '.' s) with
  | [a; b; c; d] -> n_of_int ((((a * 256) + b) * 256 + c) * 256 + d)
  | _ -> failwith "ip"

let show_target (k, v) =
  (match int_of_n k with 1 -> "acct." | 2 -> "v4." | 3 -> "user." | _ -> "v6.") ^ hex_of_bytes v

let stat_name = function
  | SCoAReq -> (0, "coareq") | SCoAAck -> (1, "coaack") | SCoANak -> (2, "coanak") | SDMReq -> (3, "dmreq")
  | SDMAck -> (4, "dmack") | SDMNak -> (5, "dmnak") | SInvalid -> (7, "invalid") | SNotFound -> (8, "notfound")
let show_stats cl st =
  if st = [] then "none" else
  let l = List.sort compare (List.map stat_name st) in
  String.concat "," (List.map (fun (_, nm) -> Printf.sprintf "c%d.%s1" cl nm) l)

let hexkey (l : n list) = String.concat "" (List.map (fun x -> Printf.sprintf "%02x" (int_of_n x)) l)
let show_delta (m : (n list * n list) list) =
  if m = [] then "-" else
  let l = List.sort compare (List.map (fun (k, v) -> (hexkey k, hex_of_bytes v)) m) in
  String.concat "," (List.map (fun (k, v) -> k ^ "=" ^ v) l)

let run_coa fl toks impl =
  match toks with
  | w :: nas :: mp :: cls :: n :: rest ->
    let win = int_of_string (kv w "win") in
    let nasid = bytes_of_hex (kv nas "nasid") in
    let maps = let m = kv mp "maps" in
      if m = "-" then [] else
        List.map (fun e -> match String.split_on_char ':' e with
            | [a; b; c] -> ((n_of_int (int_of_string a), n_of_int (int_of_string b)), bytes_of_hex c)
            | _ -> failwith "maps") (String.split_on_char ',' m) in
    let clients = let c = kv cls "clients" in
      if c = "-" then [] else
        List.map (fun e ->
            let i = String.rindex e '/' in
            let host = String.sub e 0 i and sec = String.sub e (i+1) (String.length e - i - 1) in
            let (a, pl) = match String.index_opt host '/' with
              | Some j -> (String.sub host 0 j, int_of_string (String.sub host (j+1) (String.length host - j - 1)))
              | None -> (host, 32) in
            { c_addr = ip_of_string a; c_plen = n_of_int pl; c_secret = bytes_of_hex sec }) (String.split_on_char ',' c) in
    let cfg = { window = z_of_int win; nasid = nasid; maps = maps; clients = clients } in
    let npk = int_of_string n in
    (* packets: tokens up to "|" *)
    let rec pkts acc cur = function
      | [] -> List.rev (if cur = [] then acc else List.rev cur :: acc)
      | "|" :: r -> pkts (List.rev cur :: acc) [] r
      | t :: r -> pkts acc (t :: cur) r in
    let pk = pkts [] [] rest in
    let segs = split_on_str " ; " impl in
    if List.length pk <> npk || List.length segs <> npk then "NOIMPL"
    else
      let seen = ref rcache0 in
      String.concat " ; " (List.map2 (fun p seg ->
          let get k = kv (List.find (fun t -> String.length t > String.length k && String.sub t 0 (String.length k + 1) = k ^ "=") p) k in
          match tokens seg with
          | nowt :: dgt :: tbt :: tat :: rest_toks when String.length nowt > 4 && String.sub nowt 0 4 = "now=" && String.length dgt > 3 && String.sub dgt 0 3 = "dg="
                                                        && String.length tbt > 3 && String.sub tbt 0 3 = "tb=" ->
            let dg = bytes_of_hex (kv dgt "dg") in
            let tb = int_of_string (kv tbt "tb") and ta = int_of_string (kv tat "ta") in
            let src = ip_of_string (get "src") in
            let bus = match get "bus" with "ok" -> 0 | "nf" -> 1 | "e0" -> 2 | _ -> 3 in
            let pre = nowt ^ " " ^ dgt ^ " " ^ tbt ^ " " ^ tat ^ " " in
            let orep = (try Some (bytes_of_hex (kv (List.find (fun t -> String.length t > 6 && String.sub t 0 6 = "reply=") (tokens seg)) "reply"))
                        with Not_found -> None) in
            (* the code read the clock somewhere between tb and ta: evaluate at both instants (second = ms / 1000) *)
            let eval tms =
              let now = tms / 1000 in
              (* admissible choice: an authenticated request with an irregular Message-Authenticator may be dropped as
                 invalid by the read loop; the implementation's answer (drop, InvalidAuth counted for that client) decides *)
              let lenient = coa_step md5f fl cfg (z_of_int now) src (n_of_int bus) dg in
              let rej = reached_worker lenient && ma_irregular (truncate dg) &&
                        (match lenient, rest_toks with
                         | (OReply (cl, _, _, _) | ODropInvalid (cl, _) | OSilent cl), "drop" :: st :: _ ->
                           st = Printf.sprintf "st=c%d.invalid1" (int_of_nat cl)
                         | _ -> false) in
              (* second admissible choice: the attribute order of the reply (reply_equiv) *)
              let (o, cache') = coa_step_t md5f cache_max fl rej orep cfg (z_of_int now) (z_of_int tms) src (n_of_int bus) dg !seen in
              let line = (match o with
             | ODropUnknown -> pre ^ "drop st=unknown1 ev=noev"
             | ODropInvalid (cl, st) -> pre ^ "drop st=" ^ show_stats (int_of_nat cl) st ^ " ev=noev"
             | OSilent _ -> pre ^ "silent st=none ev=noev"
             | OReply (cl, st, reply, ev) ->
               let cli = int_of_nat cl in
               let secret = (List.nth clients cli).c_secret in
               let reqauth = sublist 4 16 dg in
               let r' = truncate reply in
               let ra = if resp_auth_ok md5f secret reqauth r' then "1" else "0" in
               let ma = match find_attr80 r' with None -> "-" | Some _ -> if ma_resp_ok md5f secret reqauth r' then "1" else "0" in
               let evs = match ev with
                 | None -> "noev"
                 | Some (EvMutation (t, d)) -> "mut:" ^ show_target t ^ ":" ^ show_delta d
                 | Some (EvTerminate t) -> "term:" ^ show_target t ^ ":radius-disconnect" in
               pre ^ "reply st=" ^ show_stats cli st ^ " reply=" ^ hex_of_bytes reply ^ " ra=" ^ ra ^ " ma=" ^ ma ^ " ev=" ^ evs) in
              (line, cache') in
            let (l1, c1) = eval tb in
            let (l2, c2) = if ta = tb then (l1, c1) else eval ta in
            if l1 = l2 || l1 = seg || l2 <> seg then (seen := c1; l1) else (seen := c2; l2)
          | _ -> "NOIMPL") pk segs)
  | _ -> "badcase"

(* ------------------------------------------------------------ Authenticate cases *)
(* The decision (allowed with attributes / denied / error) is [authenticate_radius] of the Coq model.  The
   request with its random authenticator, identifier and timestamp is taken from the implementation's line;
   the model answers with the request it expects on the wire ([refill_ma]: Message-Authenticator recomputed)
   and with its own verdict on that request. *)
let run_auth fl toks impl =
  match toks with
  | sec :: _ :: _ ->
    let secret = bytes_of_hex (kv sec "secret") in
    (match tokens impl with
     | rq :: dgs :: _ when String.length rq > 4 && String.sub rq 0 4 = "req=" ->
       let req = bytes_of_hex (kv rq "req") in
       let dl = let d = kv dgs "dgs" in if d = "-" then [] else List.map bytes_of_hex (String.split_on_char ',' d) in
       (* admissible choice (cstep_g): verifying datagrams with an irregular Message-Authenticator may be ignored.  The model is
          evaluated under both uniform policies; the implementation's line is accepted only if it equals one of them *)
       let line rejall =
         let g = match authenticate_failover_g_radius md5f fl (fun _ -> rejall) [((secret, req), dl)] with
           | AAllowed attrs -> "allowed:" ^ show_delta attrs
           | ADenied -> "denied"
           | AError -> "error" in
         let expected = refill_ma md5f secret req in
         let reqma = match find_attr80 expected with None -> "-" | Some _ -> if ma_ok_asis md5f secret expected then "1" else "0" in
         "req=" ^ hex_of_bytes expected ^ " " ^ dgs ^ " reqma=" ^ reqma ^ " got=" ^ g in
       let l0 = line false in
       if l0 = impl then l0 else (let l1 = line true in if l1 = impl then l1 else l0)
     | _ -> "NOIMPL")
  | _ -> "badcase"

(* ------------------------------------------------------------ fail-over cases *)
(* fail kind=.. pw=.. n { secret=<hex> k recipe*k }*n ; implementation: s<i>:req=<hex|-> dgs=<..|-> ; ... ; got=..
   The decision is [authenticate_failover_radius] / [accounting_failover] of the Coq model over the servers that the
   model says are tried (server i+1 only if server i handed nothing over); for each of them the model prints the
   request it expects on that server's socket ([expected_wire] under THAT server's secret). *)
let run_fail fl toks impl =
  match toks with
  | kd :: _ :: n :: rest ->
    let kind = kv kd "kind" in
    let n = int_of_string n in
    let rec secrets k rest acc = if k = 0 then List.rev acc else
        match rest with
        | sec :: cnt :: more -> secrets (k-1) (drop (int_of_string cnt) more) (bytes_of_hex (kv sec "secret") :: acc)
        | _ -> failwith "fail case" in
    let secs = secrets n rest [] in
    let segs = split_on_str " ; " impl in
    if List.length segs <> n + 1 then "NOIMPL" else
      let obs = List.mapi (fun i seg ->
          match tokens seg with
          | [rq; dg] ->
            let pre = Printf.sprintf "s%d:req=" i in
            let lp = String.length pre in
            let r = String.sub rq lp (String.length rq - lp) in
            let d = kv dg "dgs" in
            (r, d)
          | _ -> failwith "seg") (fst (take n segs)) in
      let line rejall =
      let rej = (fun _ -> rejall) in
      (* walk the servers as the model prescribes *)
      let rec walk i secs obs tried acc =
        match secs, obs with
        | sec :: sr, (r, d) :: orr ->
          if tried = `Stop then walk (i+1) sr orr `Stop (Printf.sprintf "s%d:req=- dgs=-" i :: fst acc, snd acc)
          else if r = "-" then (Printf.sprintf "s%d:req=MISSING dgs=-" i :: fst acc, snd acc)
          else
            let req = bytes_of_hex r in
            let dl = if d = "-" then [] else List.map bytes_of_hex (String.split_on_char ',' d) in
            let line = Printf.sprintf "s%d:req=%s dgs=%s" i (hex_of_bytes (expected_wire md5f sec req)) d in
            let st = ((sec, req), dl) in
            let acc' = (line :: fst acc, st :: snd acc) in
            (match try_server_g md5f fl rej st with
             | Some _ -> walk (i+1) sr orr `Stop acc'
             | None -> walk (i+1) sr orr `Go acc')
        | _, _ -> acc in
      let (lines, servers) = walk 0 secs obs `Go ([], []) in
      let lines = List.rev lines and servers = List.rev servers in
      let lines = if List.length lines < n then lines @ List.init (n - List.length lines) (fun j -> Printf.sprintf "s%d:req=- dgs=-" (List.length lines + j)) else lines in
      let g = if kind = "acct" then (if accounting_failover_g md5f fl rej servers then "ok" else "error")
        else (match authenticate_failover_g_radius md5f fl rej servers with
            | AAllowed attrs -> "allowed:" ^ show_delta attrs
            | ADenied -> "denied"
            | AError -> "error") in
      String.concat " ; " lines ^ " ; got=" ^ g in
      let l0 = line false in
      if l0 = impl then l0 else (let l1 = line true in if l1 = impl then l1 else l0)
  | _ -> "badcase"

(* ------------------------------------------------------------ literal tables of the model *)
let kind_of (dec : n list -> n list option) : string =
  let probe k = bytes_of_string (String.sub "abcdefghijklmnopqrstuvwxyz" 0 k) in
  let ne k = match dec (probe k) with Some v when v <> [] -> "1" | _ -> "0" in
  let shape = match dec (probe 4) with
    | None | Some [] -> "-"
    | Some v -> let s = string_of_bytes v in
      if s = "?" then "o"
      else if String.length s > 0 && (let ok = ref true in String.iter (fun c -> if c < '0' || c > '9' then ok := false) s; !ok) then "d"
      else "r" in
  String.concat "" (List.map ne [0; 3; 4; 5; 16]) ^ shape
let run_lits () =
  let ids = List.sort compare (List.map int_of_n ident_types) in
  let t1 = List.concat (List.init 256 (fun t -> match tier1 (n_of_int t) with
      | Some (name, dec) -> [Printf.sprintf "%d:%s:%s" t (hexkey name) (kind_of dec)] | None -> [])) in
  let t2 = List.concat (List.map (fun vid -> List.concat (List.init 256 (fun vt ->
      match tier2 (n_of_int vid) (n_of_int vt) with
      | Some (name, dec) -> [Printf.sprintf "%010d:%03d:%s:%s" vid vt (hexkey name) (kind_of dec)] | None -> []))) [9; 311; 32473]) in
  "ident=" ^ String.concat "," (List.map string_of_int ids) ^ " tier1=" ^ String.concat "," t1 ^
  " tier2=" ^ String.concat "," (List.sort compare t2)

let () =
  let lines = read_lines Sys.argv.(1) in
  let impl = if Array.length Sys.argv > 2 && Sys.argv.(2) <> "-" then read_lines Sys.argv.(2) else [] in
  let fl = flags_of_variant (if Array.length Sys.argv > 3 then Sys.argv.(3) else "repaired") in
  let impl = Array.of_list impl in
  List.iteri (fun i line ->
      let il = if i < Array.length impl then impl.(i) else "" in
      let r = try
          (match tokens line with
           | "reply" :: t -> run_reply fl t il
           | "coa" :: t -> run_coa fl t il
           | "auth" :: t -> run_auth fl t il
           | "lits" :: _ -> run_lits ()
           | "fail" :: t -> run_fail fl t il
           | _ -> "badline")
        with e -> "MODELERR " ^ Printexc.to_string e in
      print_endline r) lines
