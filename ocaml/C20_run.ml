(* C20 driver.  argv[1]=cases, argv[2]=implementation output (needed: conc cases are checked for
   admissibility against the set of quiescent observations reachable in the step-interleaving model),
   argv[3]=variant repaired|defective.

   seq  <kind> <cap> <nlabels> <buckets|-> <op>...   -> one token per op (exact comparison)
   conc <kind> <cap> <nlabels> <rounds> <noise> <setup|-> <prog>...
        implementation line: "conc obs | obs | ..." ; every obs must be a quiescent observation reachable
        under SOME interleaving of the model's atomic steps:
          variant defective: reachable in the Defective machine (today's algorithm)
          variant repaired : reachable in the Repaired machine (the algorithm /repo HEAD implements) and nothing else.
        admissible observations are echoed, others are printed as INADMISSIBLE(obs). *)

let z_of_int (i : int) : z = if i = 0 then Z0 else if i > 0 then Zpos (pos_of_int i) else Zneg (pos_of_int (-i))
let int_of_z (x : z) : int = match x with Z0 -> 0 | Zpos p -> int_of_pos p | Zneg p -> - (int_of_pos p)
let z_of_decimal (s : string) : z =
  if String.length s > 0 && s.[0] = '-' then
    (match pos_of_decimal (String.sub s 1 (String.length s - 1)) with None -> Z0 | Some p -> Zneg p)
  else (match pos_of_decimal s with None -> Z0 | Some p -> Zpos p)
let decimal_of_z (x : z) : string = match x with Z0 -> "0" | Zpos p -> decimal_of_pos p | Zneg p -> "-" ^ decimal_of_pos p
let two53 = z_of_decimal "9007199254740992"
let z_lt a b = (match Z.compare a b with Lt -> true | _ -> false)
let z_abs x = match x with Zneg p -> Zpos p | _ -> x
(* vfFloat of the Go harness: exact integers below 2^53, "big" otherwise *)
let show_float (x : z) : string = if z_lt (z_abs x) two53 then decimal_of_z x else "big"

let tuple_of_token (t : string) : tuple =
  if t = "_" then [] else
  List.map (fun v -> if v = "-" then [] else bytes_of_hex v) (String.split_on_char ',' t)
let token_of_tuple (t : tuple) : string =
  if t = [] then "_" else String.concat "," (List.map hex_of_bytes t)

let kind_of = function "c" -> KCounter | "g" -> KGauge | _ -> KHist
(* the default cap VALUE is the implementation's choice: taken from the first `dcap=<n>` token of the implementation's output
   (the corpus starts with a `probe` case); HEAD's 10000 when a batch carries none *)
let dcap_reported : int ref = ref 10000
let mk_cfg kind cap nl buckets variant =
  { c_kind = kind_of kind; c_cap = eff_cap_with (z_of_int !dcap_reported) (z_of_int cap);
    c_nlabels = nat_of_int nl; c_buckets = buckets;
    c_variant = (if variant = "defective" then Defective else Repaired) }

let show_hval kind (v : hval) : string =
  match kind with
  | "c" -> decimal_of_z v.v_main
  | "g" -> show_float v.v_main
  | _ -> decimal_of_z v.v_cnt ^ "/" ^ show_float v.v_main ^ "/" ^ String.concat "." (List.map decimal_of_z v.v_bk)
let show_sample kind (v : hval) : string =
  match kind with
  | "c" -> show_float v.v_main
  | _ -> show_hval kind v

let rec nth_opt l i = match l with [] -> None | x :: r -> if i = 0 then Some x else nth_opt r (i - 1)
let index_of x l = let rec go i = function [] -> -1 | y :: r -> if y = x then i else go (i + 1) r in go 0 l

(* ---------------------------------------------------------------- sequential *)
(* A sequential history is run on the EXTENDED machine (Model.v xstep_client / xstep_aux), one operation to completion at a
   time: client operations include the markDirty and tombstone-Once steps, `sub/unsub/tick/drain/s` are auxiliary threads
   (Subscribe incl. tickMu, Unsubscribe, publishTick with its stepwise Range, AppendSnapshot with its stepwise Range). *)
type sstate = { mutable s : shared; mutable ss : sshared; mutable slots : href list }

let run_seq (f : string list) (impl : string) (variant : string) : string =
  match f with
  | _ :: kind :: cap :: nl :: bk :: ops ->
    (* "-" = Buckets left empty => DefaultHistogramBuckets 0.005 .. 10; the harness observes integers only, and for an integer
       v and a boundary b >= 0, v <= b iff v <= floor b: the floors of the eleven defaults give the same bucket indices *)
    let buckets = if bk = "-" then (if kind = "h" then List.map z_of_int [0;0;0;0;0;0;0;1;2;5;10] else [])
      else List.map z_of_decimal (String.split_on_char ',' bk) in
    let c = mk_cfg kind (int_of_string cap) (int_of_string nl) buckets variant in
    let st = { s = shared0; ss = sshared0; slots = [] } in
    let do_op (o : op) : res option =
      let rec go n (cl : thread * mpc) =
        let (th, m) = cl in
        if finished th && m = MNone then Some th else if n = 0 then None else
        match xstep_client c st.s st.ss cl with
        | None -> None                                  (* blocked: impossible with a single client *)
        | Some ((s', ss'), cl') -> st.s <- s'; st.ss <- ss'; go (n - 1) cl' in
      match go 32 (seq_thread o st.slots, MNone) with
      | None -> None
      | Some th -> st.slots <- th.t_slots; (match th.t_out with r :: _ -> Some r | [] -> None) in
    let run_aux (o : sop) : auxthread option =
      let rec go n a = if afinished a then Some a else if n = 0 then None else
          match xstep_aux SelectDefault st.s st.ss a with
          | None -> None
          | Some (ss', a') -> st.ss <- ss'; go (n - 1) a' in
      go 1000000 (auxthread0 [o]) in
    let show_res r = match r with
      | None -> "OUTOFFUEL" | Some ResPanic -> "panic" | Some ResU -> "." | Some (ResB true) -> "1"
      | Some (ResB false) -> "0" | Some (ResH RTomb) -> "t"
      | Some (ResH (RH id)) -> "h" ^ string_of_int (index_of (RH id) st.slots) in
    let nactive () = List.length (List.filter (fun b -> not b.sb_unsub) st.ss.ss_subs) in
    let impl_toks = Array.of_list (tokens impl) in
    let out = List.mapi (fun opi tok ->
      let p = String.split_on_char ':' tok in
      match p with
      | ["r"; t] ->
        (match do_op (OResolve (tuple_of_token t)) with
         | Some ResPanic -> "panic"
         | r -> show_res r)
      | [("e" | "S") as code; k; d] ->
        let k = int_of_string k in
        (match nth_opt st.slots k with
         | None -> "-"
         | Some h ->
           let _ = do_op (OEmitH (nat_of_int k, (if code = "S" then ESet else EAdd), z_of_decimal d)) in
           (match h with
            | RTomb -> "v" ^ (if kind = "h" then "0/0/" else "0")
            | RH id -> (match get_handle st.s id with
                | Some hd -> "v" ^ show_hval kind hd.h_val
                | None -> "v?")))
      | [("a" | "A") as code; t; d] ->
        show_res (do_op (OEmitT (tuple_of_token t, (if code = "A" then ESet else EAdd), z_of_decimal d)))
      | ["u"; t] -> show_res (do_op (OUnreg (tuple_of_token t)))
      | ["s"] ->
        (match run_aux SSnapshot with
         | Some { a_snaps = snap :: _ } ->
           let series = List.sort compare (List.map (fun (t, v) -> token_of_tuple t ^ "=" ^ show_sample kind v) snap) in
           let sd = List.sort compare (List.concat (List.mapi (fun i b ->
               if (not b.sb_unsub) && int_of_z b.sb_dropped > 0
               then [string_of_int (i + 1) ^ ":" ^ decimal_of_z b.sb_dropped] else []) st.ss.ss_subs)) in
           "{" ^ String.concat ";" series ^ "|c=" ^ show_float st.s.cnt ^ "|d=" ^ show_float st.s.drops ^
           "|u=" ^ show_float st.s.unknown ^ "|st=" ^ show_float st.s.stales ^
           "|subs=" ^ decimal_of_z st.ss.ss_nsubs ^ "|sd=" ^ String.concat "," sd ^
           (* the second metric of the registry (harness vfDecoy: cap 1; series x; one emission through the tombstone, one to an
              unknown tuple): a gauge next to a counter (drops count 1 each), a counter otherwise (drops count the deltas) *)
           (if kind = "c" then "|o=78=3/1/1/1" else "|o=78=3/1/5/7") ^ "}"
         | _ -> "SNAPSHOT-BLOCKED")
      | ["sub"; b] ->
        (* BufferSize <= 0: the default capacity is the implementation's choice (the property does not fix it): take the
           capacity it reports; every capacity is admissible.  BufferSize > 0 must be honoured exactly. *)
        let dflt = (try (let it = impl_toks.(opi) in
                         int_of_string (String.sub it (String.index it '/' + 1) (String.length it - String.index it '/' - 1)))
                    with _ -> 256) in
        (match run_aux (SSubscribe (z_of_decimal b, nat_of_int (max 0 dflt))) with
         | Some _ ->
           let k = List.length st.ss.ss_subs - 1 in
           let capk = (match nth_opt st.ss.ss_subs k with Some sb -> int_of_nat sb.sb_cap | None -> -1) in
           "sub" ^ string_of_int k ^ "/" ^ string_of_int capk
         | None -> "SUBSCRIBE-BLOCKED")
      | ["unsub"; k] ->
        let k = int_of_string k in
        if k >= List.length st.ss.ss_subs then "-" else
          (match run_aux (SUnsubscribe (nat_of_int k)) with Some _ -> "." | None -> "UNSUBSCRIBE-BLOCKED")
      | ["tick"] -> (match run_aux STick with Some _ -> "." | None -> "TICK-BLOCKED")
      | ["drain"; k; n] ->
        let k = int_of_string k and n = int_of_string n in
        (match nth_opt st.ss.ss_subs k with
         | None -> "-"
         | Some b ->
           let got = min n (int_of_nat b.sb_len) in
           let _ = run_aux (SDrain (nat_of_int k, nat_of_int n)) in
           let b' = (match nth_opt st.ss.ss_subs k with Some x -> x | None -> b) in
           "got" ^ string_of_int got ^ "/drop" ^ decimal_of_z b'.sb_dropped)
      | _ -> "badop") ops in
    ignore nactive;
    String.concat " " out
  | _ -> "badline"

(* ---------------------------------------------------------------- concurrent: reachable quiescent observations *)
let parse_prog (tok : string) : op list =
  if tok = "-" then [] else
  List.map (fun o -> match String.split_on_char ':' o with
      | ["r"; t] -> OResolve (tuple_of_token t)
      | ["u"; t] -> OUnreg (tuple_of_token t)
      | ["e"; k; d] -> OEmitH (nat_of_int (int_of_string k), EAdd, z_of_decimal d)
      | ["S"; k; d] -> OEmitH (nat_of_int (int_of_string k), ESet, z_of_decimal d)
      | ["a"; t; d] -> OEmitT (tuple_of_token t, EAdd, z_of_decimal d)
      | ["A"; t; d] -> OEmitT (tuple_of_token t, ESet, z_of_decimal d)
      | _ -> failwith "bad op") (String.split_on_char '/' tok)

let measure_int c (h : handle) : int = int_of_z (measure c.c_kind h.h_val)
(* value of a series as printed in concurrent observations: counter value, signed gauge value, histogram count/sum/buckets *)
let obs_val c (h : handle) : string =
  if c.c_kind = KHist then
    decimal_of_z h.h_val.v_cnt ^ "/" ^ decimal_of_z h.h_val.v_main ^ "/" ^ String.concat "_" (List.map decimal_of_z h.h_val.v_bk)
  else string_of_int (measure_int c h)

let observe (c : cfg) (setup : op list) (setup_out : res list) (progs : op list list) (x : sys) : string =
  let s = x.sh in
  let live = List.sort compare (List.concat (List.map (fun (_, id) ->
      match get_handle s id with Some h -> [(token_of_tuple h.h_tuple, obs_val c h, int_of_nat id)] | None -> []) s.smap)) in
  let seen = Hashtbl.create 8 in
  List.iter (fun (_, _, id) -> Hashtbl.replace seen id ()) live;
  let show (outs : res list) (ops : op list) : string =
    let parts = List.map2 (fun r o -> match r with
        | ResPanic -> "p" | ResU -> "e" | ResB true -> "1" | ResB false -> "0"
        | ResH RTomb -> "t"
        | ResH (RH id) ->
          let idn = int_of_nat id in
          Hashtbl.replace seen idn ();
          (match get_handle s id with
           | None -> "?"
           | Some h ->
             let cls = if in_map s id then "l" else if h.h_stale then "s" else "o" in
             let cls = (match o with OResolve t when not (tuple_eqb h.h_tuple t) -> "X" | _ -> cls) in
             cls ^ obs_val c h)) outs ops in
    if parts = [] then "-" else String.concat "." parts in
  let sp = "S=" ^ show setup_out setup in
  let tps = List.mapi (fun i (th, p) -> "T" ^ string_of_int i ^ "=" ^ show (List.rev th.t_out) p)
      (List.combine x.ths progs) in
  (* the setup thread's results were cut off the worker threads' outputs by the caller *)
  let acc = Hashtbl.fold (fun id () a -> match get_handle s (nat_of_int id) with
      | Some h -> a + measure_int c h | None -> a) seen 0 in
  let acc = acc + int_of_z s.drops + int_of_z s.unknown + int_of_z s.stales in
  let total = List.fold_left (fun a p -> a + int_of_z (prog_weight c.c_kind p)) 0 (setup :: progs) in
  "m=" ^ String.concat "+" (List.map (fun (t, v, _) -> t ^ ":" ^ v) live) ^
  ";c=" ^ decimal_of_z s.cnt ^ ";d=" ^ decimal_of_z s.drops ^ ";u=" ^ decimal_of_z s.unknown ^
  ";s=" ^ decimal_of_z s.stales ^ ";lost=" ^ string_of_int (if c.c_kind = KGauge then 0 else total - acc) ^ ";" ^ String.concat ";" (sp :: tps)

(* property monitor over an observation string: list of violated clauses *)
let monitor (cap : int) (obs : string) : string list =
  let fields = String.split_on_char ';' obs in
  let get k = List.fold_left (fun a f ->
      let kl = String.length k in
      if String.length f > kl && String.sub f 0 (kl + 1) = k ^ "=" then String.sub f (kl + 1) (String.length f - kl - 1) else a) "" fields in
  let m = get "m" in
  let nseries = if m = "" then 0 else List.length (String.split_on_char '+' m) in
  let results = List.concat (List.map (fun f ->
      if String.length f > 1 && (f.[0] = 'T' || f.[0] = 'S') && String.contains f '=' then
        String.split_on_char '.' (String.sub f (String.index f '=' + 1) (String.length f - String.index f '=' - 1))
      else []) fields) in
  let has ch = List.exists (fun r -> String.length r > 0 && r.[0] = ch) results in
  (if has 'o' then ["orphan"] else []) @ (if has 'X' then ["alias"] else []) @
  (if cap > 0 && nseries > cap then ["overcap"] else []) @
  (if get "c" <> string_of_int nseries then ["drift"] else []) @
  (if get "lost" <> "0" then ["lost"] else [])

exception Too_big
let reachable (c : cfg) (setup : op list) (progs : op list list) (limit : int) : (string, unit) Hashtbl.t =
  (* setup runs alone first *)
  let (s0, th0) = run_thread (nat_of_int (16 * (List.length setup + 1))) c shared0 (thread0 setup) in
  let setup_out = List.rev th0.t_out in
  let base = th0.t_slots in
  let x0 = { sh = s0; ths = List.map (fun p -> { t_pc = PIdle; t_prog = p; t_slots = base; t_out = []; t_asked = []; t_cur = None; t_acct = []; t_vacct = [] }) progs } in
  let visited : (string, unit) Hashtbl.t = Hashtbl.create 65536 in
  let finals : (string, unit) Hashtbl.t = Hashtbl.create 64 in
  let stack = Stack.create () in
  (* the clients' ghost bookkeeping does not influence any step: leave it out of the state identity *)
  let key (x : sys) = Marshal.to_string { x with ths = List.map (fun th -> { th with t_asked = []; t_cur = None; t_acct = []; t_vacct = [] }) x.ths } [Marshal.No_sharing] in
  let push x = let k = key x in
    if not (Hashtbl.mem visited k) then begin
      Hashtbl.add visited k ();
      if Hashtbl.length visited > limit then raise Too_big;
      Stack.push x stack end in
  push x0;
  let n = List.length progs in
  while not (Stack.is_empty stack) do
    let x = Stack.pop stack in
    if quiescent x then Hashtbl.replace finals (observe c setup setup_out progs x) ()
    else
      List.iteri (fun i th -> if not (finished th) then push (sys_step c x (nat_of_int i))) x.ths;
    ignore n
  done;
  if Sys.getenv_opt "VERIF_C20_STATS" <> None then Printf.eprintf "states=%d finals=%d\n%!" (Hashtbl.length visited) (Hashtbl.length finals);
  finals

let run_conc (f : string list) (impl : string) (variant : string) : string =
  match f with
  | _ :: kind :: cap :: nl :: _rounds :: _noise :: setup :: progs ->
    let capi = int_of_string cap in
    let setup = parse_prog setup and progs = List.map parse_prog progs in
    let limit = 3_000_000 in
    (try
      let rd = if variant = "defective" then reachable (mk_cfg kind capi (int_of_string nl) [z_of_int 1; z_of_int 5] "defective") setup progs limit
        else Hashtbl.create 1 in
      let ok = if variant = "defective" then (fun o -> Hashtbl.mem rd o)
        else begin
          let rr = reachable (mk_cfg kind capi (int_of_string nl) [z_of_int 1; z_of_int 5] "repaired") setup progs limit in
          let capeff = if capi = 0 then !dcap_reported else capi in
          (* sanity: the theorems say the repaired machine never produces a monitor violation *)
          Hashtbl.iter (fun o () -> if monitor capeff o <> [] then failwith ("MODELBUG repaired machine violates monitor: " ^ o)) rr;
          (* /repo implements the repaired algorithm: ONLY its reachable observations are admissible *)
          (fun o -> Hashtbl.mem rr o)
        end in
      let body = if String.length impl >= 5 && String.sub impl 0 5 = "conc " then String.sub impl 5 (String.length impl - 5) else impl in
      let obs = List.filter (fun s -> s <> "") (List.map String.trim (Str.split (Str.regexp_string " | ") body)) in
      if obs = [] then "conc NOOBS(" ^ impl ^ ")" else
      "conc " ^ String.concat " | " (List.map (fun o -> if ok o then o else "INADMISSIBLE(" ^ o ^ ")") obs)
    with Too_big -> "conc TOOBIG" | Failure m -> "conc " ^ m)
  | _ -> "badline"

(* ---------------------------------------------------------------- concurrent registration
   reg <cap> <rounds> <noise> <pre> <name@kind@nlabels@prog>...
   Registration steps touch only the registry map, metric steps only the metric object, and a goroutine's metric
   operations come after its own registration.  As long as all "ok" registrants of a name share one object (which is
   what the registration machine does, theorem C20_reg_unique) the reachable quiescent observations of a name are
   exactly: (reachable outcome of the registration machine) x (reachable observation of the metric machine run with the
   programs of the goroutines that were told ok).  An implementation that hands out two objects for one name produces
   observations (reg=2,0 / class O / lost>0) outside this set. *)
let reach_cache : (string, (string, unit) Hashtbl.t) Hashtbl.t = Hashtbl.create 16
let reachable_memo c progs limit =
  let k = Marshal.to_string (c, progs) [Marshal.No_sharing] in
  match Hashtbl.find_opt reach_cache k with
  | Some r -> r
  | None -> let r = reachable c [] progs limit in Hashtbl.add reach_cache k r; r

let show_rres = function RROk _ -> "ok" | RRErrType -> "etype" | RRErrSchema -> "eschema" | RRPanic -> "panic"
let kind_tok = function KCounter -> "c" | KGauge -> "g" | KHist -> "h"

(* all quiescent outcomes of the registration machine: (result per thread, object the registry ends up with) *)
let reg_outcomes (v : variant) (pre : ropts option) (os : ropts list) : ((rres list * robj option), unit) Hashtbl.t =
  let s0 = match pre with
    | None -> rshared0
    | Some o -> let (s1, t1) = rstep v rshared0 (rthread0 o) in let (s2, _) = rstep v s1 t1 in s2 in
  let x0 = { rsh = s0; rths = List.map rthread0 os } in
  let name = (List.hd os).ro_name in
  let visited = Hashtbl.create 256 and finals = Hashtbl.create 16 in
  let rec go x =
    let k = Marshal.to_string x [Marshal.No_sharing] in
    if not (Hashtbl.mem visited k) then begin
      Hashtbl.add visited k ();
      if rdone_all x then begin
        let res = List.map (fun th -> match th.rt_pc with RPDone r -> r | _ -> RRPanic) x.rths in
        let obj = match map_load x.rsh.rmap name with
          | Some id -> nth_error x.rsh.robjs id | None -> None in
        Hashtbl.replace finals (res, obj) ()
      end else
        List.iteri (fun i th -> match th.rt_pc with RPDone _ -> () | _ -> go (rsys_step v x (nat_of_int i))) x.rths
    end in
  go x0; finals

let split_on_str sep s = Str.split (Str.regexp_string sep) s

let run_reg (f : string list) (impl : string) (variant : string) : string =
  match f with
  | _ :: cap :: _rounds :: _noise :: pre :: ths ->
    let capi = int_of_string cap in
    let capeff = if capi = 0 then !dcap_reported else capi in
    let parsed = List.mapi (fun i tok -> match String.split_on_char '@' tok with
        | [name; kind; nl; prog] ->
          (* label-name list: "<n>" = l0..l(n-1), "L1.0" = the listed indices in that order *)
          let labels = if String.length nl > 0 && nl.[0] = 'L'
            then List.map int_of_string (String.split_on_char '.' (String.sub nl 1 (String.length nl - 1)))
            else List.init (int_of_string nl) (fun i -> i) in
          (i, name, kind, labels, parse_prog prog)
        | _ -> failwith "bad reg thread") ths in
    let names = List.sort_uniq compare (List.map (fun (_, n, _, _, _) -> n) parsed) in
    let limit = 3_000_000 in
    let rv = if variant = "defective" then Defective else Repaired in
    (try
      let sets = List.map (fun name ->
          let mine = List.filter (fun (_, n, _, _, _) -> n = name) parsed in
          let opts_of (_, n, k, nl, _) = { ro_name = n_of_int (Char.code n.[0]); ro_kind = kind_of k; ro_nl = List.map nat_of_int nl } in
          let os = List.map opts_of mine in
          let preo = if pre = "1" then Some (List.hd os) else None in
          let outs = reg_outcomes rv preo os in
          let set : (string, unit) Hashtbl.t = Hashtbl.create 64 in
          Hashtbl.iter (fun (res, obj) () ->
              let tfield gi r extra = "T" ^ string_of_int gi ^ "=" ^ show_rres r ^ (if extra = "" || extra = "-" then "" else "." ^ extra) in
              match obj with
              | None ->
                let ts = List.map2 (fun (gi, _, _, _, _) r -> tfield gi r "") mine res in
                Hashtbl.replace set (name ^ ":reg=0,1;m=;c=0;d=0;u=0;s=0;lost=0;" ^ String.concat ";" ts) ()
              | Some o ->
                let progs = List.map2 (fun (_, _, _, _, p) r -> match r with RROk _ -> p | _ -> []) mine res in
                let mk v = mk_cfg (kind_tok o.rb_kind) capi (List.length o.rb_nl) [z_of_int 1; z_of_int 5] v in
                let rr = reachable_memo (mk "repaired") progs limit in
                let rd = if variant = "defective" then reachable_memo (mk "defective") progs limit else Hashtbl.create 1 in
                let add o' =
                  (* o' = m=..;c=..;d=..;u=..;s=..;lost=..;S=-;T0=..;T1=.. with local thread numbers *)
                  let fields = String.split_on_char ';' o' in
                  let head = List.filter (fun x -> not (String.length x > 1 && (x.[0] = 'T' || x.[0] = 'S') && String.contains x '=' && x.[1] <> '=' || (String.length x > 1 && x.[0] = 'S' && x.[1] = '='))) fields in
                  let head = List.filter (fun x -> not (String.length x > 1 && x.[0] = 'T')) head in
                  let tvals = List.filter_map (fun x ->
                      if String.length x > 1 && x.[0] = 'T' then
                        let e = String.index x '=' in
                        Some (int_of_string (String.sub x 1 (e - 1)), String.sub x (e + 1) (String.length x - e - 1))
                      else None) fields in
                  let ts = List.mapi (fun li ((gi, _, _, _, _), r) ->
                      tfield gi r (try List.assoc li tvals with Not_found -> "")) (List.combine mine res) in
                  Hashtbl.replace set (name ^ ":reg=1,1;" ^ String.concat ";" (head @ ts)) () in
                Hashtbl.iter (fun o' () -> add o') rr;
                if variant = "defective" then Hashtbl.iter (fun o' () -> add o') rd) outs;
          set) names in
      let body = if String.length impl >= 4 && String.sub impl 0 4 = "reg " then String.sub impl 4 (String.length impl - 4) else impl in
      let obs = List.filter (fun s -> s <> "") (List.map String.trim (split_on_str " | " body)) in
      if obs = [] then "reg NOOBS(" ^ impl ^ ")" else
      let ok o =
        let parts = List.map String.trim (split_on_str " # " o) in
        List.length parts = List.length sets && List.for_all2 (fun p set -> Hashtbl.mem set p) parts sets in
      "reg " ^ String.concat " | " (List.map (fun o -> if ok o then o else "INADMISSIBLE(" ^ o ^ ")") obs)
    with Too_big -> "reg TOOBIG" | Failure m -> "reg " ^ m)
  | _ -> "badline"

let () =
  let lines = read_lines Sys.argv.(1) in
  let impl = if Array.length Sys.argv > 2 && Sys.argv.(2) <> "-" then read_lines Sys.argv.(2) else [] in
  let variant = if Array.length Sys.argv > 3 then Sys.argv.(3) else "repaired" in
  let impl_arr = Array.of_list impl in
  (try List.iter (fun l -> List.iter (fun t ->
       if String.length t > 5 && String.sub t 0 5 = "dcap=" then begin
         let v = int_of_string (String.sub t 5 (String.length t - 5)) in
         if v >= 1 then (dcap_reported := v; raise Exit) end) (tokens l)) impl with Exit -> () | _ -> ());
  List.iteri (fun i line ->
    let f = tokens line in
    let il = if i < Array.length impl_arr then impl_arr.(i) else "" in
    let out = try
        (match f with
         | [] -> ""
         | "seq" :: _ -> run_seq f il variant
         | ("conc" | "rconc") :: _ -> run_conc f il variant
         | ("reg" | "rreg") :: _ -> run_reg f il variant
         | "probe" :: _ -> if !dcap_reported >= 1 && il = Printf.sprintf "probe dcap=%d" !dcap_reported then il else "probe dcap=<positive>"
         | ("bulk" | "rbulk") :: _ :: cap :: nspec :: g :: _ ->
           (* bulk <kind> <cap> <n | +k> <g>: n distinct tuples (or k more than the package's default cap) resolved and emitted to
              once by g goroutines on a metric registered with MaxSeriesPerMetric = cap (0 = left at its zero value).  The VALUE
              of the default cap is the implementation's choice (the harness reports its exported constant as dcap; any positive
              value is admissible).  Too many series for exploration; admissible is what the theorems allow at quiescence:
              series <= effective cap (C20_conc_cap / C20_default_cap), seriesCount = series, every one of the n emissions in
              its own series (value 1 each) or a cardinality drop through a tombstone, nothing unknown or stale.  Sequentially
              (g = 1) the machine is deterministic: exactly min(n, effective cap) series. *)
           let get k = (try Scanf.sscanf (List.find (fun t -> String.length t > String.length k && String.sub t 0 (String.length k + 1) = k ^ "=")
                                            (tokens il)) (Scanf.format_from_string (k ^ "=%d") "%d") (fun x -> x) with _ -> -1) in
           let dcap = get "dcap" and n = get "n" and g = int_of_string g in
           let plus = String.length nspec > 0 && nspec.[0] = '+' in
           let kx = int_of_string (if plus then String.sub nspec 1 (String.length nspec - 1) else nspec) in
           let n_ok = dcap >= 1 && (if plus then n = dcap + kx else n = kx) in
           let capz = int_of_z (eff_cap_with (z_of_int (max dcap 1)) (z_of_int (int_of_string cap))) in
           let series = get "series" and drops = get "drops" and tombs = get "tombs" and sum = get "sum" and cnt = get "count"
           and unk = get "unknown" and st = get "stale" in
           let early = get "early" in
           let expect = if capz > 0 then min n capz else n in
           let zi = z_of_int in
           (* admissibility = the extracted Gallina predicate Model.bulk_ok (C20_bulk_ok_exact) — for every g *)
           let ok = n_ok && n >= 0 &&
                    bulk_ok (zi capz) (zi n) (zi series) (zi drops) (zi tombs) (zi sum) (zi cnt) (zi unk) (zi st) (zi early) in
           ignore g;
           if ok then il else
           Printf.sprintf "bulk n=%d dcap=%d series=%d drops=%d tombs=%d sum=%d count=%d unknown=0 stale=0 early=0"
             (if plus then max dcap 1 + kx else kx) (max dcap 1) expect (n - expect) (n - expect) expect expect
         | ("churn" | "rchurn") :: _ ->
           (* Arbitrarily long unregister / re-create / emit loops: no exploration, the theorems decide.  For EVERY program
              list and schedule of the repaired machine a quiescent state has no orphan (C20_conc_no_orphan), every handle
              outside the map is stale (C20_conc_removed_is_stale), |series| <= cap and seriesCount exact (C20_conc_cap) and
              conservation holds (C20_conc_conservation): the monitor's counters are all 0.  The pre-fix machine can orphan,
              lose, drift and overshoot but never aliases tuples. *)
           let zero = "churn orphans=0 lost=0 overcap=0 drift=0 alias=0" in
           if variant = "defective" && il <> zero && String.length il > 6 && String.sub il 0 6 = "churn " &&
              (let n = String.length il in n >= 7 && String.sub il (n - 7) 7 = "alias=0") then il else zero
         | _ -> "badline")
      with e -> "DRIVERERROR " ^ Printexc.to_string e in
    print_endline out) lines
