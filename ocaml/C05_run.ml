(* C05 driver: one case (= one whole history) per input line, one result line per case.
   case:   <kind> <maxConf|d> <maxTerm|d> <op> <op> ...            (sequential history)
           conc <maxConf|d> <maxTerm|d> <op> ... / <gate> <opA> <opB>  (forced overlap, see harness)
           kind = fsm (mock option handler, proto LCP) | ncp (mock handler, proto IPCP)
                  | lcp | ipcp | ipv6cp (real handlers)
           op   = U | D | O | C | T (timerFired, current generation) | X (timerFired, superseded generation)
                  | Y (exported Timeout()) | F (conc only: timerFired with the generation current before A)
                  | R (Restore) | K (Kill) | I<code>.<id>.<cls>.<dlen>[.<hex data>]
                  id  = c (current lastReqID) | s (lastReqID+1) | p (lastReqID-1) | x<mask> (lastReqID xor mask) | decimal
                  cls = g | n | r | b | m     (handler's answer to a Configure-Request; m = data does not parse)
                  data = the hex bytes if given, else <dlen> bytes a0 a1 ...
   result: per op   <state>/<restartCount>/<armed>/<lastReqID>/<failCount>:<actions>:<handler call>
           actions = comma separated  scr.<id>.<hex content> sca.<id>.<tag> scn. srj. str. sta. scj. ser. tlu tld tls tlf | -
           handler call = R|A|N|J (ProcessConfReq/Ack/Nak/Rej) followed by the hex of the options passed | -
           a conc case prints the prefix steps, one combined step for the pair, then "alt=ok term=ok".
   argv[2] = the implementation's output (MODEL_NEEDS_IMPL): the Identifier choices are taken from it - in order, the Identifiers of the packets
             the automaton originated (scr / str / scj tokens).  The model runs with that Identifier policy and
             checks that it is ADMISSIBLE: a Configure-Request that is not a retransmission must not repeat the
             Identifier of the previous one, and a Code-Reject must not repeat that of the previous Code-Reject
             (RFC 1661 5.1, 5.6); otherwise it prints INADMISSIBLE=<why> in that step.  Every other observable
             is the model's own.  Without an implementation file the policy of /repo HEAD (f.id++ from 0) is used.
   argv[3] = variant: repaired | lns_down_unfixed (kind lns only: internal/l2tp onLCPDown does not take the NCPs
             Down - finding lns-lcp-down-ncp-down) | echo_unfixed (historical, before 1b41d89).
   Every step of the repaired variant is also re-checked against the RFC table by the extracted
   [conformsb] (guards the extraction); a failure prints MODELBUG. *)
let z_of_int (i : int) : z = if i = 0 then Z0 else if i > 0 then Zpos (pos_of_int i) else Zneg (pos_of_int (-i))
let int_of_z (x : z) : int = match x with Z0 -> 0 | Zpos p -> int_of_pos p | Zneg p -> - (int_of_pos p)
let zbytes_of_hex (t : string) : z list =
  List.init (String.length t / 2) (fun i -> z_of_int (int_of_string ("0x" ^ String.sub t (2*i) 2)))
let hex_of_zbytes (l : z list) : string =
  if l = [] then "-" else String.concat "" (List.map (fun x -> Printf.sprintf "%02x" (int_of_z x land 255)) l)

let cls_of = function "g" -> CGood | "n" -> CNak | "r" -> CRej | "b" -> CBoth | "m" -> CMalformed
                    | s -> failwith ("cls " ^ s)

let show_act mock kindn log edata a =
  let t x = if mock then x else "*" in
  let p name id tag = Printf.sprintf "%s.%d.%s" name (int_of_z id) tag in
  match a with
  | Irc | Zrc -> None
  | Scr i -> Some (p "scr" i (hex_of_zbytes (confreq_content kindn log)))
  | Sca i -> Some (p "sca" i (t (hex_of_zbytes (serialize (match parse_opts edata with Some o -> o | None -> [])))))
  | Scn i -> Some (p "scn" i (t "010405dc"))
  | Screj i -> Some (p "srj" i (t "0702"))
  | Str i -> Some (p "str" i "-")
  | Sta i -> Some (p "sta" i "-")
  | Scj (i, rc, ri) ->
    (* the Length field the peer sent is kept; the quoted copy is the whole packet or, RFC 1661 5.6, cut to the MRU *)
    Some (p "scj" i (Printf.sprintf "%d-%d-%d-%d" (int_of_z rc) (int_of_z ri) (List.length edata)
                       (min (4 + List.length edata) 1488)))
  | Ser i -> Some (p "ser" i (hex_of_zbytes edata))
  | Tlu -> Some "tlu" | Tld -> Some "tld" | Tls -> Some "tls" | Tlf -> Some "tlf"

let show_hcall = function
  | HReq o -> "R" ^ hex_of_zbytes (serialize o)
  | HAck o -> "A" ^ hex_of_zbytes (serialize o)
  | HNak o -> "N" ^ hex_of_zbytes (serialize o)
  | HRej o -> "J" ^ hex_of_zbytes (serialize o)

let filter_map f l = List.fold_right (fun x acc -> match f x with Some y -> y :: acc | None -> acc) l []
(* Identifier-policy admissibility: the extracted Adm.adm_item, one fold per automaton.  [adm_feed st retx acts]
   feeds the event marker and the actions of one step; returns the INADMISSIBLE tokens (empty when admissible). *)
let adm_feed (st : adm ref) (retx : bool) (acts : act list) : string list =
  let bad = ref [] in
  let feed it = match adm_item !st it with
    | Some a -> st := a
    | None ->
      bad := (match it with
              | IAct (Scr _) -> "INADMISSIBLE=Configure-Request-Identifier-used-by-a-recent-request"
              | _ -> "INADMISSIBLE=Code-Reject-repeats-Identifier") :: !bad in
  feed (IEv (if retx then ETimeout else EUp));
  List.iter (fun a -> feed (IAct a)) acts;
  List.rev !bad

let rec take k l = if k <= 0 then [] else match l with x :: r -> x :: take (k-1) r | [] -> []
let rec split_at x = function
  | [] -> ([], None)
  | y :: r when y = x -> ([], Some r)
  | y :: r -> let (a, b) = split_at x r in (y :: a, b)

let () =
  let lines = read_lines Sys.argv.(1) in
  let impl_lines = if Array.length Sys.argv > 2 && Sys.argv.(2) <> "-" then read_lines Sys.argv.(2) else [] in
  let impl_tbl = Array.of_list impl_lines in
  let line_no = ref (-1) in
  let echo_fixed = not (Array.length Sys.argv > 3 && Sys.argv.(3) = "echo_unfixed") in
  let lns_down_fixed = not (Array.length Sys.argv > 3 && Sys.argv.(3) = "lns_down_unfixed") in
  let vname = "repaired" in
  let v = { fix_cells = true; fix_ncp = true } in
  let restore_fixed = true in
  List.iter (fun line ->
    incr line_no;
    let impl = if !line_no < Array.length impl_tbl then impl_tbl.(!line_no) else "" in
    (* Identifier choices of the implementation *)
    let itoks = tokens impl in
    let id0 = match itoks with
      | t :: _ when String.length t > 4 && String.sub t 0 4 = "id0=" ->
        (try int_of_string (String.sub t 4 (String.length t - 4)) land 255 with _ -> 0)
      | _ -> 0 in
    let chosen =
      List.concat_map (fun tok ->
        match String.split_on_char ':' tok with
        | [_; acts; _] ->
          filter_map (fun a -> match String.split_on_char '.' a with
            | ("scr" | "str" | "scj") :: id :: _ -> (try Some (int_of_string id land 255) with _ -> None)
            | _ -> None) (String.split_on_char ',' acts)
        | _ -> []) itoks |> Array.of_list in
    let pick (k : nat) : z =
      let k = int_of_nat k in
      if k < Array.length chosen then z_of_int chosen.(k)
      else begin
        (* beyond what the implementation sent: continue its sequence by +1 *)
        let base = if Array.length chosen = 0 then id0 else chosen.(Array.length chosen - 1) in
        z_of_int ((base + (k - Array.length chosen) + 1) land 255)
      end in
    match tokens line with
    | "disp" :: ops ->
      (* the three-automaton system behind Dispatcher.HandleFrame (Disp.v):
         A<L|I|V><U|O|D|C>  administrative call on one automaton
         F<phase>.<proto hex>.<code>.<id|c|s>.<cls>.<data hex|->.<declared length|a>.<extra hex|->
         S<phase>.<proto hex>.<raw payload hex|->
         per op:  <lcp state>/<ipcp state>/<ipv6cp state>:<events>:<error>                                  *)
      (try
        let c = default_cfg and v = { fix_cells = true; fix_ncp = true } in
        (* Identifier choices per automaton, from the implementation's line *)
        let chosen_of tag =
          List.concat_map (fun tok ->
            match String.split_on_char ':' tok with
            | [_; acts; _] ->
              filter_map (fun a -> match String.split_on_char '.' a with
                | t :: ("scr" | "str" | "scj") :: id :: _ when t = tag ->
                  (try Some (int_of_string id land 255) with _ -> None)
                | _ -> None) (String.split_on_char ',' acts)
            | _ -> []) itoks |> Array.of_list in
        let pick_of tag =
          let ch = chosen_of tag in
          fun (k : nat) ->
            let k = int_of_nat k in
            if k < Array.length ch then z_of_int ch.(k)
            else z_of_int (((if Array.length ch = 0 then 0 else ch.(Array.length ch - 1)) + (k - Array.length ch) + 1) land 255) in
        let s = ref (sys_init (pick_of "L") (pick_of "I") (pick_of "V")) in
        let adm_l = ref adm0 and adm_i = ref adm0 and adm_v = ref adm0 in
        let adm_of = function TLcp -> adm_l | TIpcp -> adm_i | _ -> adm_v in
        let phase_of = function 0 -> PhDead | 1 -> PhEstablish | 2 -> PhAuthenticate | 3 -> PhNetwork | 4 -> PhOpen
                              | 5 -> PhTerminate | 6 -> PhLACTunnelPending | _ -> PhLACTunneled in
        let tag_of = function TLcp -> "L" | TIpcp -> "I" | TIp6 -> "V" | TNone -> "" in
        let get t (s : sys) = match t with TLcp -> s.s_lcp | TIpcp -> s.s_ipcp | _ -> s.s_ip6 in
        let kindn_of = function TLcp -> 1 | TIpcp -> 2 | _ -> 3 in
        let events_of t edata =
          if t = TNone then [] else
          let f = get t !s in
          List.map (fun a -> tag_of t ^ "." ^ a)
            (filter_map (show_act false (z_of_int (kindn_of t)) f.hlog edata) (outs f))
          @ adm_feed (adm_of t) false (outs f) in
        let zhex l = hex_of_zbytes l in
        let outl = List.map (fun op ->
          let (evs, err) =
            if String.length op = 3 && op.[0] = 'A' then begin
              let t = match op.[1] with 'L' -> TLcp | 'I' -> TIpcp | 'V' -> TIp6 | _ -> failwith "target" in
              let e = match op.[2] with 'U' -> EUp | 'O' -> EOpen | 'D' -> EDown | 'C' -> EClose | _ -> failwith "admin" in
              s := admin c v t e !s;
              (events_of t [], "-")
            end else begin
              let p = String.split_on_char '.' (String.sub op 1 (String.length op - 1)) in
              let ph = phase_of (int_of_string (List.nth p 0)) in
              let proto = int_of_string ("0x" ^ List.nth p 1) in
              let (payload, k) =
                if op.[0] = 'S' then ((if List.nth p 2 = "-" then [] else zbytes_of_hex (List.nth p 2)), CGood)
                else begin
                  let code = int_of_string (List.nth p 2) in
                  let tgt = if proto = 0xc021 then Some TLcp else if proto = 0x8021 then Some TIpcp
                            else if proto = 0x8057 then Some TIp6 else None in
                  let last = match tgt with Some t -> int_of_z (get t !s).lastReq | None -> 0 in
                  let id = match List.nth p 3 with "c" -> last | "s" -> (last + 1) land 255 | x -> int_of_string x land 255 in
                  let data = if List.nth p 5 = "-" then [] else zbytes_of_hex (List.nth p 5) in
                  let extra = if List.nth p 7 = "-" then [] else zbytes_of_hex (List.nth p 7) in
                  let dl = if List.nth p 6 = "a" then 4 + List.length data else int_of_string (List.nth p 6) in
                  (List.map z_of_int [code; id; (dl lsr 8) land 255; dl land 255] @ data @ extra, cls_of (List.nth p 4))
                end in
              (match payload with
               | c0 :: _ :: a :: b :: rest when int_of_z c0 = 1 ->
                 let dl = int_of_z a * 256 + int_of_z b in
                 if dl >= 4 && dl <= List.length payload && ((parse_opts (take (dl - 4) rest) = None) <> (k = CMalformed))
                 then failwith "cls/data"
               | _ -> ());
              let r = handle_frame c v ph (z_of_int proto) payload k !s in
              s := r.d_sys;
              let fdata = match payload with _ :: _ :: _ :: _ :: rest -> rest | _ -> [] in
              (* the data the automaton saw: cut by the declared length *)
              let dl = match payload with _ :: _ :: a :: b :: _ -> int_of_z a * 256 + int_of_z b | _ -> 4 in
              let edata = take (dl - 4) fdata in
              let host = List.map (function
                | HPap (cd, i, d) -> Printf.sprintf "pap.%d.%d.%s" (int_of_z cd) (int_of_z i) (zhex d)
                | HChap (cd, i, d) -> Printf.sprintf "chap.%d.%d.%s" (int_of_z cd) (int_of_z i) (zhex d)
                | HEchoReq (i, d) -> Printf.sprintf "echoreq.%d.%s" (int_of_z i) (zhex d)
                | HEchoRep (i, d) -> Printf.sprintf "echorep.%d.%s" (int_of_z i) (zhex d)
                | HProtoRej pr -> Printf.sprintf "protorej.%04x" (int_of_z pr)
                | HSendProtoRej (pr, pl) -> Printf.sprintf "sendprotorej.%04x.%s" (int_of_z pr) (zhex pl)
                | HIPv6 pl -> "ipv6." ^ zhex pl) r.d_host in
              (events_of r.d_target edata @ host,
               match r.d_err with None -> "-" | Some ErrFrameShort -> "short" | Some ErrFrameLengthMismatch -> "len")
            end in
          Printf.sprintf "%d/%d/%d:%s:%s" (int_of_z (st_num (!s).s_lcp.st0)) (int_of_z (st_num (!s).s_ipcp.st0))
            (int_of_z (st_num (!s).s_ip6.st0)) (if evs = [] then "-" else String.concat "," evs) err) ops in
        print_endline (if outl = [] then "empty" else String.concat " " outl)
      with Failure m -> print_endline ("badcase " ^ m) | Not_found -> print_endline "badcase nth")
    | ("sess" | "lns" as skind) :: pool :: ops ->
      (* the session layer (Sess.v):  UP | F<proto hex>.<code>.<id|c|s>.<cls>.<data hex|-> | AUTH+ | AUTH- | TL | TI | TV
         | CLOSE | TERM;  per op  <phase>/<lcp>/<ipcp>/<ipv6cp>/<ipcpOpen><ipv6cpOpen><linkEnded>:<events>          *)
      (try
        let v = { fix_cells = true; fix_ncp = true } in
        let chosen_of tag =
          List.concat_map (fun tok ->
            match String.split_on_char ':' tok with
            | [_; acts] ->
              filter_map (fun a -> match String.split_on_char '.' a with
                | t :: ("scr" | "str" | "scj") :: id :: _ when t = tag ->
                  (try Some (int_of_string id land 255) with _ -> None)
                | _ -> None) (String.split_on_char ',' acts)
            | _ -> []) itoks |> Array.of_list in
        let pick_of tag =
          let ch = chosen_of tag in
          fun (k : nat) ->
            let k = int_of_nat k in
            if k < Array.length ch then z_of_int ch.(k)
            else z_of_int (((if Array.length ch = 0 then 0 else ch.(Array.length ch - 1)) + (k - Array.length ch) + 1) land 255) in
        let is_lns = (skind = "lns") in
        let c = { s_cfg = default_cfg; has_v4 = (pool <> "0"); echo_fixed = echo_fixed; lns = is_lns;
                  lns_down_fixed = lns_down_fixed } in
        let s = ref (sess_init (pick_of "L") (pick_of "I") (pick_of "V")) in
        let adm_l = ref adm0 and adm_i = ref adm0 and adm_v = ref adm0 in
        let adm_of = function TLcp -> adm_l | TIpcp -> adm_i | _ -> adm_v in
        let tag_of = function TLcp -> "L" | TIpcp -> "I" | TIp6 -> "V" | TNone -> "" in
        let phase_num = function PhDead -> 0 | PhEstablish -> 1 | PhAuthenticate -> 2 | PhNetwork -> 3 | PhOpen -> 4
                               | PhTerminate -> 5 | PhLACTunnelPending -> 6 | PhLACTunneled -> 7 in
        let show = function
          | OFsm (t, a) ->
            (match a with
             | Scr i -> Some (Printf.sprintf "%s.scr.%d" (tag_of t) (int_of_z i))
             | Sca i -> Some (Printf.sprintf "%s.sca.%d" (tag_of t) (int_of_z i))
             | Scn i -> Some (Printf.sprintf "%s.scn.%d" (tag_of t) (int_of_z i))
             | Screj i -> Some (Printf.sprintf "%s.srj.%d" (tag_of t) (int_of_z i))
             | Str i -> Some (Printf.sprintf "%s.str.%d" (tag_of t) (int_of_z i))
             | Sta i -> Some (Printf.sprintf "%s.sta.%d" (tag_of t) (int_of_z i))
             | Scj (i, _, _) -> Some (Printf.sprintf "%s.scj.%d" (tag_of t) (int_of_z i))
             | Ser i -> Some (Printf.sprintf "%s.ser.%d" (tag_of t) (int_of_z i))
             | _ -> None)
          | OChap cd -> Some (Printf.sprintf "chap.%d" (int_of_z cd))
          | OEchoReply (i, tl) -> Some (Printf.sprintf "echoreply.%d.%s" (int_of_z i) (hex_of_zbytes tl))
          | OProtoRejSent p -> Some (Printf.sprintf "protorejsent.%04x" (int_of_z p))
          | OSessionOpen -> if is_lns then None else Some "open" in
        let started = ref false in
        let outl = List.map (fun op ->
          let xop =
            if op = "UP" then (started := true; XUp)
            else if not !started then failwith "not started"
            else if op = "AUTH+" then XAuth true else if op = "AUTH-" then XAuth false
            else if op = "TL" then XTimeout TLcp else if op = "TI" then XTimeout TIpcp else if op = "TV" then XTimeout TIp6
            else if op = "CLOSE" then XLcpClose else if op = "TERM" then XTerminate
            else if op.[0] = 'F' then begin
              match String.split_on_char '.' (String.sub op 1 (String.length op - 1)) with
              | [pr; code; id; cl; data] ->
                let proto = int_of_string ("0x" ^ pr) in
                let y = (!s).sy in
                let last = if proto = 0xc021 then int_of_z y.s_lcp.lastReq else if proto = 0x8021 then int_of_z y.s_ipcp.lastReq
                           else if proto = 0x8057 then int_of_z y.s_ip6.lastReq else 0 in
                let idv = match id with "c" -> last | "s" -> (last + 1) land 255 | x -> int_of_string x land 255 in
                let d = if data = "-" then [] else zbytes_of_hex data in
                let n = 4 + List.length d in
                XFrame (z_of_int proto, List.map z_of_int [int_of_string code; idv; (n lsr 8) land 255; n land 255] @ d, cls_of cl)
              | _ -> failwith "bad frame"
            end else failwith ("bad op " ^ op) in
          let (s1, outs1) = sess_step c v !s xop in
          s := s1;
          let tmo = match xop with XTimeout t -> Some t | _ -> None in
          let inadm = List.concat_map (fun t ->
              let acts = filter_map (function OFsm (t', a) when t' = t -> Some a | _ -> None) outs1 in
              if acts = [] then [] else adm_feed (adm_of t) (tmo = Some t) acts) [TLcp; TIpcp; TIp6] in
          let evs = filter_map show outs1 @ inadm in
          let b x = if x then 1 else 0 in
          Printf.sprintf "%d/%d/%d/%d/%d%d%d:%s" (phase_num s1.ph) (int_of_z (st_num s1.sy.s_lcp.st0))
            (int_of_z (st_num s1.sy.s_ipcp.st0)) (int_of_z (st_num s1.sy.s_ip6.st0))
            (b s1.ipcpOpen) (b s1.ip6Open) (b s1.linkEnded) (if evs = [] then "-" else String.concat "," evs)) ops in
        print_endline (if outl = [] then "empty" else String.concat " " outl)
      with Failure m -> print_endline ("badcase " ^ m))
    | kind0 :: mc :: mt :: ops ->
      (try
        let conc = (kind0 = "conc") in
        let kind = if conc then "fsm" else kind0 in
        let mock = (kind = "fsm" || kind = "ncp") in
        let is_lcp = (kind = "fsm" || kind = "lcp") in
        let kindn = z_of_int (match kind with "lcp" -> 1 | "ipcp" -> 2 | "ipv6cp" -> 3 | _ -> 0) in
        let c = { maxConf = (if mc = "d" then default_cfg.maxConf else z_of_int (int_of_string mc));
                  maxTerm = (if mt = "d" then default_cfg.maxTerm else z_of_int (int_of_string mt));
                  lcp = is_lcp } in
        let f = ref (init_id (z_of_int id0) pick) in
        let adm_st = ref adm0 in
        let all_items = ref [] in
        (* one event: returns (obs string, action strings, handler-call strings) *)
        let admin_op op =       (* Restore() / Kill() / stale timer fire / exported Timeout(): not events of the automaton *)
          let f' = match op with
            | "R" -> restore restore_fixed c !f
            | "K" -> kill !f
            | "X" -> clear_out !f            (* a superseded timer's fire is ignored *)
            | _ -> raw_timeout !f in         (* Y: Timeout() runs the timeout transition unconditionally *)
          let fy = f' in
          f := f';
          let inadm_admin = adm_feed adm_st (op = "Y") (outs fy) in
          all_items := !all_items @ List.map (fun a -> IAct a) (outs fy);
          let (((((s, r), a), l), i), fl) = obs f' in
          (Printf.sprintf "%d/%d/%d/%d/%d" (int_of_z s) (int_of_z r) (if a then 1 else 0)
             (int_of_z l) (int_of_z fl), filter_map (show_act mock kindn f'.hlog []) (outs fy) @ inadm_admin, []) in
        let rec do_op ?last op =
          if List.mem op ["R"; "K"; "X"; "Y"] then admin_op op else
          let e = match op with
            | "U" -> EUp | "D" -> EDown | "O" -> EOpen | "C" -> EClose | "T" -> ETimeout
            | _ when String.length op > 1 && op.[0] = 'I' ->
              (match String.split_on_char '.' (String.sub op 1 (String.length op - 1)) with
               | code :: id :: cl :: dlen :: rest ->
                 let last = match last with Some l -> l | None -> int_of_z (!f).lastReq in
                 let idv = match id with
                   | "c" -> last | "s" -> (last + 1) land 255 | "p" -> (last + 255) land 255
                   | s when String.length s > 1 && s.[0] = 'x' -> last lxor (int_of_string (String.sub s 1 (String.length s - 1)))
                   | s -> int_of_string s in
                 let data = match rest with
                   | [h] -> zbytes_of_hex h
                   | _ -> List.init (int_of_string dlen) (fun i -> z_of_int (0xa0 + i)) in
                 let k = cls_of cl in
                 if int_of_string code = 1 && ((parse_opts data = None) <> (k = CMalformed)) then failwith "cls/data";
                 EInput (z_of_int (int_of_string code), z_of_int idv, k, data)
               | _ -> failwith "bad input op")
            | _ -> failwith ("bad op " ^ op) in
          let f' = step c v !f e in
          let bug = (vname = "repaired") &&
                    not (conformsb c !f e f' && ids_okb !f e (outs f') &&
                         int_of_z f'.restart = int_of_z (counter_after c !f e (outs f'))) in
          (* admissibility of the Identifier choices made in this step (extracted predicate) *)
          let inadm = ref (adm_feed adm_st (e = ETimeout) (outs f')) in
          let ncalls = List.length f'.hlog - List.length (!f).hlog in
          let hc = List.rev_map show_hcall (take ncalls f'.hlog) in
          f := f';
          all_items := !all_items @ (IEv e :: List.map (fun a -> IAct a) (outs f'));
          let (((((s, r), a), l), i), fl) = obs f' in
          let edata = match e with EInput (_, _, _, d) -> d | _ -> [] in
          let acts = filter_map (show_act mock kindn f'.hlog edata) (outs f') @ (if bug then ["MODELBUG"] else []) @ !inadm in
          (Printf.sprintf "%d/%d/%d/%d/%d" (int_of_z s) (int_of_z r) (if a then 1 else 0)
             (int_of_z l) (int_of_z fl), acts, hc) in
        let fmt (o, acts, hc) =
          Printf.sprintf "%s:%s:%s" o (if acts = [] then "-" else String.concat "," acts)
            (if hc = [] then "-" else String.concat "," hc) in
        let is_note x = List.mem x ["tlu"; "tld"; "tls"; "tlf"] in
        let gate_hit gate x = match gate with "a" -> true | "s" -> not (is_note x) | "n" -> is_note x
                                            | "u" -> x = "tlu" | "d" -> x = "tld" | _ -> false in
        if not conc then begin
          let outl = List.map (fun op -> fmt (do_op op)) ops in
          print_endline (if outl = [] then "empty" else String.concat " " outl)
        end else begin
          match split_at "/" ops with
          | (prefix, Some [gate; a; b]) ->
            let pre = List.map (fun op -> fmt (do_op op)) prefix in
            let last0 = int_of_z (!f).lastReq in   (* both identifiers are resolved before A starts *)
            let f0 = !f in
            let (oa, aa, ha) = do_op a in
            let f1 = !f in
            (* F = the production callback of the timer generation that was current before A: a timeout
               iff A neither stopped nor restarted that timer *)
            let (ob, ab, hb) =
              if b = "F" then (if fire_still_valid f0 f1 then do_op "T" else (oa, [], []))
              else do_op ~last:last0 b in
            let alt = if alternates false !all_items then "alt=ok" else "alt=BAD" in
            let ov = if List.exists (gate_hit gate) aa then "ov=1" else "ov=0" in
            print_endline (String.concat " " (pre @ [fmt (ob, aa @ ab, ha @ hb); ov; alt; "term=ok"]))
          | _ -> failwith "bad conc case"
        end
      with Failure m -> print_endline ("badcase " ^ m))
    | _ -> print_endline "badline") lines
