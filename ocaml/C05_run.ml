(* C05 driver: one case (= one whole history) per input line, one result line per case.
   case:   <kind> <maxConf|d> <maxTerm|d> <op> <op> ...
           kind = fsm (mock option handler, proto LCP) | ncp (mock handler, proto IPCP)
                  | lcp | ipcp | ipv6cp (real handlers)
           op   = U | D | O | C | T | I<code>.<id>.<cls>.<dlen>
                  id  = c (current lastReqID) | s (lastReqID+1) | p (lastReqID-1) | decimal
                  cls = g | n | r | b | m     (handler's answer to a Configure-Request / malformed data)
   result: per op   <state>/<restartCount>/<armed>/<lastReqID>/<id>/<failCount>:<actions>
           actions = comma separated  scr.<id>.<tag> sca. scn. srj. str. sta. scj. ser. tlu tld tls tlf | -
   argv[3] = variant: repaired (both fix patches) | defective (fsm.go as it stands)
             | cells_unfixed (only the NCP patch applied) | ncp_unfixed (only the cells patch applied).
   Every step of the repaired variant is also re-checked against the RFC table by the extracted
   [conformsb] (guards the extraction); a failure prints MODELBUG. *)
let z_of_int (i : int) : z = if i = 0 then Z0 else if i > 0 then Zpos (pos_of_int i) else Zneg (pos_of_int (-i))
let int_of_z (x : z) : int = match x with Z0 -> 0 | Zpos p -> int_of_pos p | Zneg p -> - (int_of_pos p)

let cls_of = function "g" -> CGood | "n" -> CNak | "r" -> CRej | "b" -> CBoth | "m" -> CMalformed
                    | s -> failwith ("cls " ^ s)

let show_act mock a =
  let t x = if mock then x else "*" in
  let p name id tag = Printf.sprintf "%s.%d.%s" name (int_of_z id) tag in
  match a with
  | Irc | Zrc -> None
  | Scr i -> Some (p "scr" i (t "Q"))
  | Sca i -> Some (p "sca" i (t "A"))
  | Scn i -> Some (p "scn" i (t "N"))
  | Screj i -> Some (p "srj" i (t "R"))
  | Str i -> Some (p "str" i "-")
  | Sta i -> Some (p "sta" i "-")
  | Scj (i, _, _) -> Some (p "scj" i "P")
  | Ser i -> Some (p "ser" i "E")
  | Tlu -> Some "tlu" | Tld -> Some "tld" | Tls -> Some "tls" | Tlf -> Some "tlf"

let filter_map f l = List.fold_right (fun x acc -> match f x with Some y -> y :: acc | None -> acc) l []

let () =
  let lines = read_lines Sys.argv.(1) in
  let vname = if Array.length Sys.argv > 3 then Sys.argv.(3) else "repaired" in
  let v = match vname with
    | "defective" -> { fix_cells = false; fix_ncp = false }
    | "cells_unfixed" -> { fix_cells = false; fix_ncp = true }
    | "ncp_unfixed" -> { fix_cells = true; fix_ncp = false }
    | _ -> { fix_cells = true; fix_ncp = true } in
  List.iter (fun line ->
    match tokens line with
    | kind :: mc :: mt :: ops ->
      (try
        let mock = (kind = "fsm" || kind = "ncp") in
        let is_lcp = (kind = "fsm" || kind = "lcp") in
        let c = { maxConf = (if mc = "d" then default_cfg.maxConf else z_of_int (int_of_string mc));
                  maxTerm = (if mt = "d" then default_cfg.maxTerm else z_of_int (int_of_string mt));
                  lcp = is_lcp } in
        let f = ref init in
        let outl = List.map (fun op ->
          let e = match op with
            | "U" -> EUp | "D" -> EDown | "O" -> EOpen | "C" -> EClose | "T" -> ETimeout
            | _ when String.length op > 1 && op.[0] = 'I' ->
              (match String.split_on_char '.' (String.sub op 1 (String.length op - 1)) with
               | [code; id; cl; dlen] ->
                 let last = int_of_z (!f).lastReq in
                 let idv = match id with
                   | "c" -> last | "s" -> (last + 1) land 255 | "p" -> (last + 255) land 255
                   | s -> int_of_string s in
                 EInput (z_of_int (int_of_string code), z_of_int idv, cls_of cl, z_of_int (int_of_string dlen))
               | _ -> failwith "bad input op")
            | _ -> failwith ("bad op " ^ op) in
          let f' = step c v !f e in
          let bug = (vname = "repaired") &&
                    not (conformsb c !f e f' && ids_okb !f e (outs f') &&
                         int_of_z f'.restart = int_of_z (counter_after c !f e (outs f'))) in
          f := f';
          let (((((s, r), a), l), i), fl) = obs f' in
          let acts = filter_map (show_act mock) (outs f') in
          Printf.sprintf "%d/%d/%d/%d/%d/%d:%s%s" (int_of_z s) (int_of_z r) (if a then 1 else 0)
            (int_of_z l) (int_of_z i) (int_of_z fl)
            (if acts = [] then "-" else String.concat "," acts)
            (if bug then ",MODELBUG" else "")) ops in
        print_endline (if outl = [] then "empty" else String.concat " " outl)
      with Failure m -> print_endline ("badcase " ^ m))
    | _ -> print_endline "badline") lines
