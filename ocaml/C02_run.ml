(* C02 driver.  argv[1] = cases, argv[2] = implementation output (or "-"), argv[3] = variant.
   Case:  <cfg tokens> ; <op> ; <op> ...     (see harness/C02/zz_verif_c02_test.go for the grammar)
   For every op the model yields candidate successors (free-slot choice, Go map order); the driver follows
   the candidate whose rendering equals the implementation's segment, else the first one. *)
let nd = n_of_decimal
let dn = decimal_of_n
let opt_tok f t = if t = "-" then None else Some (f t)
let item_of_tok t = match String.split_on_char '/' t with
  | [a; l] -> (nd a, nd l) | _ -> failwith "bad prefix token"
let pow2 k = let rec go acc k = if k = 0 then acc else go (N.mul acc (n_of_int 2)) (k - 1) in go (n_of_int 1) k

type pinfo = { pf : fam; pkey : n; pprof : n }

let famch = function F4 -> "4" | F6 -> "6" | FD -> "D"
let same_names = ref false   (* cfg token NS: IPv6 profiles are named like the IPv4 ones, so pool names coincide across families *)
let profch = function F4 -> "p" | _ -> if !same_names then "p" else "q"
let pool_name f prof key = profch f ^ dn prof ^ "/k" ^ dn key
let sid_name s = "s" ^ dn s
let show_addr = function None -> "nil" | Some a -> dn a
let show_item = function None -> "nil" | Some (a, l) -> dn a ^ "/" ^ dn l
let mac_str m = let i = int_of_n m in Printf.sprintf "02:00:00:00:%02x:%02x" (i lsr 8) (i land 255)
let ip_str a = let i = int_of_n a in
  Printf.sprintf "%d.%d.%d.%d" ((i lsr 24) land 255) ((i lsr 16) land 255) ((i lsr 8) land 255) (i land 255)
let sorted l = List.sort compare l

let snap (st : state) =
  let ps = st.st_reg.pools in
  let ent p =
    let ls = sorted (List.map (fun (sl, s) -> dn sl ^ "=" ^ sid_name s) p.p_leases) in
    (* how many addresses the pool can still hand out (the implementation's Available()); which one an allocation
       returns is the implementation's choice, followed through the candidate list *)
    famch p.p_fam ^ ":" ^ pool_name p.p_fam p.p_prof p.p_key ^ ":L[" ^ String.concat "," ls ^ "]F["
    ^ string_of_int (List.length p.p_free) ^ "]" in
  String.concat " " (sorted (List.map ent ps))

let psnap (st : state) =
  let pr = st.st_prov in
  let pools = st.st_reg.pools in
  let pool_str = function
    | None -> ""
    | Some k -> (match List.find_opt (fun p -> p.p_fam = F4 && p.p_key = k) pools with
                 | Some p -> pool_name F4 p.p_prof k | None -> "?") in
  let obj id = List.assoc_opt id (List.map (fun (a, b) -> (a, b)) pr.objs) in
  let ms = List.filter_map (fun (m, id) -> match obj id with
      | Some l -> Some (mac_str m ^ ">" ^ ip_str l.l_ip ^ "/" ^ sid_name l.l_sid ^ "/" ^ pool_str l.l_pool)
      | None -> None) pr.by_mac in
  let is = List.filter_map (fun (ip, id) -> match obj id with
      | Some l -> Some (ip_str ip ^ ">" ^ mac_str l.l_mac) | None -> None) pr.by_ip in
  "M[" ^ String.concat "," (sorted ms) ^ "]I[" ^ String.concat "," (sorted is) ^ "]"

let show_out (st : state) (o : out) =
  let pools = st.st_reg.pools in
  let pk f = function
    | None -> "-"
    | Some k -> (match List.find_opt (fun p -> p.p_fam = f && p.p_key = k) pools with
                 | Some p -> pool_name f p.p_prof k | None -> "?") in
  match o with
  | OSkip -> "skip"
  | OPa (v4, v6, pd, p4, p6, told) ->
    Printf.sprintf "pa v4=%s v6=%s pd=%s p4=%s p6=%s told=%s" (show_addr v4) (show_addr v6) (show_item pd)
      (pk F4 p4) (pk F6 p6) (show_addr told)
  | OPi (r, v4) ->
    let rs = match r with
      | PiAck None -> "ack:none" | PiAck (Some a) -> "ack:" ^ dn a | PiNak a -> "nak:" ^ dn a
      | PiRej -> "rej" | PiNoReply -> "noreply" in
    Printf.sprintf "pi %s v4=%s" rs (show_addr v4)
  | OPt -> "pt"
  | OId (isreq, r, c4) ->
    let rs = match r with
      | IdNil -> "nil" | IdErr -> "err" | IdPanic -> "panic"
      | IdTold a -> (if isreq then "ack:" else "offer:") ^ dn a in
    Printf.sprintf "%s %s ctx4=%s" (if isreq then "iq" else "id") rs (show_addr c4)
  | OIs (isreq, adv, err, c6, cd) ->
    let rs = match adv with
      | None -> if err then "err" else "nil"
      | Some (a6, pd) -> (if isreq then "rep:" else "adv:") ^ show_addr a6 ^ ":" ^ show_item pd in
    Printf.sprintf "%s %s ctx6=%s ctxpd=%s" (if isreq then "iv" else "is") rs (show_addr c6) (show_item cd)
  | ORel ir -> if ir then "ir" else "it"
  | ORel6 -> "il"
  | ORestart -> "restart"
  | OIa -> "ia"
  | OHa ok -> if ok then "ha ok" else "ha err"
  | OPs (isreq, adv, r6, rd) ->
    let rs = match adv with
      | None -> "nil"
      | Some (a6, pd) -> (if isreq then "rep:" else "adv:") ^ show_addr a6 ^ ":" ^ show_item pd in
    Printf.sprintf "%s %s rec6=%s recd=%s" (if isreq then "pv" else "ps") rs (show_addr r6) (show_item rd)
  | OPr -> "pr rec6=nil recd=nil"

(* plugins/dhcp6/local lease tables; DUID = 00030001 + MAC *)
let psnap6 (st : state) =
  let q = st.st_prov.p6 in
  let pools = st.st_reg.pools in
  let pool_str f = function
    | None -> ""
    | Some k -> (match List.find_opt (fun p -> p.p_fam = f && p.p_key = k) pools with
                 | Some p -> pool_name f p.p_prof k | None -> "?") in
  let duid m = let i = int_of_n m in Printf.sprintf "0003000102000000%02x%02x" (i lsr 8) (i land 255) in
  let n = List.map (fun (d, ((a, s), k)) -> duid d ^ ">" ^ dn a ^ "/" ^ sid_name s ^ "/" ^ pool_str F6 k) q.n_iana in
  let a = List.map (fun (a, s) -> dn a ^ ">" ^ sid_name s) q.n_addr in
  let d = List.map (fun (d, (((x, l), s), k)) -> duid d ^ ">" ^ dn x ^ "/" ^ dn l ^ "/" ^ sid_name s ^ "/" ^ pool_str FD k) q.n_pd in
  let x = List.map (fun ((x, l), s) -> dn x ^ "/" ^ dn l ^ ">" ^ sid_name s) q.n_pfx in
  "N[" ^ String.concat "," (sorted n) ^ "]A[" ^ String.concat "," (sorted a) ^ "]P[" ^ String.concat "," (sorted d)
  ^ "]X[" ^ String.concat "," (sorted x) ^ "]"
let seg st o = show_out st o ^ " | " ^ snap st ^ " | " ^ psnap st ^ " | " ^ psnap6 st

let parse_cfg toks =
  let pools = ref [] and groups = ref [] and sess = ref [] in
  let rec go = function
    | "P4" :: key :: prof :: vrf :: lo :: hi :: ex :: r ->
      let excl = if ex = "-" then [] else List.map nd (String.split_on_char ',' ex) in
      pools := new_pool F4 (nd key) (nd prof) (nd vrf) (GRange (nd lo, nd hi, excl)) :: !pools; go r
    | "P6" :: key :: prof :: vrf :: lo :: hi :: r ->
      pools := new_pool F6 (nd key) (nd prof) (nd vrf) (GRange (nd lo, nd hi, [])) :: !pools; go r
    | "PD" :: key :: prof :: vrf :: base :: nb :: pl :: r ->
      let nbi = int_of_string nb and pli = int_of_string pl in
      pools := new_pool FD (nd key) (nd prof) (nd vrf)
          (GPfx (nd base, n_of_int pli, pow2 (pli - nbi), n_of_int (128 - pli))) :: !pools; go r
    | "G" :: gid :: p4 :: p6 :: r -> groups := (gid, (opt_tok nd p4, opt_tok nd p6)) :: !groups; go r
    | "S" :: sid :: proto :: gid :: mac :: r ->
      sess := (sid, proto, gid, mac) :: !sess; go r
    | [] -> ()
    | t :: _ -> failwith ("bad cfg token " ^ t) in
  go toks;
  let ss = List.rev_map (fun (sid, proto, gid, mac) ->
      let (p4, p6) = try List.assoc gid !groups with Not_found -> (None, None) in
      new_sess (nd sid) (proto = "P") p4 p6 (nd mac)) !sess in
  init_state (List.rev !pools) ss

let parse_op toks : op option =
  let o = opt_tok nd in
  match toks with
  | ["PA"; sid; vrf; s4; s6; spd; o4; o6; od] ->
    Some (PA (nd sid, nd vrf, o s4, o s6, opt_tok item_of_tok spd, o o4, o o6, o od))
  | ["PI"; sid; a] -> Some (PI (nd sid, if a = "none" then None else Some (nd a)))
  | ["PT"; sid] -> Some (PT (nd sid))
  | ["ID"; sid; vrf; s4; o4] -> Some (ID (false, false, None, nd sid, nd vrf, o s4, o o4))
  | ["IQ"; sid; vrf; s4; o4] -> Some (ID (true, true, None, nd sid, nd vrf, o s4, o o4))
  | ["IS"; sid; vrf; s6; spd; o6; od] -> Some (IS (false, nd sid, nd vrf, o s6, opt_tok item_of_tok spd, o o6, o od))
  | ["IV"; sid; vrf; s6; spd; o6; od] -> Some (IS (true, nd sid, nd vrf, o s6, opt_tok item_of_tok spd, o o6, o od))
  | ["IR"; sid] -> Some (IR (nd sid))
  | ["IL"; sid] -> Some (IL (nd sid))
  | ["IT"; sid] -> Some (IT (nd sid))
  | ["IA"; sid] -> Some (IA (nd sid))
  | ["PS"; sid] -> Some (PS (false, nd sid))
  | ["PV"; sid] -> Some (PS (true, nd sid))
  | ["PR"; sid] -> Some (PR (nd sid))
  | ["PX"; sid] -> Some (PX (nd sid))
  | [("HR" | "HL") as t; fam; key; x; sid] ->
    let f = (match fam with "4" -> F4 | "6" -> F6 | _ -> FD) in
    let it = if f = FD then item_of_tok x else (nd x, N0) in
    Some (if t = "HR" then HR (f, o key, it, nd sid) else HL (f, o key, it, nd sid))
  | _ -> None

(* the part of a segment after the op's own result: registry + lease-table snapshots *)
let snap_part (sg : string) = match Str.bounded_split (Str.regexp_string " | ") sg 2 with
  | [_; r] -> r | _ -> sg
let split_segs_ref line = Str.split (Str.regexp_string " ; ") line

(* ------------------------------------------------------------------ stage B glue (internal/ipoe component)
   A component-level event is mapped to the model ops it amounts to, following the gate logic of
   handleDiscover / handleRequest / handleDHCPv6Solicit / handleDHCPv6Request / handleAAAResponse /
   onSessionCreated / handleRelease / handleDHCPv6Release / handleSubscriberTerminate / restoreSessions.
   Declared subscriber k uses model session k+100*incarnation. *)
type gate = { mutable exists : bool; mutable approved : bool; mutable inflight : bool; mutable created : bool;
              mutable pend_d : bool; mutable pend_q : bool; mutable pend_s : bool; mutable pend_v : bool;
              mutable inc : int; mutable queued : bool; mutable ll : bool; mutable ll_img : bool;
              mutable args : (n * n option * n option * n option * (n * n) option); mutable rq : n option }
let new_gate () = { exists = false; approved = false; inflight = false; created = false; pend_d = false;
                    pend_q = false; pend_s = false; pend_v = false; inc = -1; queued = false; ll = false; ll_img = false;
                    args = (N0, None, None, None, None); rq = None }

let parse_cfg_b ?(starts = fun (_ : string) -> 63) toks =
  let pools = ref [] and groups = ref [] and sess = ref [] and queue = ref false in
  let rec go = function
    | "V" :: m :: r -> queue := (m = "queue"); go r
    | "P4" :: key :: prof :: vrf :: lo :: hi :: ex :: r ->
      let excl = if ex = "-" then [] else List.map nd (String.split_on_char ',' ex) in
      pools := new_pool F4 (nd key) (nd prof) (nd vrf) (GRange (nd lo, nd hi, excl)) :: !pools; go r
    | "P6" :: key :: prof :: vrf :: lo :: hi :: r ->
      pools := new_pool F6 (nd key) (nd prof) (nd vrf) (GRange (nd lo, nd hi, [])) :: !pools; go r
    | "PD" :: key :: prof :: vrf :: base :: nb :: pl :: r ->
      let nbi = int_of_string nb and pli = int_of_string pl in
      pools := new_pool FD (nd key) (nd prof) (nd vrf)
          (GPfx (nd base, n_of_int pli, pow2 (pli - nbi), n_of_int (128 - pli))) :: !pools; go r
    | "G" :: gid :: p4 :: p6 :: r -> groups := (gid, (opt_tok nd p4, opt_tok nd p6)) :: !groups; go r
    | "S" :: sid :: _ :: gid :: mac :: r -> sess := (sid, gid, mac) :: !sess; go r
    | [] -> ()
    | t :: _ -> failwith ("bad cfg token " ^ t) in
  go toks;
  let ss = List.concat (List.rev_map (fun (sid, gid, mac) ->
      let (p4, p6) = try List.assoc gid !groups with Not_found -> (None, None) in
      (* one model session per incarnation of a declared subscriber: at most one per event that can start a session
         (DISCOVER / REQUEST / SOLICIT of that subscriber), counted from the case itself - no fixed bound *)
      List.map (fun i -> new_sess (n_of_int (int_of_string sid + 100 * i)) false p4 p6 (nd mac))
        (List.init (starts sid + 1) (fun i -> i))) !sess) in
  (init_state (List.rev !pools) ss, !queue, List.rev_map (fun (sid, _, _) -> sid) !sess)

let find_model_sess (st : state) sid = List.find_opt (fun s -> s.s_id = sid) st.st_sess

let store_snap (st : state) =
  let ims = List.map (fun (sid, im) ->
      sid_name sid ^ ":" ^ show_addr im.s_b4 ^ "/" ^ show_addr im.s_b6 ^ "/" ^ show_item im.s_bd
      ^ "@" ^ show_addr im.s_a4 ^ "/" ^ show_addr im.s_a6 ^ "/" ^ show_item im.s_ad) st.st_prov.store in
  "S[" ^ String.concat "," (sorted ims) ^ "]"

(* "benign" mode (argv[3] = "benign"): follow the implementation with the extracted [Head] and evaluate the hypothesis
   of C02_head_unique / C02_head_told_is_recorded literally - at every step, step Head st o = step Repaired st o
   (structural equality of the candidate lists) - and report per case whether the whole history is benign. *)
let benign_mode = ref false
let benign_bad = ref 0
let benign_steps = ref 0
let unsafe_steps = ref 0     (* steps that do not meet the input-level condition [safe_step] of HeadSafe.v *)
let chk_benign (st : state) (o : op) =
  if !benign_mode then begin
    incr benign_steps;
    if step head st o <> step repaired st o then incr benign_bad;
    if not (safe_step st o) then incr unsafe_steps
  end

(* Property monitor, evaluated after EVERY op of EVERY case in the run against [repaired]: two live sessions of one
   routing domain holding the same address, or delegated prefixes that overlap (containment, any lengths).  The
   marker makes the case a mismatch even when implementation and model agree on everything else. *)
let overlap_items (a1, l1) (a2, l2) =
  let l = if int_of_n l1 <= int_of_n l2 then l1 else l2 in
  let sh = pow2 (128 - int_of_n l) in
  N.div a1 sh = N.div a2 sh
let dup_marker (st : state) =
  let live = List.filter (fun s -> s.s_live) st.st_sess in
  let rec pairs = function [] -> [] | a :: r -> List.map (fun b -> (a, b)) r @ pairs r in
  let hit = List.concat_map (fun (a, b) ->
      if a.s_vrf <> b.s_vrf then [] else
        List.filter_map (fun f -> match holds a f, holds b f with
            | Some x, Some y when (if f = FD then overlap_items x y else x = y) ->
              Some (Printf.sprintf "%s:%s~%s:%s,%s" (famch f) (show_item (Some x)) (show_item (Some y))
                      (sid_name a.s_id) (sid_name b.s_id))
            | _ -> None) [F4; F6; FD]) (pairs live) in
  match hit with [] -> "" | h :: _ -> " | !dup " ^ h

(* all candidate paths of a list of (model op, reply kind): returns (state, reply tokens) list *)
let rec run_ops variant (st : state) ops : (state * string list) list =
  match ops with
  | [] -> [(st, [])]
  | (o, kind) :: rest ->
    chk_benign st o;
    List.concat_map (fun (st', ot) ->
        let tok = match ot with
          | OId (_, IdTold x, _) -> [kind ^ ":" ^ dn x]
          | OId (_, IdPanic, _) -> ["panic"]
          | OIs (isreq, Some (a6, pd), _, _, _) ->
            [(if isreq then "rep6:" else "adv6:") ^ show_addr a6 ^ ":" ^ show_item pd]
          | ORel6 -> if kind = "mute" then [] else ["rep6:nil:nil"]
          | _ -> [] in
        List.map (fun (s2, toks) -> (s2, tok @ toks)) (run_ops variant st' rest)) (step variant st o)

let run_case_b variant line isegs =
  let monitor_on = (variant = repaired) in
  let parts = split_segs_ref line in
  let cfg = tokens (List.hd parts) in
  let starts k = List.length (List.filter (fun o -> match tokens o with
      | t :: k' :: _ -> (t = "BD" || t = "BQ" || t = "BS") && k' = k | _ -> false) (List.tl parts)) in
  let (st0, queue, declared) = parse_cfg_b ~starts (List.tl cfg) in
  if not (cfg_valid st0.st_reg.pools) then "rejected-config" else
  let gates : (string, gate) Hashtbl.t = Hashtbl.create 8 in
  let gate k = match Hashtbl.find_opt gates k with Some g -> g | None -> let g = new_gate () in Hashtbl.add gates k g; g in
  let vq : string list ref = ref [] in
  let st = ref st0 in
  let snapb s = snap s ^ " | " ^ psnap s ^ " | " ^ psnap6 s ^ " | " ^ store_snap s in
  let res = ref ["init | " ^ snapb st0] in
  let idx = ref 1 in
  let cur_sid k g = n_of_int (int_of_string k + 100 * (max g.inc 0)) in
  let cur_sess s k g = find_model_sess s (cur_sid k g) in
  let idop2 k g isreq bind = let (vrf, s4, o4, _, _) = g.args in
    ID (isreq, bind, (if isreq then g.rq else None), cur_sid k g, vrf, s4, o4) in
  let idop k g isreq = idop2 k g isreq isreq in
  let isop k g isreq = let (vrf, _, _, s6, spd) = g.args in IS (isreq, cur_sid k g, vrf, s6, spd, None, None) in
  let v6on k g = match cur_sess !st k g with Some s -> s.s_prof6 <> None | None -> false in
  let fresh g = g.exists <- true; g.inc <- g.inc + 1; g.approved <- false; g.inflight <- false;
    g.created <- false; g.pend_d <- false; g.pend_q <- false; g.pend_s <- false; g.pend_v <- false;
    g.queued <- false; g.ll <- false; g.ll_img <- false; g.args <- (N0, None, None, None, None); g.rq <- None in
  let alt_ops : (op * string) list option ref = ref None in
  (* pending packets replayed after the AAA answer / the session creation, in the order the code replays them *)
  let pending k g =
    let pd = g.pend_d and pq = g.pend_q and ps = g.pend_s and pv = g.pend_v in
    g.pend_d <- false; g.pend_q <- false; g.pend_s <- false; g.pend_v <- false;
    let v4 = (if pd then [(idop k g false, "offer")] else []) @ (if pq then [(idop2 k g true (not variant.d6), "ack")] else [])
    and v6 = (if ps then [(isop k g false, "")] else []) @ (if pv then [(isop k g true, "")] else []) in
    (* the two families are replayed on two goroutines (handleAAAResponse: wg.Wait on both): either may run first,
       which shows in the image a checkpoint of one of them writes (with or without the other's context address) *)
    if v4 <> [] && v6 <> [] then alt_ops := Some (v6 @ v4);
    v4 @ v6 in
  let show_rec s' k g =
    if not g.exists then "gone" else
      match cur_sess s' k g with
      | Some s -> show_addr s.s_b4 ^ "/" ^ show_addr s.s_b6 ^ "/" ^ show_item s.s_bd
      | None -> "nil/nil/nil" in
  List.iter (fun otxt ->
    let f = tokens otxt in
    if f <> [] then begin
      let known = match f with _ :: k :: _ when List.hd f <> "BC" -> List.mem k declared | _ -> true in
      (* (tag, model ops, aaa count (-1: no aaa/rec fields; -2: restart), subscriber) *)
      let plan : (string * (op * string) list * int * (string * gate) option) option =
        if not known then None else
        match f with
        | ["BZ"] ->
          vq := [];
          Some ("bz", [(Restart, "")], -2, None)
        | "BC" :: rest ->
          let q = if rest = ["rev"] then List.rev !vq else !vq in
          vq := [];
          let ops = List.concat_map (fun k -> let g = gate k in
              g.queued <- false; g.created <- true; pending k g) q in
          alt_ops := None;   (* forwardLatePendingPackets replays sequentially, DHCPv4 first *)
          Some ("bc", ops, -1, None)
        | ["BD"; k] ->
          let g = gate k in
          if not g.exists then fresh g;
          g.pend_d <- true;
          if g.approved && g.created then Some ("bd", [(idop k g false, "offer")], 0, Some (k, g))
          else if g.approved || g.inflight then Some ("bd", [], 0, Some (k, g))
          else (g.inflight <- true; Some ("bd", [], 1, Some (k, g)))
        | ["BQ"; k] ->
          let g = gate k in
          if not g.exists then fresh g;
          g.pend_q <- true;
          (* the REQUEST names the address the client was last told (option 50) *)
          g.rq <- (match cur_sess !st k g with Some s -> s.s_told | None -> None);
          if g.approved then Some ("bq", [(idop k g true, "ack")], 0, Some (k, g))
          else if g.inflight then Some ("bq", [], 0, Some (k, g))
          else (g.inflight <- true; Some ("bq", [], 1, Some (k, g)))
        | ["BS"; k] ->
          let g = gate k in
          let fresh_inc = if g.exists then g.inc else g.inc + 1 in
          let on = (match find_model_sess !st (n_of_int (int_of_string k + 100 * (max fresh_inc 0))) with
              | Some s -> s.s_prof6 <> None | None -> false) in
          if not on then Some ("bs", [], 0, Some (k, g)) else begin
            if not g.exists then fresh g;
            g.pend_s <- true; g.ll <- true;   (* the session learns the client's link-local address *)
            if g.approved && g.created then Some ("bs", [(isop k g false, "")], 0, Some (k, g))
            (* not yet answerable: the packet waits, but the session already records the client's DUID *)
            else if g.approved || g.inflight then Some ("bs", [(IM (cur_sid k g), "")], 0, Some (k, g))
            else (g.inflight <- true; Some ("bs", [(IM (cur_sid k g), "")], 1, Some (k, g)))
          end
        | [("BV" | "BW") as t; k] ->
          let g = gate k in
          let tag = String.lowercase_ascii t in
          if not g.exists || not (v6on k g) then Some (tag, [], 0, Some (k, g)) else begin
            g.pend_v <- true; g.ll <- true;
            if g.approved && g.created then Some (tag, [(isop k g true, "")], 0, Some (k, g))
            else Some (tag, [], 0, Some (k, g))
          end
        | "BA" :: k :: vrf :: s4 :: o4 :: rest ->
          let g = gate k in
          if not (g.exists && g.inflight) then None else begin
            let (s6, spd) = match rest with
              | [a; b] -> (opt_tok nd a, opt_tok item_of_tok b) | _ -> (None, None) in
            g.approved <- true; g.inflight <- false; g.args <- (nd vrf, opt_tok nd s4, opt_tok nd o4, s6, spd);
            if not g.created && not g.queued then (if queue then (g.queued <- true; vq := !vq @ [k]) else g.created <- true);
            (* buildAllocContext with all attributes first, then the pending packets of the two families *)
            let (vrf', s4', o4', s6', spd') = g.args in
            let ic = (IC (cur_sid k g, vrf', s4', o4', s6', spd', None, None), "") in
            let ops = pending k g in
            (match !alt_ops with Some a -> alt_ops := Some (ic :: a) | None -> ());
            Some ("ba", ic :: ops, 0, Some (k, g))
          end
        | ["BJ"; k] ->
          let g = gate k in
          if not (g.exists && g.inflight) then None else (g.exists <- false; g.inflight <- false; Some ("bj", [], 0, Some (k, g)))
        | ["BR"; k; ci] ->
          let g = gate k in
          if not g.exists then Some ("br", [], 0, Some (k, g)) else begin
            let ms = cur_sess !st k g in
            let b4 = match ms with Some s -> s.s_b4 | None -> None in
            let ciaddr = if ci = "self" then (match b4 with Some a -> a | None -> N0) else nd ci in
            match b4 with
            | Some a when a <> ciaddr -> Some ("br", [], 0, Some (k, g))
            | _ ->
              let stays = match ms with Some s -> v6bound s | None -> false in
              let o = IR (cur_sid k g) in
              if not stays then g.exists <- false;
              Some ("br", [(o, "")], 0, Some (k, g))
          end
        | ["BL"; k] ->
          let g = gate k in
          if not g.exists then Some ("bl", [], 0, Some (k, g)) else begin
            let stays = match cur_sess !st k g with Some s -> s.s_b4 <> None | None -> false in
            let o = IL (cur_sid k g) in
            if not stays then g.exists <- false;
            (* without a known client link-local address (restored session) the Reply cannot be sent *)
            Some ("bl", [(o, if g.ll then "" else "mute")], 0, Some (k, g))
          end
        | ["BT"; k] ->
          let g = gate k in
          if not g.exists then None else (let o = IT (cur_sid k g) in g.exists <- false; Some ("bt", [(o, "")], 0, Some (k, g)))
        | ["BE"; k] ->
          (* one tick of cleanupSessions for this session (lease expired / half-open and idle) *)
          let g = gate k in
          if not g.exists then None else (let o = IE (cur_sid k g) in g.exists <- false; Some ("be", [(o, "")], 0, Some (k, g)))
        | ["BX"; k] -> let g = gate k in Some ("bx", [(IA (cur_sid k g), "")], 0, Some (k, g))
        | _ -> None in
      (match plan with
       | None -> res := ("skip | " ^ snapb !st) :: !res
       | Some (tag, ops, aaa, sub) ->
         let restarted s' =
           (* after a restart exactly the sessions with an image exist, approved and created *)
           List.iter (fun k -> let g = gate k in
               let has = g.inc >= 0 && List.exists (fun (sid, _) -> sid = cur_sid k g) s'.st_prov.store in
               g.exists <- has; g.approved <- has; g.created <- has; g.inflight <- false; g.queued <- false;
               g.ll <- g.ll_img && has;   (* ClientLinkLocal as of the last checkpoint *)
               g.pend_d <- false; g.pend_q <- false; g.pend_s <- false; g.pend_v <- false; g.rq <- None) declared in
         let render (s', toks) =
           let replies = String.concat "," (sorted toks @ ["."]) in
           let head =
             if aaa = -2 then begin
               restarted s';
               let ks = List.sort (fun a b -> compare (int_of_string a) (int_of_string b)) declared in
               tag ^ " " ^ String.concat "," (List.map (fun k -> "s" ^ k ^ "=" ^ show_rec s' k (gate k)) ks)
             end
             else if aaa < 0 then tag ^ " " ^ replies
             else Printf.sprintf "%s %s aaa=%d rec=%s" tag replies aaa
                 (match sub with Some (k, g) -> show_rec s' k g | None -> "gone") in
           head ^ " | " ^ snapb s' in
         let cands = run_ops variant !st ops @ (match !alt_ops with Some o -> run_ops variant !st o | None -> []) in
         alt_ops := None;
         let want = if !idx < Array.length isegs then Some isegs.(!idx) else None in
         let pick = match want with
           | Some w -> (match List.find_opt (fun c -> render c = w) cands with
               | Some c -> c
               | None -> (match List.find_opt (fun c -> snap_part (render c) = snap_part w) cands with
                   | Some c -> c | None -> List.hd cands))
           | None -> List.hd cands in
         let before = !st in
         res := (render pick ^ (if monitor_on then dup_marker (fst pick) else "")) :: !res; st := fst pick;
         (* a checkpoint of a session persists what it knew at that moment (client link-local address) *)
         List.iter (fun k -> let g = gate k in
             if g.inc >= 0 then begin
               let im s = List.assoc_opt (cur_sid k g) s.st_prov.store in
               if im !st <> im before && im !st <> None then g.ll_img <- g.ll
             end) declared);
      incr idx
    end) (List.tl parts);
  String.concat " ; " (List.rev !res)

let split_segs line = Str.split (Str.regexp_string " ; ") line

let () =
  let cases = read_lines Sys.argv.(1) in
  let impls = if Array.length Sys.argv > 2 && Sys.argv.(2) <> "-" then Some (read_lines Sys.argv.(2)) else None in
  (* variant names: repaired | defective | v<d1>..<d10> with 0/1 flags *)
  let variant =
    if Array.length Sys.argv > 3 then
      (match Sys.argv.(3) with
       | "defective" -> defective
       | "repaired" -> repaired
       | "benign" -> benign_mode := true; head
       | v when String.length v = 11 && v.[0] = 'v' ->
         { d1 = (v.[1] = '1'); d2 = (v.[2] = '1'); d3 = (v.[3] = '1'); d4 = (v.[4] = '1'); d5 = (v.[5] = '1');
           d6 = (v.[6] = '1'); d7 = (v.[7] = '1'); d8 = (v.[8] = '1'); d9 = (v.[9] = '1'); d10 = (v.[10] = '1') }
       | _ -> repaired)
    else repaired in
  List.iteri (fun idx line ->
    if String.trim line = "" then () else
    try
      if String.length line > 2 && String.sub line 0 2 = "B " then begin
        let isegs = match impls with
          | Some l -> (match List.nth_opt l idx with Some il -> Array.of_list (split_segs il) | None -> [||])
          | None -> [||] in
        benign_bad := 0; benign_steps := 0; unsafe_steps := 0; same_names := false;
        let out = run_case_b variant line isegs in
        print_endline (if !benign_mode then Printf.sprintf "benign=%d safe=%d steps=%d" (if !benign_bad = 0 then 1 else 0) (if !unsafe_steps = 0 then 1 else 0) !benign_steps else out)
      end else
      let parts = split_segs line in
      let cfg_toks = tokens (List.hd parts) in
      let cfg_toks = (match cfg_toks with "NS" :: r -> same_names := true; r | l -> same_names := false; l) in
      let st0 = parse_cfg cfg_toks in
      if not (cfg_valid st0.st_reg.pools) then
        print_endline (if !benign_mode then "benign=1 safe=1 steps=0" else "rejected-config")
      else
      let isegs = match impls with
        | Some l -> (match List.nth_opt l idx with Some il -> Array.of_list (split_segs il) | None -> [||])
        | None -> [||] in
      let st = ref st0 in
      benign_bad := 0; benign_steps := 0; unsafe_steps := 0;
      let res = ref ["init | " ^ snap st0 ^ " | " ^ psnap st0 ^ " | " ^ psnap6 st0] in
      let k = ref 1 in
      List.iter (fun otxt ->
        let toks = tokens otxt in
        if List.length toks >= 2 then begin
          (match parse_op toks with
           | None -> res := "badop" :: !res
           | Some o ->
             let o = match o with
               | ID (true, b, _, sid, vrf, s4, o4) ->
                 let rq = match List.find_opt (fun s -> s.s_id = sid) !st.st_sess with Some s -> s.s_told | None -> None in
                 ID (true, b, rq, sid, vrf, s4, o4)
               | o -> o in
             chk_benign !st o;
             let cands = step variant !st o in
             let want = if !k < Array.length isegs then Some isegs.(!k) else None in
             let pick = match want with
               | Some w -> (match List.find_opt (fun (s', ot) -> seg s' ot = w) cands with
                            | Some c -> c
                            | None -> (match List.find_opt (fun (s', ot) -> snap_part (seg s' ot) = snap_part w) cands with
                                | Some c -> c | None -> List.hd cands))
               | None -> List.hd cands in
             let (s', ot) = pick in
             res := (seg s' ot ^ (if variant = repaired then dup_marker s' else "")) :: !res; st := s');
          incr k
        end) (List.tl parts);
      print_endline (if !benign_mode then Printf.sprintf "benign=%d safe=%d steps=%d" (if !benign_bad = 0 then 1 else 0) (if !unsafe_steps = 0 then 1 else 0) !benign_steps
                     else String.concat " ; " (List.rev !res))
    with e -> print_endline ("MODELERROR " ^ Printexc.to_string e)) cases
