(* C19 driver: argv[1] = cases file, argv[2] = "-" , argv[3] = variant (repaired | defective).
   One output line per case line; formats are documented next to each op and mirrored by the Go
   harnesses harness/C19/zz_verif_c19_*_test.go. *)
let variant = if Array.length Sys.argv > 3 && Sys.argv.(3) = "defective" then Defective
  else if Array.length Sys.argv > 3 && Sys.argv.(3) = "head" then Head else Repaired
(* the implementation's line for the current case (MODEL_NEEDS_IMPL): used ONLY to resolve the two choices the property leaves
   open — refuse-or-wrap for oversize payloads (ovf) and the number of zero pad octets after END in a server reply (pad) *)
let cur_impl = ref ""
let impl_head () = match String.index_opt !cur_impl ' ' with Some i -> String.sub !cur_impl 0 i | None -> !cur_impl
let ovf () = (impl_head () = "nil")
let is_hex s = s <> "" && String.length s mod 2 = 0 && (let ok = ref true in String.iter (fun c -> if not ((c >= '0' && c <= '9') || (c >= 'a' && c <= 'f')) then ok := false) s; !ok)
let impl_frame_len () = let h = impl_head () in if is_hex h then String.length h / 2 else 0
let hx = hex_of_bytes
let bx = bytes_of_hex
let ni s = n_of_int (int_of_string s)
let ip_of t = if t = "nil" then None else Some (bx t)
let hxo = function None -> "nil" | Some b -> hx b
let b2i b = if b then 1 else 0
let rec take k l = if k = 0 then ([], l) else match l with x :: r -> let (a, b) = take (k-1) r in (x :: a, b) | [] -> failwith "short"
let split_on c s = String.split_on_char c s
let sub l a b = (* l[a:b] *) List.filteri (fun i _ -> i >= a && i < b) l
let from l a = List.filteri (fun i _ -> i >= a) l
let be16i l i = int_of_n (List.nth l i) * 256 + int_of_n (List.nth l (i+1))

(* frame verification summary, v4: h u l z *)
let sum4 f =
  let n = List.length f in
  if n < 28 then "h=0 u=0 l=0 z=0" else
  let h = verifies (sub f 0 20) in
  let pseudo = sub f 12 20 @ [n_of_int 0; n_of_int 17] @ sub f 24 26 in
  let u = verifies (pseudo @ from f 20) in
  let l = be16i f 2 = n && be16i f 24 = n - 20 in
  let z = be16i f 26 = 0 in
  Printf.sprintf "h=%d u=%d l=%d z=%d" (b2i h) (b2i u) (b2i l) (b2i z)
let sum6 f =
  let n = List.length f in
  if n < 48 then "h=0 u=0 l=0 z=0" else
  let z0 = n_of_int 0 in
  let pseudo = sub f 8 40 @ [z0; z0] @ sub f 44 46 @ [z0; z0; z0; n_of_int 17] in
  let u = verifies (pseudo @ from f 40) in
  let l = be16i f 4 = n - 40 && be16i f 44 = n - 40 in
  let z = be16i f 46 = 0 in
  Printf.sprintf "h=1 u=%d l=%d z=%d" (b2i u) (b2i l) (b2i z)

(* gopacket-style summary of a DHCPv4 payload *)
let gp_codes p =
  match ref_decode4 p with
  | None -> "err"
  | Some v ->
    if not v.v_cookie_ok then "err" else
    (match v.v_end with
     | Truncated -> "err"
     | _ -> if v.v_opts = [] then "e" else String.concat "." (List.map (fun (c, _) -> string_of_int (int_of_n c)) v.v_opts))
let gp_full p =
  match ref_decode4 p with
  | None -> "err"
  | Some v ->
    if not v.v_cookie_ok then "err" else
    (match v.v_end with
     | Truncated -> "err"
     | _ ->
       let os = if v.v_opts = [] then "e" else
           String.concat "." (List.map (fun (c, d) -> string_of_int (int_of_n c) ^ ":" ^ hx d) v.v_opts) in
       Printf.sprintf "%s,%s,%s,%s" (decimal_of_n v.v_xid) (hx v.v_yiaddr) (hx (sub v.v_chaddr 0 6)) os)

let show_ia = function
  | None -> "nil"
  | Some a -> Printf.sprintf "%s,%s,%s,%d,%s,%s,%s" (decimal_of_n a.p_iaid) (decimal_of_n a.p_t1) (decimal_of_n a.p_t2)
                (int_of_n a.p_plen) (hxo a.p_addr) (decimal_of_n a.p_pref) (decimal_of_n a.p_valid)
let show_msg = function
  | None -> "nomsg"
  | Some q ->
    Printf.sprintf "t=%d x=%s c=%s s=%s na=%s pd=%s dns=%s st=%s" (int_of_n q.q_type) (hx q.q_txid)
      (hxo q.q_client) (hxo q.q_server) (show_ia q.q_iana) (show_ia q.q_iapd)
      (if q.q_dns = [] then "-" else String.concat "," (List.map hx q.q_dns))
      (match q.q_status with None -> "nil" | Some (c, m) -> Printf.sprintf "%d,%s" (int_of_n c) (hx m))
let show_info = function
  | None -> "nil"
  | Some i -> Printf.sprintf "%d,%s,%s,%s,%s" (int_of_n i.ri_hop) (hx i.ri_link) (hx i.ri_peer) (hxo i.ri_ifid) (hxo i.ri_remote)
let show_unwrap r = match r with Ok b -> "ok " ^ hx b | Err c -> "err" ^ string_of_int (int_of_n c) | _ -> "crash"
let depth_of p = nat_of_int (List.length p / 34 + 2)


(* ---- value-vs-alias contract of /repo HEAD (which Go call returns its argument / writes through it) ---- *)
let has82 p = (strip_option82 variant p <> Ok p)
let spans code p =
  if List.length p < 240 then [] else
  match scan_opts code (nat_of_int (List.length p + 1)) opt_start (from p 240) [] with
  | Ok (_, rs) -> List.map (fun (a, b) -> (int_of_nat a, int_of_nat b)) rs
  | _ -> []
(* one SetOption step: (result, in_place) *)
let set_step code v4 p =
  let r = match set_option4 variant p code v4 with Ok b -> b | _ -> p in
  let inplace = (match spans code p with [(a, b)] -> b - a = 6 | _ -> false) in
  (r, inplace)
let am al im = Printf.sprintf "al=%d im=%d" (b2i al) (b2i im)

let res_bytes f = function
  | Ok b -> f b
  | Err c -> "err" ^ string_of_int (int_of_n c)
  | Panic -> "panic"
  | OutOfFuel -> "OUTOFFUEL"
let res_frame sum = function
  | Ok None -> "nil"
  | Ok (Some f) -> hx f ^ " " ^ sum f
  | Err c -> "err" ^ string_of_int (int_of_n c)
  | Panic -> "panic"
  | OutOfFuel -> "OUTOFFUEL"

(* admissible padding: the implementation's reply may be longer than the unpadded one by k octets; the model then builds the
   reply with k ZERO octets after END (anything else after END, or any other difference, still shows as a mismatch) *)
let pad_of build =
  match build 0 with
  | Ok (Some f0) -> let k = impl_frame_len () - List.length f0 in if k > 0 && k <= 2000 then k else 0
  | _ -> 0

let pairs_of toks = (* "code,hex" tokens *)
  List.map (fun t -> match split_on ',' t with [c; d] -> (ni c, bx d) | _ -> failwith "pair") toks

let run line =
  match tokens line with
  | [] -> ""
  | ["ip4"; s; d; sp; dp; p] ->
    res_frame sum4 (build_ipv4_udp_frame variant (ovf ()) (ip_of s) (ip_of d) (ni sp) (ni dp) (bx p))
  | ["udp4"; s; d; sp; dp; p] ->
    res_bytes (fun f -> if f = [] then "nil" else hx f ^ " " ^ sum4 f) (build_udp_packet (ovf ()) (ip_of s) (ip_of d) (ni sp) (ni dp) (bx p))
  | ["ip6"; s; d; sp; dp; p] ->
    res_frame sum6 (build_ipv6_udp_frame (ovf ()) (ip_of s) (ip_of d) (ni sp) (ni dp) (bx p))
  | ["wrap"; s; d; p] ->
    res_bytes (fun f -> if f = [] then "nil" else hx f ^ " " ^ sum4 f) (wrap_ip_udp variant (ovf ()) (bx p) (ip_of s) (ip_of d))
  | ["o82build"; fl; un; _; _; _; _; _; _; ec; er] ->
    (match build_option82 (fl = "1") (un = "1") (bx ec) (bx er) with
     | Ok b -> "ok " ^ hx b
     | Err _ -> "err"
     | _ -> "crash")
  | ["o82ins"; pol; o; p] ->
    let pol = match pol with "keep" -> Keep | "drop" -> Drop | _ -> Replace in
    let pk = bx p in
    let al = pk <> [] && (List.length pk < 240 || (pol = Keep && has82 pk) || (pol = Drop && not (has82 pk))) in
    res_bytes (fun b -> hx b ^ " gp=" ^ gp_codes b ^ " " ^ am al false) (insert_option82 variant pk (bx o) pol)
  | ["o82strip"; p] ->
    let pk = bx p in
    let al = pk <> [] && (List.length pk < 240 || not (has82 pk)) in
    res_bytes (fun b -> hx b ^ " gp=" ^ gp_codes b ^ " " ^ am al false) (strip_option82 variant pk)
  | ["setu32"; c; v; p] ->
    let pk = bx p in
    let (_, inpl) = set_step (ni c) (put32 (ni v)) pk in
    res_bytes (fun b -> hx b ^ " gp=" ^ gp_codes b ^ " get=" ^
                        (match get_option4 b (ni c) with Ok (Some x) -> hx x | Ok None -> "none" | _ -> "crash")
                        ^ " " ^ am inpl (inpl && b <> pk))
      (set_option_u32 variant pk (ni c) (ni v))
  | ["setip"; c; ip; p] ->
    let pk = bx p in
    let (al, wr) = match to4 (ip_of ip) with
      | None -> (pk <> [], false)
      | Some v4 -> let (_, inpl) = set_step (ni c) v4 pk in (inpl, inpl) in
    res_bytes (fun b -> hx b ^ " gp=" ^ gp_codes b ^ " get=" ^
                        (match get_option4 b (ni c) with Ok (Some x) -> hx x | Ok None -> "none" | _ -> "crash")
                        ^ " " ^ am al (wr && b <> pk))
      (set_option_ip variant pk (ni c) (ip_of ip))
  | ["proxy"; sid; lease; p] ->
    let pk = bx p in
    let l = ni lease in
    (* follow the four SetOption calls: while every call so far wrote in place the current buffer IS the input *)
    let steps = (match to4 (ip_of sid) with None -> [] | Some v4 -> [(n_of_int 54, v4)]) @
                [(n_of_int 51, put32 l); (n_of_int 58, put32 (N.div l (n_of_int 2))); (n_of_int 59, put32 (t2_of variant l))] in
    let (_, is_input, inp) = List.fold_left (fun (cur, is_in, inp) (c, v4) ->
        let (r, inpl) = set_step c v4 cur in
        if inpl then (r, is_in, (if is_in then r else inp)) else (r, false, inp)) (pk, true, pk) steps in
    res_bytes (fun b ->
        let g c = match get_option4 b (n_of_int c) with Ok (Some x) -> hx x | Ok None -> "none" | _ -> "crash" in
        Printf.sprintf "%s gp=%s get=%s,%s,%s,%s %s" (hx b) (gp_codes b) (g 54) (g 51) (g 58) (g 59)
          (am (is_input && pk <> []) (inp <> pk)))
      (rewrite_for_proxy variant pk (ip_of sid) l)
  | ["giaddr"; ip; p] ->
    let b = set_giaddr (bx p) (ip_of ip) in
    hx b ^ " get=" ^ (if List.length b < 28 then "nil" else hx (sub b 24 28)) ^ " gal=0"
  | ["hops"; p] ->
    let b = increment_hops (bx p) in
    hx b ^ " get=" ^ (if List.length b > 3 then string_of_int (int_of_n (List.nth b 3)) else "0")
  | "pool" :: xid :: ci :: hw :: mt :: ip :: gw :: mask :: lease :: nd :: rest ->
    let (dns, rest) = take (int_of_string nd) rest in
    let extra = match rest with _ :: e -> pairs_of e | [] -> [] in
    let build pad = build_response_pool variant (ovf ()) (nat_of_int pad) (ni xid) (ip_of ci) (bx hw) (ni mt) (ip_of ip) (ip_of gw) (bx mask)
         (List.map ip_of dns) (ni lease) extra in
    res_frame (fun f -> sum4 f ^ " gp=" ^ gp_full (from f 28)) (build (pad_of build))
  | "resolved" :: xid :: ci :: hw :: mt :: yip :: router :: sid :: mask :: lease :: nd :: rest ->
    let (dns, rest) = take (int_of_string nd) rest in
    let (nr, rest) = match rest with n :: r -> (int_of_string n, r) | [] -> (0, []) in
    let (routes, rest) = take nr rest in
    let routes = List.map (fun t -> match split_on ',' t with
        | [o; d; h] -> ((ni o, ip_of d), ip_of h) | _ -> failwith "route") routes in
    let extra = match rest with _ :: e -> pairs_of e | [] -> [] in
    let build pad = build_response_resolved variant (ovf ()) (nat_of_int pad) (ni xid) (ip_of ci) (bx hw) (ni mt) (ip_of yip) (ip_of router) (ip_of sid)
         (bx mask) (List.map ip_of dns) (ni lease) routes extra in
    res_frame (fun f -> sum4 f ^ " gp=" ^ gp_full (from f 28)) (build (pad_of build))
  | "resolve4" :: xid :: ci :: hw :: mt :: addr :: cgw :: cmask :: rest ->
    let parsed t = match split_on '/' t with [_; p] -> p | _ -> failwith "parsed" in
    let ipo t = ip_of (parsed t) in
    let (n, rest) = (match rest with n :: r -> (int_of_string n, r) | [] -> failwith "n") in
    let (cdns, rest) = take n rest in
    let (pgw, psid, unn, lease, rest) = (match rest with a :: b :: c :: d :: r -> (a, b, c, d, r) | _ -> failwith "prof") in
    let (n, rest) = (match rest with n :: r -> (int_of_string n, r) | [] -> failwith "n") in
    let (pdns, rest) = take n rest in
    let (np, rest) = (match rest with n :: r -> (int_of_string n, r) | [] -> failwith "n") in
    let rec pools k rest acc = if k = 0 then List.rev acc else
        (match rest with
         | cidr :: gw :: no :: r ->
           let (os, r) = take (int_of_string no) r in
           let net = (match parsed cidr with "nil" -> None | x -> (match split_on ':' x with [a; m] -> Some (bx a, bx m) | _ -> failwith "cidr")) in
           let opts = List.map (fun t -> match split_on '/' t with
               | [a; pl] -> let tag = ni (List.hd (split_on ',' a)) in (tag, if pl = "nil" then None else Some (bx pl))
               | _ -> failwith "opt") os in
           pools (k-1) r ({ pl_net = net; pl_gw_set = (List.hd (split_on '/' gw) <> "-"); pl_gw = ipo gw; pl_opts = opts } :: acc)
         | _ -> failwith "pool") in
    let pf = { pf_gw = ipo pgw; pf_sid = ipo psid; pf_dns = List.map ipo pdns; pf_unnumbered = (unn = "1"); pf_lease = ni lease;
               pf_pools = pools np rest [] } in
    (* allocation branch: the address is the implementation's choice (y=...), admissible iff inside a configured pool *)
    let impl_y = (let toks = tokens !cur_impl in
                  match List.find_opt (fun t -> String.length t > 2 && String.sub t 0 2 = "y=") toks with
                  | Some t -> Some (String.sub t 2 (String.length t - 2)) | None -> None) in
    let alloc = (addr = "alloc") in
    let verdict = if not alloc then `Go (bx addr) else
        (match impl_y with
         | Some y when y <> "nil" && is_hex y -> if alloc_admissible (bx y) pf then `Go (bx y) else `Bad "INADMISSIBLE:allocated-address-outside-every-pool"
         | _ -> if impl_head () = "noresolve" && not (has_usable_pool pf) then `Stop "noresolve"
                else if impl_head () = "noresolve" then `Bad "INADMISSIBLE:no-address-although-a-pool-is-configured" else `Bad "INADMISSIBLE:no-address-reported") in
    (match verdict with `Stop x -> x | `Bad x -> x | `Go a ->
    let cx = { cx_addr = a; cx_gw = ip_of cgw; cx_mask = (if cmask = "nil" then None else Some (bx cmask)); cx_dns = List.map ip_of cdns } in
    let r = resolve_v4 cx pf in
    let sum = Printf.sprintf "y=%s r=%s s=%s m=%s" (hxo r.rs_yip) (hxo r.rs_router) (hxo r.rs_sid) (hx r.rs_mask) ^ Printf.sprintf " dns=%s lease=%d nr=%d opts=%s"
        (if r.rs_dns = [] then "-" else String.concat "," (List.map hxo r.rs_dns)) (int_of_n r.rs_lease) (List.length r.rs_routes)
        (if r.rs_opts = [] then "-" else String.concat "." (List.map (fun (c, d) -> string_of_int (int_of_n c) ^ ":" ^ hx d) r.rs_opts)) in
    let build pad = resolve_and_reply variant (ovf ()) (nat_of_int pad) (ni xid) (ip_of ci) (bx hw) (ni mt) cx pf in
    cur_impl := (match String.index_opt !cur_impl ';' with Some i when i + 2 <= String.length !cur_impl -> String.sub !cur_impl (i + 2) (String.length !cur_impl - i - 2) | _ -> !cur_impl);
    sum ^ " ; " ^ res_frame (fun f -> sum4 f ^ " gp=" ^ gp_full (from f 28)) (build (pad_of build)))
  | "ser6" :: ty :: tx :: cl :: sv :: na :: pd :: nd :: rest ->
    let (dns, rest) = take (int_of_string nd) rest in
    let (st, rest) = match rest with s :: r -> (s, r) | [] -> ("nil", []) in
    let extras = match rest with _ :: e -> pairs_of e | [] -> [] in
    let na = if na = "nil" then None else (match split_on ',' na with
        | [i; t1; t2; a; p; v] -> Some { na_iaid = n_of_decimal i; na_t1 = n_of_decimal t1; na_t2 = n_of_decimal t2;
                                         na_addr = ip_of a; na_pref = n_of_decimal p; na_valid = n_of_decimal v }
        | _ -> failwith "iana") in
    let pd = if pd = "nil" then None else (match split_on ',' pd with
        | [i; t1; t2; pl; a; p; v] -> Some { pd_iaid = n_of_decimal i; pd_t1 = n_of_decimal t1; pd_t2 = n_of_decimal t2;
                                             pd_plen = ni pl; pd_prefix = ip_of a; pd_pref = n_of_decimal p;
                                             pd_valid = n_of_decimal v }
        | _ -> failwith "iapd") in
    let st = if st = "nil" then None else (match split_on ',' st with [c; m] -> Some (ni c, bx m) | _ -> failwith "st") in
    let r = { r_type = ni ty; r_txid = bx tx; r_client = bx cl; r_server = bx sv; r_iana = na; r_iapd = pd;
              r_dns = List.map ip_of dns; r_status = st; r_extras = extras } in
    let b = serialize6 r in
    hx b ^ " ; " ^ show_msg (parse_message6 b)
  | ["rf6"; hop; link; peer; ifid; remote; ent; sub_; msg] ->
    let p = { rp_hop = ni hop; rp_link = ip_of link; rp_peer = ip_of peer; rp_ifid = bx ifid; rp_remote = bx remote;
              rp_ent = n_of_decimal ent; rp_sub = bx sub_ } in
    let b = build_relay_forward (bx msg) p in
    let (m, i) = unwrap_relay (depth_of b) b in
    Printf.sprintf "%s ; %s ; info=%s ; txid=%s" (hx b) (show_msg m) (show_info i) (hxo (relay_txid b))
  | ["rr6"; hop; link; peer; ifid; inner] ->
    let b = build_relay_reply (bx inner) (ni hop) (ip_of link) (ip_of peer) (bx ifid) in
    Printf.sprintf "%s ; unwrap=%s ; txid=%s ; m6=%s" (hx b) (show_unwrap (unwrap_relay_reply b)) (hxo (relay_txid b))
      (show_msg (unwrap_relay_reply6 (depth_of b) b))
  | ["unw6"; p] ->
    let b = bx p in
    let (m, i) = unwrap_relay (depth_of b) b in
    Printf.sprintf "unwrap=%s ; txid=%s ; %s ; info=%s ; m6=%s" (show_unwrap (unwrap_relay_reply b)) (hxo (relay_txid b))
      (show_msg m) (show_info i) (show_msg (unwrap_relay_reply6 (depth_of b) b))
  | ["lt6"; pref; valid; p] ->
    let pk = bx p in
    let r = rewrite_v6_lifetimes variant pk (n_of_decimal pref) (n_of_decimal valid) in
    hx r ^ " " ^ am (pk <> []) (r <> pk)
  | "solicit6" :: sduid :: cmsg :: relay :: addr :: prefix :: ones :: rest ->
    let parsed t = match split_on '/' t with [_; p] -> p | _ -> failwith "parsed" in
    let ipo t = ip_of (parsed t) in
    let cnt rest = (match rest with n :: r -> (int_of_string n, r) | [] -> failwith "n") in
    let (n, rest) = cnt rest in
    let (cdns, rest) = take n rest in
    let (ppref, pvalid, rest) = (match rest with a :: b :: r -> (a, b, r) | _ -> failwith "prof") in
    let (n, rest) = cnt rest in
    let (pdns, rest) = take n rest in
    let netof t = (match parsed t with "nil" -> None | x -> (match split_on ':' x with [a; m] -> Some (bx a, bx m) | _ -> failwith "cidr")) in
    let (nia, rest) = cnt rest in
    let rec ias k rest acc = if k = 0 then (List.rev acc, rest) else
        (match rest with
         | cidr :: pr :: va :: no :: r ->
           let (os, r) = take (int_of_string no) r in
           let opts = List.map (fun t -> match split_on '/' t with
               | [a; pl] -> (ni (List.hd (split_on ',' a)), if pl = "nil" then None else Some (bx pl)) | _ -> failwith "opt") os in
           ias (k-1) r ({ p6_net = netof cidr; p6_pref = n_of_decimal pr; p6_valid = n_of_decimal va; p6_opts = opts } :: acc)
         | _ -> failwith "iapool") in
    let (iapools, rest) = ias nia rest [] in
    let (npd, rest) = cnt rest in
    let rec pds k rest acc = if k = 0 then List.rev acc else
        (match rest with
         | cidr :: pr :: va :: r -> pds (k-1) r ({ p6_net = netof cidr; p6_pref = n_of_decimal pr; p6_valid = n_of_decimal va; p6_opts = [] } :: acc)
         | _ -> failwith "pdpool") in
    let pf = { f6_pref = n_of_decimal ppref; f6_valid = n_of_decimal pvalid; f6_dns = List.map ipo pdns; f6_iana = iapools; f6_pd = pds npd rest [] } in
    let cx = { c6_addr = ip_of addr; c6_prefix = (if prefix = "nil" then None else Some (bx prefix, ni ones)); c6_dns = List.map ip_of cdns } in
    (match resolve_v6 cx pf with
     | None -> "noresolve"
     | Some r ->
       (match handle_resolved6 (bx sduid) (bx cmsg) r with
        | None -> "noresp"
        | Some b ->
          (* HandlePacket wraps the answer in a Relay-Reply when the request came through a relay (pkt.RelayInfo) *)
          let out = if relay = "nil" then b else (match split_on ',' relay with
              | [h; l; p; i] -> build_relay_reply b (ni h) (ip_of l) (ip_of p) (bx i) | _ -> failwith "relay") in
          hx out ^ " ; " ^ show_msg (parse_message6 b) ^ " ; retry=same"))
  | "resp6" :: ty :: tx :: cl :: sv :: na :: pd :: nd :: rest ->
    let (dns, rest) = take (int_of_string nd) rest in
    let extras = match rest with _ :: e -> pairs_of e | [] -> [] in
    let na = if na = "nil" then None else (match split_on ',' na with
        | [i; a; p; v] -> Some (((n_of_decimal i, bx a), n_of_decimal p), n_of_decimal v) | _ -> failwith "iana") in
    let pd = if pd = "nil" then None else (match split_on ',' pd with
        | [i; a; o; p; v] -> Some ((((n_of_decimal i, bx a), ni o), n_of_decimal p), n_of_decimal v) | _ -> failwith "pd") in
    let b = build_response6 (ni ty) (bx tx) (bx cl) (bx sv) na pd (List.map ip_of dns) extras in
    hx b ^ " ; " ^ show_msg (parse_message6 b)
  | ["relay4"; gi; pol; o; p] ->
    let pol = match pol with "keep" -> Keep | "drop" -> Drop | _ -> Replace in
    res_bytes (fun b -> Printf.sprintf "%s gp=%s gi=%s hops=%d" (hx b) (gp_codes b)
                  (if List.length b < 28 then "nil" else hx (sub b 24 28))
                  (if List.length b > 3 then int_of_n (List.nth b 3) else 0))
      (relay_forward4 variant (bx p) (ip_of gi) (bx o) pol)
  | ["relayreply4"; gi; p] ->
    res_bytes (fun f -> if f = [] then "nil" else hx f ^ " " ^ sum4 f ^ " gp=" ^ gp_codes (from f 28)) (relay_reply4 variant (ovf ()) (bx p) (ip_of gi))
  | ["proxyreply4"; gi; lease; p] ->
    res_bytes (fun f -> if f = [] then "nil" else
        let b = from f 28 in
        let g c = match get_option4 b (n_of_int c) with Ok (Some x) -> hx x | Ok None -> "none" | _ -> "crash" in
        Printf.sprintf "%s %s gp=%s get=%s,%s,%s,%s" (hx f) (sum4 f) (gp_codes b) (g 54) (g 51) (g 58) (g 59))
      (proxy_reply4 variant (ovf ()) (bx p) (ip_of gi) (ni lease))
  | ["pseq6"; pd; pref; valid; raw; req] ->
    (match unwrap_relay_reply (bx raw) with
     | Ok inner ->
       let sd = get_server_duid inner in
       let inner = replace_server_duid inner (bx pd) in
       let inner = rewrite_v6_lifetimes variant inner (n_of_decimal pref) (n_of_decimal valid) in
       let rq = bx req in
       let rq = (match sd with Some d when d <> [] -> replace_server_duid rq d | _ -> rq) in
       let lo = Some (List.init 16 (fun i -> n_of_int (if i = 15 then 1 else 0))) in
       let fwd = build_relay_forward rq { rp_hop = n_of_int 0; rp_link = lo; rp_peer = lo; rp_ifid = [n_of_int 105; n_of_int 102; n_of_int 48];
                                          rp_remote = []; rp_ent = n_of_int 0; rp_sub = [] } in
       Printf.sprintf "%s ; sd=%s ; fwd=%s ; rawmod=0" (hx inner) (hxo sd) (hx fwd)
     | _ -> "err")
  | ["duid6"; nd; p] ->
    let pk = bx p in
    let b = replace_server_duid pk (bx nd) in
    (* ReplaceServerDUID: no Server-ID -> returns pkt; same length -> writes in place; other length -> new slice *)
    let (al, wr) = (match get_server_duid pk with
        | None -> (pk <> [], false)
        | Some d -> let same = List.length d = List.length (bx nd) in (same, same)) in
    hx b ^ " get=" ^ hxo (get_server_duid b) ^ " " ^ am al (wr && b <> pk) ^ " gal=0 nal=0"
  | _ -> "badline"

let () =
  let lines = read_lines Sys.argv.(1) in
  let impls = if Array.length Sys.argv > 2 && Sys.argv.(2) <> "-" then read_lines Sys.argv.(2) else [] in
  let rec go ls is = match ls with
    | [] -> ()
    | l :: lr ->
      let (i, ir) = (match is with x :: r -> (x, r) | [] -> ("", [])) in
      cur_impl := i;
      print_endline (try run l with e -> "DRIVERERROR " ^ Printexc.to_string e);
      go lr ir in
  go lines impls
