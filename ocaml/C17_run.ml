(* C17 driver.  argv[1] = cases, argv[2] = implementation output (one line per case) or "-".
   seq cases: print the model's results (the implementation line is ignored).
   conc / rconc cases: the implementation line is a recorded concurrent history; search for a
   linearization (Wing & Gong / Lowe style backtracking with memoisation) against the extracted
   sequential model [reg_step]; echo the line when one exists, print NONLIN ... otherwise. *)

let key_of_tok (t : string) : key =
  match String.split_on_char '.' t with
  | [s; c; m] -> { k_svlan = n_of_int (int_of_string s); k_cvlan = n_of_int (int_of_string c); k_mac = bytes_of_hex m }
  | _ -> failwith ("bad key " ^ t)
let show_key (k : key) : string =
  Printf.sprintf "%d.%d.%s" (int_of_n k.k_svlan) (int_of_n k.k_cvlan) (hex_of_bytes k.k_mac)
let show_owner (o : owner) : string =
  "o:" ^ hex_of_bytes o.o_proto ^ "/" ^ hex_of_bytes o.o_sid ^ "/" ^ show_key o.o_key
let show_ret = function
  | RNil -> "nil" | ROwner o -> show_owner o | RUnit -> "ok" | RBool b -> if b then "T" else "F"

type pop = POp of op | PShard of key | PMake of int * int * n list | PCount | PReread | PScribble

(* parse one op at the head of the token list *)
let parse_op (toks : string list) : pop * string list =
  let owner p s k = { o_proto = bytes_of_hex p; o_sid = bytes_of_hex s; o_key = key_of_tok k } in
  match toks with
  | "c" :: k :: p :: s :: ok :: r -> (POp (OClaim (key_of_tok k, owner p s ok)), r)
  | "r" :: k :: p :: s :: ok :: r -> (POp (ORelease (key_of_tok k, owner p s ok)), r)
  | "i" :: k :: p :: s :: ok :: r -> (POp (OIsOwner (key_of_tok k, owner p s ok)), r)
  | "l" :: k :: r -> (POp (OLookup (key_of_tok k)), r)
  | "s" :: k :: r -> (PShard (key_of_tok k), r)
  | "m" :: s :: c :: m :: r -> (PMake (int_of_string s, int_of_string c, bytes_of_hex m), r)
  | "n" :: r -> (PCount, r)
  | "v" :: r -> (PReread, r)
  | "w" :: r -> (PScribble, r)
  | t :: _ -> failwith ("bad op " ^ t)
  | [] -> failwith "missing op"

let rec list_len = function [] -> 0 | _ :: r -> 1 + list_len r

let count_reg (reg : registry) : string =
  let bad = ref false and n = ref 0 in
  List.iteri (fun i sh ->
      List.iter (fun (k, _) -> incr n; if int_of_n (shard_for k) <> i then bad := true) sh) reg;
  if !bad then "BADSHARD" else "n" ^ string_of_int !n

(* The shard a tuple lands in - which hash, how many shards - is an implementation choice (theorems
   C17_any_sharding_refines_flat_spec / _linearizable hold for every shard function).  The harness
   numbers the shards in first-seen order; the implementation's answer is accepted when it is a
   non-negative number and the same every time the tuple is asked about in this case (shardFor is a
   FUNCTION of the tuple); otherwise the model's own value is printed with a '!' so that the lines differ. *)
let run_seq (toks : string list) (impl : string list) : string =
  let seen = Hashtbl.create 8 in
  let impl = Array.of_list impl in
  (* returned *Owner values are copies: what a caller holds never changes and cannot change the table *)
  let last = ref "nil" in
  let rec go reg toks acc =
    match toks with
    | [] -> List.rev acc
    | _ ->
      let (o, rest) = parse_op toks in
      let pos = List.length acc in
      (match o with
       | POp op ->
         let (reg', r) = reg_step reg op in
         (match op, r with (OClaim _ | OLookup _), ROwner _ -> last := show_ret r | _ -> ());
         go reg' rest (show_ret r :: acc)
       | PReread -> go reg rest (("v:" ^ !last) :: acc)
       | PScribble -> last := "nil"; go reg rest ("w" :: acc)
       | PShard k ->
         let mine = "s" ^ string_of_int (int_of_n (shard_for k)) in
         let theirs = if pos < Array.length impl then impl.(pos) else "" in
         let ok =
           String.length theirs >= 2 && theirs.[0] = 's' &&
           (match int_of_string_opt (String.sub theirs 1 (String.length theirs - 1)) with
            | Some i -> i >= 0 | None -> false) &&
           (match Hashtbl.find_opt seen (show_key k) with Some prev -> prev = theirs | None -> true) in
         if ok then (Hashtbl.replace seen (show_key k) theirs; go reg rest (theirs :: acc))
         else go reg rest ((mine ^ "!") :: acc)
       | PMake (s, c, m) -> go reg rest (("k:" ^ show_key (make_tuple_key (n_of_int s) (n_of_int c) m)) :: acc)
       | PCount -> go reg rest (count_reg reg :: acc)) in
  ignore impl;
  match go new_registry toks [] with
  | [] -> "empty"
  | l -> String.concat " " l

(* ---- the callers (ipoe claimTuple/releaseTuple, pppoe addToIndexes/removeFromIndexes) ---- *)
(* A call-site invocation (C / R) may be "gated": an interloper Claim/Release of another party ran
   immediately before the call site's j-th registry call (tag g) or after it returned (tag a).  The
   call site is required to behave as ONE atomic registry operation: the observed (events, interloper
   result) must be explained by the interloper taking effect entirely before or entirely after it
   (only "after" when it ran after the return, only "before" when j = 0 and it fired inside).  The
   implementation's token decides which order the model continues from; if neither order explains it
   the model prints its own "after" answer with a trailing !nonatomic. *)
let run_callers ?(any = false) (self : bytes) (toks : string list) (impl : string list) : string =
  let impl = Array.of_list impl in
  let pending = ref None in
  let rec go reg toks acc =
    let pos = List.length acc in
    let theirs = if pos < Array.length impl then impl.(pos) else "" in
    match toks with
    | [] -> List.rev acc
    | "G" :: j :: kind :: k :: p :: sd :: rest ->
      let k = key_of_tok k in
      let o = { o_proto = bytes_of_hex p; o_sid = bytes_of_hex sd; o_key = k } in
      pending := Some (int_of_string j, (if kind = "x" then OClaim (k, o) else ORelease (k, o)));
      go reg rest ("armed" :: acc)
    | ("C" | "R" as kind) :: s :: c :: m :: sid :: mixed :: rest ->
      let s = n_of_int (int_of_string s) and c = n_of_int (int_of_string c) in
      let m = bytes_of_hex m and sid = bytes_of_hex sid and mixed = (mixed = "1") in
      let site reg =
        if kind = "C" then begin
          let (reg', evs) = caller_claim_v any self mixed reg s c m sid in
          let txt = String.concat "," (List.map (fun (sd, k) -> hex_of_bytes sd ^ "@" ^ show_key k) evs) in
          (reg', "ev[" ^ txt ^ "]")
        end else (caller_release self mixed reg s c m sid, "ok") in
      (match !pending with
       | None -> let (reg', t) = site reg in go reg' rest (t :: acc)
       | Some (j, iop) ->
         pending := None;
         let before tag = let (r1, ri) = reg_step reg iop in let (r2, t) = site r1 in (r2, t ^ "/" ^ tag ^ ":" ^ show_ret ri) in
         let after tag = let (r1, t) = site reg in let (r2, ri) = reg_step r1 iop in (r2, t ^ "/" ^ tag ^ ":" ^ show_ret ri) in
         let cands =
           (if j = 0 then [before "g"] else [before "g"; after "g"]) @ [after "a"] in
         (match List.find_opt (fun (_, t) -> t = theirs) cands with
          | Some (r, t) -> go r rest (t :: acc)
          | None -> let (r, t) = after "a" in go r rest ((t ^ "!nonatomic") :: acc)))
    | "Z" :: _ :: _ :: _ :: _ :: _ :: rest -> go reg rest ("ev[]" :: acc)   (* exclusivity == nil: no effect *)
    | "x" :: k :: p :: sd :: rest ->
      let k = key_of_tok k in
      let (reg', r) = reg_step reg (OClaim (k, { o_proto = bytes_of_hex p; o_sid = bytes_of_hex sd; o_key = k })) in
      go reg' rest (show_ret r :: acc)
    | "y" :: k :: p :: sd :: rest ->
      let k = key_of_tok k in
      let (reg', r) = reg_step reg (ORelease (k, { o_proto = bytes_of_hex p; o_sid = bytes_of_hex sd; o_key = k })) in
      go reg' rest (show_ret r :: acc)
    | "l" :: k :: rest ->
      let (reg', r) = reg_step reg (OLookup (key_of_tok k)) in go reg' rest (show_ret r :: acc)
    | t :: _ -> failwith ("bad caller op " ^ t) in
  match go new_registry toks [] with
  | [] -> "empty"
  | l -> String.concat " " l

(* ---- both components end to end (harness/C17/zz_verif_c17_e2e_test.go) ---- *)
let e2e_tuples = [| "100.10.02aabbcc0001"; "100.10.02aabbcc0011"; "100.11.02aabbcc0001"; "100.0.02aabbcc0002"; "101.10.02aabbcc0001"; "100.10.06aabbcc0001"; "100.10.02abbbcc0001"; "100.10.02aabacc0001"; "100.10.02aabbcd0001"; "100.10.02aabbcc0101" |]
let e2e_all = [0; 1; 2; 3; 4; 5; 6; 7; 8; 9]
let e2e_empty s = let n = String.length s in n >= 7 && String.sub s (n - 7) 7 = ":i0p0:-"
let run_e2e (v : variant) (toks : string list) : string =
  let show1 w t =
    let k = key_of_tok e2e_tuples.(t) in
    let ((ni, np), own) = e2e_snapshot w k in
    let o = match own with
      | None -> "-"
      | Some p -> if p = proto_ipoe then "i" else if p = proto_pppoe then "p" else "?" in
    Printf.sprintf "t%d:i%dp%d:%s" t (int_of_nat ni) (int_of_nat np) o in
  (* all four tuples after every op, the op's own tuple first *)
  let show w t = String.concat "," (show1 w t :: List.filter_map (fun u -> if u = t then None else (let x = show1 w u in if e2e_empty x then None else Some x)) e2e_all) in
  let rec go w toks acc =
    match toks with
    | [] -> List.rev acc
    | op :: rest ->
      let t = Char.code op.[1] - 48 in
      let k = key_of_tok e2e_tuples.(t) in
      let w' = e2e_step v w (match op.[0] with
          | 'D' -> EDiscover k | 'Q' -> ERequest k | 'S' -> ESolicit k | 'P' -> EPadr k
          | _ -> failwith ("bad e2e op " ^ op)) in
      go w' rest (show w' t :: acc) in
  match go world0 toks [] with
  | [] -> "empty"
  | l -> String.concat " " l

(* ---- asynchronous bus and teardown (case kind ae2e): terminate events are held and delivered one at a time ---- *)
let run_ae2e (v : variant) (toks : string list) (impl : string list) : string =
  let impl = Array.of_list impl in
  let show1 w t =
    let k = key_of_tok e2e_tuples.(t) in
    let ((ni, np), own) = e2e_snapshot w k in
    let o = match own with
      | None -> "-"
      | Some p -> if p = proto_ipoe then "i" else if p = proto_pppoe then "p" else "?" in
    Printf.sprintf "t%d:i%dp%d:%s" t (int_of_nat ni) (int_of_nat np) o in
  let show w t = String.concat "," (show1 w t :: List.filter_map (fun u -> if u = t then None else (let x = show1 w u in if e2e_empty x then None else Some x)) e2e_all) in
  let rec go aw toks acc =
    match toks with
    | [] -> List.rev acc
    | op :: rest ->
      let t = if String.length op > 1 then Char.code op.[1] - 48 else 0 in
      let k = key_of_tok e2e_tuples.(t) in
      let aw' = a_step v aw (match op.[0] with
          | 'D' | 'Q' | 'S' -> ACreateI k | 'P' -> APadr k | 'V' -> ADeliver | 'X' -> APadt k | 'O' -> AOperI k
          | _ -> failwith ("bad ae2e op " ^ op)) in
      (* one delivery = both handlers, started concurrently by the bus: either order is admissible *)
      let aw' =
        if op.[0] = 'V' then begin
          let alt = a_step v aw ADeliverPI in
          let theirs = let pos = List.length acc in if pos < Array.length impl then impl.(pos) else "" in
          if show aw'.a_w t <> theirs && show alt.a_w t = theirs then alt else aw'
        end else aw' in
      go aw' rest (show aw'.a_w t :: acc) in
  match go aworld0 toks [] with
  | [] -> "empty"
  | l -> String.concat " " l

(* ---- ownership across a restart (harness/C17/zz_verif_c17_{pppoe,ipoe}_restore_test.go): the component under
   test is real, the other protocol's side is simulated by the harness as the model describes it.
   N<t> = the component under test creates a session on tuple t, X<t> = the other side gets a packet, B = restart ---- *)
let run_restore ?(halfopen_unclaimed = false) (real_is_pppoe : bool) (v : variant) (toks : string list) : string =
  (* tuples whose ipoe session was checkpointed half-established (H op) and not restarted since *)
  let half = ref [] in
  (* variant without the HA-promotion repair: tuples whose ipoe session was installed by an A op; its MixedAccess flag is
     false and is checkpointed as false, so no later restart claims for it either *)
  let ha_unclaimed = ref [] in
  let show1 w t =
    let k = key_of_tok e2e_tuples.(t) in
    let ((ni, np), own) = e2e_snapshot w k in
    let o = match own with
      | None -> "-"
      | Some p -> if p = proto_ipoe then "i" else if p = proto_pppoe then "p" else "?" in
    Printf.sprintf "t%d:i%dp%d:%s" t (int_of_nat ni) (int_of_nat np) o in
  let show w t = String.concat "," (show1 w t :: List.filter_map (fun u -> if u = t then None else (let x = show1 w u in if e2e_empty x then None else Some x)) e2e_all) in
  let rec go w toks acc =
    match toks with
    | [] -> List.rev acc
    | op :: rest ->
      let t = if String.length op > 1 then Char.code op.[1] - 48 else 0 in
      let k = key_of_tok e2e_tuples.(t) in
      let fresh_ipoe = (fst (fst (e2e_snapshot w k)) = O) in
      let w' = match op.[0] with
        | 'N' -> if fresh_ipoe then (half := List.filter (fun x -> x <> k) !half; ha_unclaimed := List.filter (fun x -> x <> k) !ha_unclaimed);
          e2e_step v w (if real_is_pppoe then EPadr k else EDiscover k)
        | 'H' -> if fresh_ipoe then half := k :: !half; e2e_step v w (EDiscover k)
        | 'A' -> (* HA promotion installs a synced session: a creation path like the others *)
          if fresh_ipoe && not v.v_claim_all then ha_unclaimed := k :: !ha_unclaimed;
          e2e_step v w (ERequest k)
        | 'X' -> e2e_step v w (if real_is_pppoe then EDiscover k else EPadr k)
        | 'B' ->
          let skip = !half in
          half := [];
          let live k = (fst (fst (e2e_snapshot w k)) <> O) in
          ha_unclaimed := List.filter live !ha_unclaimed;
          if halfopen_unclaimed then e2e_restart_skipping v skip w
          else if !ha_unclaimed <> [] then e2e_restart_skipping v !ha_unclaimed w
          else e2e_restart w
        | _ -> failwith ("bad restore op " ^ op) in
      go w' rest (show w' t :: acc) in
  match go world0 toks [] with
  | [] -> "empty"
  | l -> String.concat " " l

(* ---- concurrent histories ---- *)
let parse_conc (toks : string list) : op list array =
  (* toks: flags T {n ops} fin n ops *)
  match toks with
  | _flags :: nt :: rest ->
    let nt = int_of_string nt in
    let progs = Array.make (nt + 1) [] in
    let rest = ref rest in
    for t = 0 to nt do
      if t = nt then (match !rest with "fin" :: r -> rest := r | _ -> failwith "expected fin");
      (match !rest with
       | n :: r ->
         rest := r;
         let acc = ref [] in
         for _ = 1 to int_of_string n do
           let (o, r') = parse_op !rest in
           rest := r';
           (match o with POp op -> acc := op :: !acc | _ -> failwith "op not allowed in conc")
         done;
         progs.(t) <- List.rev !acc
       | [] -> failwith "short")
    done;
    progs
  | _ -> failwith "bad conc"

(* split "t:k:inv:res:result" (result may contain ':') *)
let split_rec (s : string) : int * int * int * int * string =
  let rec idx from n = if n = 0 then from else idx (String.index_from s from ':' + 1) (n - 1) in
  let p1 = idx 0 1 in let p2 = idx 0 2 in let p3 = idx 0 3 in let p4 = idx 0 4 in
  let sub a b = String.sub s a (b - a - 1) in
  (int_of_string (sub 0 p1), int_of_string (sub p1 p2), int_of_string (sub p2 p3), int_of_string (sub p3 p4),
   String.sub s p4 (String.length s - p4))

let state_key (reg : registry) : string =
  let l = List.concat_map (fun sh -> List.map (fun (k, o) -> show_key k ^ "=" ^ show_owner o) sh) reg in
  String.concat ";" (List.sort compare l)

exception Bad of string

let check_conc (progs : op list array) (impl : string) : string =
  match tokens impl with
  | "H" :: recs ->
    (try
       let nthreads = Array.length progs in
       let total = Array.fold_left (fun a l -> a + List.length l) 0 progs in
       let ops = Array.make total (OLookup (key_of_tok "0.0.000000000000")) in
       let inv = Array.make total 0 and res = Array.make total 0 and out = Array.make total "" in
       let seen = Array.make total false in
       let base = Array.make (nthreads + 1) 0 in
       for t = 0 to nthreads - 1 do base.(t + 1) <- base.(t) + List.length progs.(t) done;
       Array.iteri (fun t l -> List.iteri (fun k o -> ops.(base.(t) + k) <- o) l) progs;
       List.iter (fun r ->
           let (t, k, i, e, o) = (try split_rec r with _ -> raise (Bad ("record " ^ r))) in
           if t < 0 || t >= nthreads || k < 0 || k >= List.length progs.(t) then raise (Bad ("unknown op " ^ r));
           let x = base.(t) + k in
           if seen.(x) then raise (Bad ("duplicate " ^ r));
           seen.(x) <- true; inv.(x) <- i; res.(x) <- e; out.(x) <- o;
           if i >= e then raise (Bad ("inv>=res " ^ r))) recs;
       Array.iteri (fun x s -> if not s then raise (Bad ("missing op #" ^ string_of_int x))) seen;
       (* program order inside a thread *)
       for t = 0 to nthreads - 1 do
         for k = 1 to List.length progs.(t) - 1 do
           if res.(base.(t) + k - 1) >= inv.(base.(t) + k) then raise (Bad "thread order")
         done
       done;
       (* the final thread runs after every worker returned *)
       let lastw = ref 0 in
       for x = 0 to base.(nthreads - 1) - 1 do if res.(x) > !lastw then lastw := res.(x) done;
       for x = base.(nthreads - 1) to total - 1 do if inv.(x) <= !lastw then raise (Bad "final ops overlap workers") done;
       let stamps = Hashtbl.create 64 in
       for x = 0 to total - 1 do
         List.iter (fun s -> if Hashtbl.mem stamps s then raise (Bad "stamp reused"); Hashtbl.add stamps s ()) [inv.(x); res.(x)]
       done;
       let donev = Bytes.make total '0' in
       let memo = Hashtbl.create 1024 in
       let best = ref 0 and best_stuck = ref "" in
       let nodes = ref 0 in
       let rec dfs (reg : registry) (ndone : int) : bool =
         if ndone = total then true else begin
           incr nodes;
           if !nodes > 5_000_000 then raise (Bad "search budget exhausted");
           let key = Bytes.to_string donev ^ "|" ^ state_key reg in
           if Hashtbl.mem memo key then false else begin
             let minres = ref max_int in
             for x = 0 to total - 1 do
               if Bytes.get donev x = '0' && res.(x) < !minres then minres := res.(x)
             done;
             let ok = ref false in
             let x = ref 0 in
             let cands = ref [] in
             while not !ok && !x < total do
               let i = !x in
               if Bytes.get donev i = '0' && inv.(i) < !minres then begin
                 let (reg', r) = reg_step reg ops.(i) in
                 let mr = show_ret r in
                 cands := (i, mr) :: !cands;
                 if mr = out.(i) then begin
                   Bytes.set donev i '1';
                   if dfs reg' (ndone + 1) then ok := true;
                   Bytes.set donev i '0'
                 end
               end;
               incr x
             done;
             if not !ok then begin
               Hashtbl.replace memo key ();
               if ndone >= !best then begin
                 best := ndone;
                 best_stuck := String.concat "," (List.rev_map (fun (i, mr) ->
                     Printf.sprintf "#%d:observed=%s/spec=%s" i out.(i) mr) !cands)
               end
             end;
             !ok
           end
         end in
       if dfs new_registry 0 then impl
       else Printf.sprintf "NONLIN ops=%d longest-legal-prefix=%d stuck-at[%s]" total !best !best_stuck
     with Bad why -> "BADHISTORY " ^ why)
  | "hang" :: _ -> "NONLIN implementation-hung"
  | _ -> "NONLIN implementation-output:" ^ (match tokens impl with t :: _ -> t | [] -> "empty")

let () =
  let lines = read_lines Sys.argv.(1) in
  let impl = if Array.length Sys.argv > 2 && Sys.argv.(2) <> "-" then read_lines Sys.argv.(2) else [] in
  let impl = Array.of_list impl in
  (* every recorded repair is in /repo; the other names only replay historical witnesses by hand
     (argv[3] = pre_e71725e | pre_d2827a3 | unclaimed_paths | superseded_survives | unclaimed_and_superseded | pre_94649ad) *)
  let vname = if Array.length Sys.argv > 3 then Sys.argv.(3) else "repaired" in
  let variant = match vname with
    | "unclaimed_paths" -> { v_keyhit = true; v_claim_all = false; v_evict_pp = true }
    | "superseded_survives" -> { v_keyhit = true; v_claim_all = true; v_evict_pp = false }
    | "unclaimed_and_superseded" -> { v_keyhit = true; v_claim_all = false; v_evict_pp = false }
    | "pre_94649ad" -> { v_keyhit = false; v_claim_all = false; v_evict_pp = false }
    | "pre_e71725e" -> { v_keyhit = true; v_claim_all = false; v_evict_pp = true }
    | _ -> { v_keyhit = true; v_claim_all = true; v_evict_pp = true } in
  List.iteri (fun idx line ->
      let out =
        try
          match tokens line with
          | [] -> "empty"
          | "wgl" :: _expect :: rest ->
            (* checker self-test: the history to judge is part of the case (after "@@") *)
            let rec split acc = function
              | "@@" :: h -> (List.rev acc, h)
              | x :: r -> split (x :: acc) r
              | [] -> (List.rev acc, []) in
            let (body, hist) = split [] rest in
            let h = String.concat " " hist in
            let v = check_conc (parse_conc body) h in
            if v = h then "accepted"
            else if String.length v >= 6 && String.sub v 0 6 = "NONLIN" then "rejected"
            else "malformed"
          | "e2e" :: rest -> run_e2e variant rest
          | ("ae2e" | "rae2e") :: rest -> run_ae2e variant rest (if idx < Array.length impl then tokens impl.(idx) else [])
          | "rpppoe" :: rest -> run_restore true variant rest
          | "ripoe" :: rest -> run_restore ~halfopen_unclaimed:(vname = "pre_d2827a3") false variant rest
          | "ipoe" :: rest -> run_callers proto_ipoe rest (if idx < Array.length impl then tokens impl.(idx) else [])
          | "pppoe" :: rest -> run_callers ~any:variant.v_evict_pp proto_pppoe rest (if idx < Array.length impl then tokens impl.(idx) else [])
          | "seq" :: rest -> run_seq rest (if idx < Array.length impl then tokens impl.(idx) else [])
          | ("conc" | "rconc") :: rest ->
            if idx < Array.length impl then begin
              let progs = parse_conc rest in
              (* one or more repetitions of the scenario, separated by '|' *)
              let hs = List.map String.trim (String.split_on_char '|' impl.(idx)) in
              let rec go i = function
                | [] -> impl.(idx)
                | h :: r ->
                  let v = check_conc progs h in
                  if v = h then go (i + 1) r else Printf.sprintf "%s rep=%d history=[%s]" v i h in
              go 0 hs
            end else "NOIMPL"
          | _ -> "badline"
        with Failure why -> "MODELERR " ^ why | Not_found -> "MODELERR notfound" in
      print_endline out) lines
