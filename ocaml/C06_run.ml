(* C06 driver: one case per input line, one result line per case (formats: see props/C06.py).
   argv[1] = cases, argv[2] = "-" (unused), argv[3] = variant: repaired | def_rguard (| defective | lns_found | def_restore: historical) *)
let flags_of = function
  | "def_rguard" -> def_rguard        (* historical: before 7efc399 *)
  | "def_restore" -> def_restore      (* historical: before 8205ad2 *)
  | "defective" -> defective          (* historical: pkg/ppp + PPPoE before 54fb851 / 95b0af2 / bc32486 *)
  | "lns_found" -> lns_found          (* historical: LNS before ce9ad2f *)
  | _ -> repaired

let hexs (l : n list) : string = String.concat "" (List.map (fun x -> Printf.sprintf "%02x" (int_of_n x)) l)
let unhex (t : string) : n list = if t = "-" || t = "" then [] else bytes_of_hex t
let ip_tok (t : string) : n list option = if t = "n" then None else Some (unhex t)
let show_ip = function None -> "n" | Some b -> "h" ^ hexs b

let opts_of (t : string) : opt list =
  if t = "-" then [] else
  List.map (fun p ->
    let i = String.index p '.' in
    { o_type = n_of_int (int_of_string (String.sub p 0 i));
      o_data = unhex (String.sub p (i + 1) (String.length p - i - 1)) })
    (String.split_on_char ',' t)

let show_opts ?(sugg = false) (os : opt list) : string =
  if os = [] then "-" else
  String.concat "," (List.map (fun o ->
    string_of_int (int_of_n o.o_type) ^ "." ^ (if sugg then "S" else hexs o.o_data)) os)

let show_res ?(sugg = false) (r : res) : string =
  "A=" ^ show_opts r.r_ack ^ " N=" ^ show_opts ~sugg r.r_nak ^ " R=" ^ show_opts r.r_rej

let show_ipeer (p : ipcp_peer) = show_ip p.pp_addr ^ " " ^ show_ip p.pp_dns1 ^ " " ^ show_ip p.pp_dns2
let show_lpeer (p : lcp_peer) =
  Printf.sprintf "%s %s %s %s" (decimal_of_n p.lp_mru) (decimal_of_n p.lp_magic) (decimal_of_n p.lp_auth) (decimal_of_n p.lp_algo)

let ipcp_cfg_of pa d1 d2 =
  mk_ipcp_cfg (ip_tok pa) (if d1 = "d" then None else Some (ip_tok d1, ip_tok d2))

(* enough oracle entries for any request: the suggestion itself is projected away *)
let oracle = List.init 300 (fun _ -> [])

let sta_ids = ref true
let show_acts ?(sugg = false) ?(callbacks = true) ?(req = None) (acts : act list) : string =
  let l = List.filter_map (function
    | Scr -> (match req with None -> Some "scr" | Some os -> Some ("scr:" ^ show_opts os))
    | Sca (id, os) -> Some (Printf.sprintf "sca:%d:%s" (int_of_n id) (show_opts os))
    | Scn (id, os) -> Some (Printf.sprintf "scn:%d:%s" (int_of_n id) (show_opts ~sugg os))
    | Scj (id, os) -> Some (Printf.sprintf "scj:%d:%s" (int_of_n id) (show_opts os))
    | Sta id -> Some (if !sta_ids then Printf.sprintf "sta:%d" (int_of_n id) else "sta")
    | Tlu -> if callbacks then Some "tlu" else None
    | Tld -> if callbacks then Some "tld" else None) acts in
  if l = [] then "-" else String.concat " " l

let show_addr = function
  | None -> "nil"
  | Some b -> (match to4 b with Some v -> "h" ^ hexs v | None -> "h" ^ hexs b)

(* The choice the property leaves to the implementation when nothing usable is assigned: which non-zero
   proposals it refuses.  It is read off the implementation's own line (every 3.<4 non-zero bytes> entry of a
   Reject list) and handed to the model, which consults it ONLY in that mode: with a usable assignment a
   rejected proposal still makes the model answer Nak, i.e. the lines differ. *)
let refused_of (impl : string) : string list =
  let acc = ref [] in
  let add_list l =
    if l <> "-" then List.iter (fun p ->
      if String.length p = 10 && String.sub p 0 2 = "3." && String.sub p 2 8 <> "00000000" then
        acc := String.sub p 2 8 :: !acc) (String.split_on_char ',' l) in
  List.iter (fun tok ->
    let n = String.length tok in
    if n > 2 && String.sub tok 0 2 = "R=" then add_list (String.sub tok 2 (n - 2))
    else if n > 4 && String.sub tok 0 4 = "scj:" then
      (match String.split_on_char ':' tok with [_; _; l] -> add_list l | _ -> ())) (tokens impl);
  !acc

let () =
  let lines = read_lines Sys.argv.(1) in
  let impl_lines = if Array.length Sys.argv > 2 && Sys.argv.(2) <> "-" then read_lines Sys.argv.(2) else [] in
  let impl_arr = Array.of_list impl_lines in
  let idx = ref (-1) in
  let fl = flags_of (if Array.length Sys.argv > 3 then Sys.argv.(3) else "repaired") in
  let cur = Buffer.create 1024 in
  let emit s = Buffer.add_string cur s in
  List.iter (fun line ->
    incr idx;
    let impl_line = if !idx < Array.length impl_arr then Some impl_arr.(!idx) else None in
    let refused = match impl_line with Some l -> refused_of l | None -> [] in
    let refuse (b : n list) : bool = List.mem (hexs b) refused in
    (* the second free choice: when ProcessConfReq records the proposed values in peer.* — option by option
       (/repo HEAD) or only from a wholly acceptable request.  Both are admissible: the line is rendered for
       the first and, if the implementation's line differs, for the second. *)
    let render (stage : bool) =
    Buffer.clear cur; sta_ids := true;
    let ipcp_cfg_of pa d1 d2 = with_stage (with_refuse (ipcp_cfg_of pa d1 d2) refuse) stage in
    let refuse = (refuse, stage) in
    (try
    match tokens line with
    | "ipcp" :: pa :: d1 :: d2 :: reqs ->
      let c = ipcp_cfg_of pa d1 d2 in
      let (outs, p) = List.fold_left (fun (acc, p) rq ->
          let (r, p') = ipcp_req_c c p (opts_of rq) in (show_res r :: acc, p')) ([], ipeer0) reqs in
      emit (String.concat " | " (List.rev outs) ^ " ; P=" ^ show_ipeer p)
    | "lcp" :: magic :: reqs ->
      let m = n_of_decimal magic in
      let (outs, p) = List.fold_left (fun (acc, p) rq ->
          let (r, p') = lcp_req fl m p (opts_of rq) in (show_res ~sugg:true r :: acc, p')) ([], lpeer0) reqs in
      emit (String.concat " | " (List.rev outs) ^ " ; P=" ^ show_lpeer p)
    | "v6" :: iid :: reqs ->
      let local = unhex iid in
      let (outs, p) = List.fold_left (fun (acc, p) rq ->
          let s = ipv6cp_req local p oracle (opts_of rq) in
          (show_res ~sugg:true s.v6_res :: acc, s.v6_peer)) ([], List.init 8 (fun _ -> N0)) reqs in
      emit (String.concat " | " (List.rev outs) ^ " ; P=" ^ hexs p)
    | "fsm" :: "i" :: pa :: d1 :: d2 :: st :: id :: [wire] ->
      let c = ipcp_cfg_of pa d1 d2 in
      let ((acts, st'), p) = ipcp_input c (n_of_int (int_of_string st)) ipeer0 (n_of_int (int_of_string id)) (unhex wire) in
      let v = match parse_wire (unhex wire) with
        | Ok os -> show_res (fst (ipcp_req c ipeer0 os)) | _ -> "unparsed" in
      Printf.bprintf cur "%s ; st=%d ; P=%s ; V %s\n" (show_acts acts) (int_of_n st') (show_ipeer p) v
    | "fsm" :: "l" :: magic :: st :: id :: [wire] ->
      let ((acts, st'), p) = lcp_input fl (n_of_decimal magic) (n_of_int (int_of_string st)) lpeer0
          (n_of_int (int_of_string id)) (unhex wire) in
      let v = match parse_wire (unhex wire) with
        | Ok os -> show_res ~sugg:true (fst (lcp_req fl (n_of_decimal magic) lpeer0 os)) | _ -> "unparsed" in
      Printf.bprintf cur "%s ; st=%d ; P=%s ; V %s\n" (show_acts ~sugg:true acts) (int_of_n st') (show_lpeer p) v
    | "fsm" :: "6" :: iid :: st :: id :: [wire] ->
      let ((acts, st'), p) = ipv6cp_input (unhex iid) (n_of_int (int_of_string st)) (List.init 8 (fun _ -> N0)) oracle
          (n_of_int (int_of_string id)) (unhex wire) in
      let v = match parse_wire (unhex wire) with
        | Ok os -> show_res ~sugg:true (ipv6cp_req (unhex iid) (List.init 8 (fun _ -> N0)) oracle os).v6_res | _ -> "unparsed" in
      Printf.bprintf cur "%s ; st=%d ; P=%s ; V %s\n" (show_acts ~sugg:true acts) (int_of_n st') (hexs p) v
    | "hh" :: proto :: rest ->
      (* two objects of one protocol with different configurations; ops are prefixed with the object index *)
      let secs = Str.split (Str.regexp_string " | ") (String.concat " " rest) in
      (match secs with
       | [c0; c1; opsl] ->
         let ops = tokens opsl in
         (match proto with
          | "i" ->
            let mk c = (match tokens c with [pa; d1; d2] -> { io_cfg = ipcp_cfg_of pa d1 d2; io_peer = ipeer0 } | _ -> failwith "cfg") in
            let st = [| mk c0; mk c1 |] in
            let outs = List.map (fun tok ->
                let i = Char.code tok.[0] - 48 in
                let tl = String.sub tok 2 (String.length tok - 2) in
                let op = match tok.[1] with
                  | 'q' -> IReq (opts_of tl) | 'a' -> IAck (opts_of tl) | 'n' -> INak (opts_of tl) | 'j' -> IRej (opts_of tl)
                  | 'P' -> ISetPeer (ip_tok tl)
                  | 'D' -> (match String.split_on_char '/' tl with [x; y] -> ISetDNS (ip_tok x, ip_tok y) | _ -> failwith "D")
                  | _ -> failwith "op" in
                let (s', r) = iobj_step fl st.(i) op in
                st.(i) <- s';
                match r with Some r -> show_res r | None -> "B=" ^ show_opts (build_confreq s'.io_cfg)) ops in
            emit (String.concat " | " outs ^ " ; P=" ^ show_ipeer st.(0).io_peer ^ " ; P=" ^ show_ipeer st.(1).io_peer)
          | "l" ->
            let st = [| lobj0 (n_of_decimal (String.trim c0)); lobj0 (n_of_decimal (String.trim c1)) |] in
            let outs = List.map (fun tok ->
                let i = Char.code tok.[0] - 48 in
                let tl = String.sub tok 2 (String.length tok - 2) in
                let op = match tok.[1] with
                  | 'q' -> LReq (opts_of tl) | 'a' -> LAck (opts_of tl) | 'n' -> LNak (opts_of tl) | 'j' -> LRej (opts_of tl)
                  | 'M' -> LSetMagic (n_of_decimal tl)
                  | _ -> failwith "op" in
                let (s', r) = lobj_step fl st.(i) op in
                st.(i) <- s';
                match r with Some r -> show_res ~sugg:true r | None -> "B=" ^ show_opts (lcp_build s')) ops in
            emit (String.concat " | " outs ^ " ; P=" ^ show_lpeer st.(0).lo_peer ^ " ; P=" ^ show_lpeer st.(1).lo_peer)
          | _ ->
            let mk c = { vo_local = unhex (String.trim c); vo_rej = []; vo_peer = List.init 8 (fun _ -> N0) } in
            let st = [| mk c0; mk c1 |] in
            let outs = List.map (fun tok ->
                let i = Char.code tok.[0] - 48 in
                let tl = String.sub tok 2 (String.length tok - 2) in
                let op = match tok.[1] with
                  | 'q' -> VReq (opts_of tl, oracle) | 'a' -> VAck (opts_of tl) | 'n' -> VNak (opts_of tl) | 'j' -> VRej (opts_of tl)
                  | _ -> failwith "op" in
                let (s', r) = v6obj_step st.(i) op in
                st.(i) <- s';
                match r with Some r -> show_res ~sugg:true r | None -> "B=" ^ show_opts (v6_build s')) ops in
            emit (String.concat " | " outs ^ " ; P=" ^ hexs st.(0).vo_peer ^ " ; P=" ^ hexs st.(1).vo_peer))
       | _ -> emit "badline")
    | "hi" :: pa :: d1 :: d2 :: ops ->
      let s0 = { io_cfg = ipcp_cfg_of pa d1 d2; io_peer = ipeer0 } in
      let (outs, s) = List.fold_left (fun (acc, s) tok ->
          let tl = String.sub tok 1 (String.length tok - 1) in
          let op = match tok.[0] with
            | 'q' -> IReq (opts_of tl) | 'a' -> IAck (opts_of tl) | 'n' -> INak (opts_of tl) | 'j' -> IRej (opts_of tl)
            | 'P' -> ISetPeer (ip_tok tl) | 'L' -> ISetAddr (ip_tok tl)
            | 'D' -> (match String.split_on_char '/' tl with [x; y] -> ISetDNS (ip_tok x, ip_tok y) | _ -> failwith "D")
            | _ -> failwith "op" in
          let (s', r) = iobj_step fl s op in
          let o = match r with Some r -> show_res r | None -> "B=" ^ show_opts (build_confreq s'.io_cfg) in
          (o :: acc, s')) ([], s0) ops in
      emit (String.concat " | " (List.rev outs) ^ " ; P=" ^ show_ipeer s.io_peer)
    | "hl" :: magic :: ops ->
      let (outs, s) = List.fold_left (fun (acc, s) tok ->
          let tl = String.sub tok 1 (String.length tok - 1) in
          let op = match tok.[0] with
            | 'q' -> LReq (opts_of tl) | 'a' -> LAck (opts_of tl) | 'n' -> LNak (opts_of tl) | 'j' -> LRej (opts_of tl)
            | 'M' -> LSetMagic (n_of_decimal tl) | 'U' -> LSetMRU (n_of_decimal tl)
            | 'T' -> (match String.split_on_char '/' tl with [x; y] -> LSetAuth (n_of_decimal x, n_of_decimal y) | _ -> failwith "T")
            | _ -> failwith "op" in
          let (s', r) = lobj_step fl s op in
          let o = match r with Some r -> show_res ~sugg:true r | None -> "B=" ^ show_opts (lcp_build s') in
          (o :: acc, s')) ([], lobj0 (n_of_decimal magic)) ops in
      emit (String.concat " | " (List.rev outs) ^ " ; P=" ^ show_lpeer s.lo_peer)
    | "h6" :: iid :: ops ->
      let s0 = { vo_local = unhex iid; vo_rej = []; vo_peer = List.init 8 (fun _ -> N0) } in
      let (outs, s) = List.fold_left (fun (acc, s) tok ->
          let tl = String.sub tok 1 (String.length tok - 1) in
          let op = match tok.[0] with
            | 'q' -> VReq (opts_of tl, oracle) | 'a' -> VAck (opts_of tl) | 'n' -> VNak (opts_of tl) | 'j' -> VRej (opts_of tl)
            | 'I' -> VSetID (unhex tl)
            | _ -> failwith "op" in
          let (s', r) = v6obj_step s op in
          let o = match r with Some r -> show_res ~sugg:true r | None -> "B=" ^ show_opts (v6_build s') in
          (o :: acc, s')) ([], s0) ops in
      emit (String.concat " | " (List.rev outs) ^ " ; P=" ^ hexs s.vo_peer)
    | (("sess" | "lns") as kind) :: start :: evs ->
      sta_ids := false;
      (* <aaa>[/<alloc>[/<reserve>]]: aaa = none | hex; alloc = none | full | hex (pool allocation result);
         reserve = ok | cf (ReserveIP of the session's address) *)
      let ow = if kind = "lns" then LNS else PPPoE in
      let split3 t = match String.split_on_char '/' t with
        | [a] -> (a, "none", "ok") | [a; b] -> (a, b, "ok") | a :: b :: c :: _ -> (a, b, c) | [] -> ("none", "none", "ok") in
      (* optional 4th field of the start token: AAA DNS servers "<dns1|n>,<dns2|n>" (16-byte form) *)
      let aaa_dns = match String.split_on_char '/' start with
        | _ :: _ :: _ :: d :: _ -> (match String.split_on_char ',' d with
            | [x; y] -> ((if x = "n" then None else Some (unhex x)), (if y = "n" then None else Some (unhex y)))
            | _ -> (None, None))
        | _ -> (None, None) in
      let orc_of al rs = { or_alloc = (if al = "none" || al = "full" then None else Some (unhex al));
                           or_reserve_ok = (rs <> "cf") } in
      let aaa_of a = if a = "none" then None else Some (unhex a) in
      let (a0, al0, rs0) = split3 start in
      let s0 = if String.length a0 > 8 && String.sub a0 0 8 = "restore:"
        then sess_restore_f fl (unhex (String.sub a0 8 (String.length a0 - 8))) None None refuse
        else sess_start_dns fl ow (aaa_of a0) (if ow = PPPoE then aaa_dns else (None, None)) (orc_of al0 rs0) refuse in
      let restored = String.length a0 > 8 && String.sub a0 0 8 = "restore:" in
      let first = (if kind = "sess" && not restored then "lcp=ok " else "") ^
                  (if int_of_n s0.s_fsm = 0 || int_of_n s0.s_fsm = 9 then "-" else "scr:" ^ show_opts s0.s_lastreq) ^ " a=" ^ show_addr s0.s_addr ^ " pa=" ^ show_addr s0.s_cfg.ic_assigned in
      let (outs, _) = List.fold_left (fun (acc, s) ev ->
          let tl = String.sub ev 1 (String.length ev - 1) in
          let e = if ev = "k" then EvAck
            else if ev.[0] = 'a' then EvAckW (unhex tl)
            else if ev.[0] = 'n' then EvNak (unhex tl)
            else if ev.[0] = 'j' then EvRej (unhex tl)
            else if ev.[0] = 'S' then EvStale
            else if ev.[0] = 't' then EvTermReq (n_of_int (int_of_string tl))
            else if ev = "o" then EvStoppingTimeout
            else if ev = "D" then EvDown
            else if ev = "T" then EvTimeout
            else if ev = "X" then EvExhaust
            else if ev.[0] = 'R' then (let (a, al, rs) = split3 tl in EvReauth (aaa_of a, orc_of al rs))
            else
              let i = String.index ev '.' in
              EvReq (n_of_int (int_of_string (String.sub ev 1 (i - 1))),
                     unhex (String.sub ev (i + 1) (String.length ev - i - 1))) in
          let (s', acts) = sess_step fl s e in
          if s.s_owner = Ended then ("ended" :: acc, s') else
          (Printf.sprintf "%s up=%d a=%s pa=%s pn=%s" (show_acts ~callbacks:false ~req:(Some s'.s_lastreq) acts) (if s'.s_open then 1 else 0) (show_addr s'.s_addr) (show_addr s'.s_cfg.ic_assigned) (if int_of_n s'.s_fsm = 0 then "-" else show_addr s'.s_peer.pp_addr) :: acc, s'))
          ([first], s0) evs in
      emit (String.concat " | " (List.rev outs))
    | (("s6" | "l6") as k6) :: mac :: evs ->
      (* IPv6CP inside a PPPoE session: <bng mac> then events q<id>.<wire> | e<id> | k | n<wire> | j<wire> | R
         l6: inside an LNS session: no identifier is installed, the random default of NewIPv6CP stays; it is
         taken from the implementation's first line (lid=) *)
      let m = if k6 = "s6" then iid_from_mac (unhex mac) else begin
          let impl = if !idx < Array.length impl_arr then impl_arr.(!idx) else "" in
          let first = match String.split_on_char '|' impl with x :: _ -> x | [] -> "" in
          List.fold_left (fun acc tok ->
            if String.length tok = 20 && String.sub tok 0 4 = "lid=" then unhex (String.sub tok 4 16) else acc)
            (List.init 8 (fun _ -> N0)) (tokens first) end in
      let show s acts = Printf.sprintf "%s up=%d lid=%s"
          (let l = List.filter_map (function
             | Scr -> Some ("scr:" ^ show_opts s.vs_last)
             | Sca (id, os) -> Some (Printf.sprintf "sca:%d:%s" (int_of_n id) (show_opts os))
             | Scn (id, os) -> Some (Printf.sprintf "scn:%d:%s" (int_of_n id) (show_opts ~sugg:true os))
             | Scj (id, os) -> Some (Printf.sprintf "scj:%d:%s" (int_of_n id) (show_opts os))
             | Sta id -> Some "sta"
             | _ -> None) acts in if l = [] then "-" else String.concat " " l)
          (if s.vs_open then 1 else 0) (hexs s.vs_obj.vo_local) in
      let ended = ref false in
      let (s1, a1) = v6sess_step (v6sess0 (List.init 8 (fun _ -> N0))) (V6Start m) in
      let (outs, _) = List.fold_left (fun (acc, s) ev ->
          let tl = String.sub ev 1 (String.length ev - 1) in
          let e = match ev.[0] with
            | 'q' -> let i = String.index ev '.' in
              V6Req (n_of_int (int_of_string (String.sub ev 1 (i - 1))),
                     unhex (String.sub ev (i + 1) (String.length ev - i - 1)), oracle)
            | 'e' -> V6Echo (n_of_int (int_of_string tl), oracle)
            | 'k' -> V6Ack
            | 'n' -> V6Nak (unhex tl)
            | 'j' -> V6Rej (unhex tl)
            | 'R' -> V6Down          (* PPPoE: the renegotiation ends the session before any re-authentication *)
            | 'D' -> V6Down
            | 'T' -> V6Timeout
            | _ -> failwith "ev" in
          if !ended then ("ended" :: acc, s) else begin
            (if ev.[0] = 'R' || ev.[0] = 'D' then ended := true);
            let (s', acts) = v6sess_step s e in (show s' acts :: acc, s') end) ([show s1 a1], s1) evs in
      emit (String.concat " | " (List.rev outs))
    | "pa" :: evs ->
      sta_ids := false;
      (* authentication gate: events before the AAA verdict: i<id>.<wire> / 6<id>.<wire> (IPCP / IPv6CP
         Configure-Request through the dispatcher), F (reject), S<aaa> (accept), T (LCP restart timer);
         after S: q<id>.<wire>, k as in sess *)
      let show_sess (s : sess) acts = Printf.sprintf "%s up=%d a=%s pa=%s"
          (show_acts ~callbacks:false ~req:(Some s.s_lastreq) acts) (if s.s_open then 1 else 0)
          (show_addr s.s_addr) (show_addr s.s_cfg.ic_assigned) in
      let (outs, _) = List.fold_left (fun (acc, st) ev ->
          let tl = String.sub ev 1 (String.length ev - 1) in
          let req v6 = let i = String.index ev '.' in
            ANcpReq (v6, n_of_int (int_of_string (String.sub ev 1 (i - 1))),
                     unhex (String.sub ev (i + 1) (String.length ev - i - 1))) in
          let e = match ev.[0] with
            | 'i' | 'q' -> req false
            | '6' -> req true
            | 'F' -> AFail
            | 'S' -> AOk ((if tl = "none" then None else Some (unhex tl)), (None, None),
                          { or_alloc = None; or_reserve_ok = true }, refuse)
            | 'T' -> ATimeout
            | 'k' -> ASess EvAck
            | _ -> failwith "ev" in
          let ((st', acts), ntr) = astep fl st e in
          let line = match st' with
            | AStarted s -> show_sess s acts
            | APre -> "- pre"
            | AFailed _ -> Printf.sprintf "- closing tr=%d" (int_of_nat ntr)
            | AClosed -> "- closed" in
          (line :: acc, st')) ([], APre) evs in
      emit (String.concat " | " (List.rev outs))
    | ("sl" | "ll") :: start :: evs ->
      (* LCP inside a PPPoE session: start = "fresh" (initPPP + up; the random magic is what the implementation's
         first Configure-Request announces) | "restore:<magic hex8>" (installInMemoryState) *)
      let impl = if !idx < Array.length impl_arr then impl_arr.(!idx) else "" in
      let restored = String.length start > 8 && String.sub start 0 8 = "restore:" in
      let announced =
        (* 5.<8 hex> inside the first scr: token of the implementation's first segment *)
        let first = match String.split_on_char '|' impl with x :: _ -> x | [] -> "" in
        List.fold_left (fun acc tok ->
          if String.length tok > 4 && String.sub tok 0 4 = "scr:" then
            List.fold_left (fun acc p -> if String.length p = 10 && String.sub p 0 2 = "5." then
                                Some (String.sub p 2 8) else acc) acc
              (String.split_on_char ',' (String.sub tok 4 (String.length tok - 4)))
          else acc) None (tokens first) in
      let n_of_hex8 h = n_of_decimal (string_of_int (int_of_string ("0x" ^ h))) in
      let s0, a0 =
        if restored then
          (* without a checkpointed magic (0) the random one of NewLCP stays: taken from the implementation *)
          let first = match String.split_on_char '|' impl with x :: _ -> x | [] -> "" in
          let rnd = List.fold_left (fun acc tok ->
              if String.length tok = 11 && String.sub tok 0 3 = "lm=" then n_of_hex8 (String.sub tok 3 8) else acc)
              N0 (tokens first) in
          (lsess_restored rnd (n_of_hex8 (String.sub start 8 8)), [])
        else lsess_step fl (lsess0 (match announced with Some h -> n_of_hex8 h | None -> N0)) SLStart in
      let show (s : lsess) acts =
        let l = List.filter_map (function
          | Scr -> Some ("scr:" ^ show_opts s.ls_last)
          | Sca (id, os) -> Some (Printf.sprintf "sca:%d:%s" (int_of_n id) (show_opts os))
          | Scn (id, os) -> Some (Printf.sprintf "scn:%d:%s" (int_of_n id) (show_opts ~sugg:true os))
          | Scj (id, os) -> Some (Printf.sprintf "scj:%d:%s" (int_of_n id) (show_opts os))
          | Sta id -> Some "sta"
          | _ -> None) acts in
        Printf.sprintf "%s up=%d lm=%s" (if l = [] then "-" else String.concat " " l)
          (if s.ls_open then 1 else 0) (hexs (put32 s.ls_obj.lo_magic)) in
      let ended = ref false in
      let (outs, _) = List.fold_left (fun (acc, s) ev ->
          if !ended then ("ended" :: acc, s) else begin
          let tl = String.sub ev 1 (String.length ev - 1) in
          let e = match ev.[0] with
            | 'q' -> let i = String.index ev '.' in
              SLReq (n_of_int (int_of_string (String.sub ev 1 (i - 1))),
                     unhex (String.sub ev (i + 1) (String.length ev - i - 1)))
            | 'e' -> SLEcho (n_of_int (int_of_string tl))
            | 'k' -> SLAck
            | 'n' -> SLNak (unhex tl)
            | 'j' -> SLRej (unhex tl)
            | 'T' -> SLTimeout
            | _ -> failwith "ev" in
          let (s', acts) = lsess_step fl s e in
          (* a restored session is in the Open phase: LCP leaving Opened ends it (e9950ea) *)
          if restored && List.mem Tld acts then ended := true;
          (show s' acts :: acc, s') end) ([show s0 a0], s0) evs in
      emit (String.concat " | " (List.rev outs))
    | _ -> emit "badline"
    with e -> emit ("modelerror " ^ Printexc.to_string e));
    let r = Buffer.contents cur in
    let n = String.length r in
    if n > 0 && r.[n - 1] = '\n' then String.sub r 0 (n - 1) else r in
    let a = render false in
    let out = match impl_line with
      | Some l when l <> a -> let b = render true in if b = l then b else a
      | _ -> a in
    print_endline out) lines
