(* C03 driver: one case per input line, one result line per case.
   argv: cases file, impl output file or "-", variant ("repaired" | "defective" | "noteardown" | "heldanswer").
   pppoe <pool> <ev>...   events:  o:<i>  f:<i>:<proto>:<kind>  a:<k>:<acc|accip|rej|err>
                                   t:<i>:<lcp|ipcp|ip6cp|chap>  x:<i>  d:<i>  v:ok
     -> per step  <outs>|<slot status>,...|<free>   joined by " ; "
        followed by " ; MON:<ok|VIOLATION@slot>" (the property monitor on the model's own trace) *)
let cframe_of = function
  | "creq_ok" -> Some (FCreq QGood) | "creq_nak" -> Some (FCreq QNak) | "creq_rej" -> Some (FCreq QRej)
  | "creq_bad" -> Some FCreqBad
  | "cack" -> Some (FCack true) | "cack_bad" -> Some (FCack false)
  | "cnak" -> Some (FCnak true) | "cnak_bad" -> Some (FCnak false)
  | "crej" -> Some (FCrej true) | "crej_bad" -> Some (FCrej false)
  | "treq" -> Some FTreq | "tack" -> Some FTack | "cdrej" -> Some FCdrej | "unkcode" -> Some FUnk
  | _ -> None
let frame_of proto kind =
  match proto, kind with
  | "lcp", "echoreq" -> Some (FrLcpX XEchoReq) | "lcp", "echorep" -> Some (FrLcpX XEchoRep)
  | "lcp", "discreq" -> Some (FrLcpX XDiscReq) | "lcp", "prej_ipcp" -> Some (FrLcpX XPrejIpcp)
  | "lcp", "prej_ip6cp" -> Some (FrLcpX XPrejIp6cp) | "lcp", "prej_other" -> Some (FrLcpX XPrejOther)
  | "lcp", "crej_auth" -> Some (FrLcpX XCrejAuth) | "lcp", "cnak_pap" -> Some (FrLcpX XCnakPap)
  | "lcp", "cnak_chap" -> Some (FrLcpX XCnakChap)
  (* any suggested protocol other than CHAP (0x0000, EAP, ...) is stored by ProcessConfNak like PAP is: the model
     only distinguishes "CHAP: a challenge is sent at LCP up" from "anything else: none is" *)
  | "lcp", "cnak_zero" | "lcp", "cnak_eap" -> Some (FrLcpX XCnakPap)
  | "lcp", "cnak_short" -> Some (FrLcp (FCnak true))
  | "lcp", "crej_all" -> Some (FrLcpX XCrejAuth)
  | "lcp", k -> (match cframe_of k with Some c -> Some (FrLcp c) | None -> None)
  | "ipcp", k -> (match cframe_of k with Some c -> Some (FrIpcp c) | None -> None)
  | "ip6cp", k -> (match cframe_of k with Some c -> Some (FrIp6cp c) | None -> None)
  | "pap", "req" -> Some FrPapReq | "pap", "req_bad" -> Some FrPapBad | "pap", "other" -> Some FrPapOther
  | "chap", "resp" -> Some FrChapResp | "chap", "resp_bad" -> Some FrChapBad | "chap", "other" -> Some FrChapOther
  | "ip6", "dh_sol" -> Some FrDh6Sol | "ip6", "dh_req" -> Some FrDh6Req
  | "ip6", "rs" -> Some FrRs | "ip6", "ns" -> Some FrNs | "ip6", "junk" -> Some FrIp6Junk
  | "unk", "ip4" -> Some FrUnkProto | "unk", "ccp" -> Some FrUnkProto | "unk", "short" -> Some FrShort
  | _ -> None
let event_of (tok : string) : event option =
  match String.split_on_char ':' tok with
  | ["o"; i] -> Some (EvOpen (nat_of_int (int_of_string i)))
  | ["f"; i; p; k] -> (match frame_of p k with Some f -> Some (EvFrame (nat_of_int (int_of_string i), f)) | None -> None)
  | ["a"; k; a] ->
    let a = (match a with "acc" -> Some AAcc | "accip" -> Some AAccIp | "rej" -> Some ARej | "err" -> Some AErr | _ -> None) in
    (match a with Some a -> Some (EvAAA (nat_of_int (int_of_string k), a)) | None -> None)
  | ["t"; i; t] ->
    let t = (match t with "lcp" -> Some TLcp | "ipcp" -> Some TIpcp | "ip6cp" -> Some TIp6cp | "chap" -> Some TChap | _ -> None) in
    (match t with Some t -> Some (EvTimer (nat_of_int (int_of_string i), t)) | None -> None)
  | ["x"; i] -> Some (EvPadt (nat_of_int (int_of_string i)))
  | ["d"; i] -> Some (EvDead (nat_of_int (int_of_string i)))
  | ["v"; "ok"] -> Some EvSbOk
  | ["v"; "fail"] -> Some EvSbFail
  | _ -> None
let show_out (o : out) : string option =
  let n = int_of_nat in
  match o with
  | OPads -> Some "PADS" | OLcp c -> Some ("L" ^ string_of_int (n c)) | OPap c -> Some ("P" ^ string_of_int (n c))
  | OChap c -> Some ("C" ^ string_of_int (n c)) | OIpcp c -> Some ("I" ^ string_of_int (n c))
  | OIp6cp c -> Some ("V" ^ string_of_int (n c)) | ORa -> Some "RA" | ONa -> Some "NA"
  | OReq k -> Some ("Q" ^ string_of_int (n k)) | OLifeA -> Some "lifeA" | OLifeR -> Some "lifeR"
  | ODh6Adv -> Some "ADV6" | ODh6Reply -> Some "REPLY6" | OSb6Add -> Some "sb6+"
  | OSb6Del -> Some "sb6-" | OSbPdAdd -> Some "sbpd+" | OSbPdDel -> Some "sbpd-"
  | OSbAdd -> Some "sbadd" | OSbDel -> Some "sbdel" | OProg -> Some "prog"
  | GAlloc | GLcpDown | GLcpUp -> None
let show_phase = function PDead -> "D" | PEstablish -> "E" | PAuth -> "A" | PNetwork -> "N" | POpen -> "O" | PTerminate -> "T"
let show_sess (s : sess) : string =
  if int_of_nat s.gen = 0 then "-" else
  Printf.sprintf "%s%s%d.%d.%d.%s" (if s.live then "l" else "d") (show_phase s.ph)
    (int_of_nat (fstate_num s.lcp.fs)) (int_of_nat (fstate_num s.ipcp.fs)) (int_of_nat (fstate_num s.ip6cp.fs))
    (match s.pend with None -> "n" | Some k -> string_of_int (int_of_nat k))
let run_pppoe (rt : bool) (rep : vr) (flav : string) (toks : string list) : string =
  match toks with
  | pool :: evs ->
    (* pool sizes: <ipv4> or <ipv4>/<ia_na>/<pd> *)
    let st = ref (match String.split_on_char '/' pool with
                  | [a; b; c] -> init3 (nat_of_int (int_of_string a)) (nat_of_int (int_of_string b)) (nat_of_int (int_of_string c))
                  | _ -> init (nat_of_int (int_of_string pool))) in
    let mons = Array.make 3 (Some mon0) in
    let mon = ref "ok" in
    let steps = List.map (fun tok ->
      (* R:<i>:<proto>:<kind>&a:<k>:<akind> — the frame is processed under the session lock while the answer, already
         matched by its pending id, waits for that lock.  handleAAAResponse re-checks the pending id under the lock,
         so this is the frame and then the answer: the two model steps, outputs concatenated. *)
      let evl = (if String.length tok > 2 && String.sub tok 0 2 = "S:" then
                   (* S:<event>&a:<k>:<akind> — the answer is held after it was matched (before it asks for the session
                      lock) while the event is handled completely: the event, then the answer *)
                   (match String.split_on_char '&' (String.sub tok 2 (String.length tok - 2)) with
                    | [a; b] ->
                      (match event_of a, event_of b with
                       | Some x, Some (EvAAA (k, ak)) ->
                         (* the match (first session whose pending id is k) is made in the state before the event; no
                            match: the answer is dropped there and then *)
                         (match find_idx (pend_matches rep k) !st.sl O with
                          | Some i -> Some [x; EvAAAHeld (i, k, ak)]
                          | None -> Some [x])
                       | _ -> None)
                    | _ -> None)
                 else if String.length tok > 2 && String.sub tok 0 2 = "R:" then
                   (match String.split_on_char '&' (String.sub tok 2 (String.length tok - 2)) with
                    | [a; b] -> (match event_of ("f:" ^ a), event_of b with Some x, Some y -> Some [x; y] | _ -> None)
                    | _ -> None)
                 else if String.length tok > 2 && (String.sub tok 0 2 = "g:" || String.sub tok 0 2 = "y:") then
                   (* a frame / PADT with this session's id from ANOTHER subscriber's identity (one key component differs):
                      no model event — nothing may happen *)
                   Some []
                 else (match event_of tok with Some e -> Some [e] | None -> None)) in
      match evl with
      | None -> "badev:" ^ tok
      | Some el ->
        let stepviol = ref 99 in
        let viol i = if i < !stepviol then stepviol := i in
        let before = !st.sl in
        let outs = List.concat_map (fun e ->
          let (st', outs) = step rep !st e in
          st := st';
          Array.iteri (fun i m -> match m with
            | None -> ()
            | Some m -> mons.(i) <- mon_run (nat_of_int i) [(e, outs)] m;
              if mons.(i) = None then viol i) mons;
          outs) el in
        (* retained state: a session that is in the indexes but not in Network/Open (its link is unauthenticated)
           must not hold a lease of any family — lease and dataplane session belong to an authenticated link *)
        List.iteri (fun i (s : sess) ->
          if s.live && not (in_net s.ph) && (s.alloc_pool || holds6 s) then viol i) !st.sl;
        (* teardown: a session that left the indexes during this step owns nothing in the registry any more *)
        List.iteri (fun i (s : sess) ->
          match List.nth_opt before i with
          | Some (b : sess) when b.live && b.gen = s.gen && not s.live && leaks s -> viol i
          | _ -> ()) !st.sl;
        if !mon = "ok" && !stepviol < 99 then mon := "VIOLATION@" ^ string_of_int !stepviol;
        let os = List.filter_map (fun (i, o) -> match show_out o with
          | None -> None
          | Some s -> Some ((if int_of_nat i >= 3 then "?" else string_of_int (int_of_nat i)) ^ s)) outs in
        String.concat "," os ^ "|" ^ String.concat "," (List.map show_sess !st.sl) ^ "|" ^ string_of_int (int_of_nat !st.free)
        ^ "/" ^ string_of_int (int_of_nat (fst !st.free6)) ^ "/" ^ string_of_int (int_of_nat (snd !st.free6))) evs in
    String.concat " ; " (("fsm=" ^ flav) :: steps) ^ " ; MON:" ^ !mon
  | [] -> "badcase"
(* ---------------- IPoE ----------------
   ipoe <pool4> <pool6> <ev>...  events: D:i R:i L:i:ok|bad Y:i:offer|ack|nak S:i Q:i N:i X:i
                                         a:i:cur|old|unk:acc|rej|err  v:ok|fail
   per step: sorted outputs "<slot>.<gen><token>" | per slot flags | free4/free6 ; then MON:ok|VIOLATION *)
let ievent_of (tok : string) : ievent option =
  let n s = nat_of_int (int_of_string s) in
  match String.split_on_char ':' tok with
  | ["D"; i] -> Some (IeDiscover (n i)) | ["R"; i] -> Some (IeRequest (n i))
  | ["L"; i; "ok"] -> Some (IeRelease (n i, true)) | ["L"; i; "bad"] -> Some (IeRelease (n i, false))
  | ["Y"; i; _] -> Some (IeServerMsg (n i))
  | ["S"; i] -> Some (IeSolicit (n i)) | ["Q"; i] | ["N"; i] -> Some (IeRequest6 (n i)) | ["X"; i] -> Some (IeRelease6 (n i))
  | ["a"; i; r; k] ->
    let r = (match r with "cur" -> Some RCur | "old" -> Some ROld | "unk" -> Some RUnk | _ -> None) in
    let k = (match k with "acc" -> Some true | "rej" | "err" -> Some false | _ -> None) in
    (match r, k with Some r, Some k -> Some (IeAAA (n i, r, k)) | _ -> None)
  | ["v"; "ok"] -> Some (IeCreated true) | ["v"; "fail"] -> Some (IeCreated false)
  | _ -> None
let show_iout = function
  | IQ -> "Q" | IOffer -> "OFFER" | IAck -> "ACK" | IAdv -> "ADV" | IReply -> "REPLY" | IRelReply -> "RREPLY"
  | ISbAdd -> "sbadd" | ISbDel -> "sbdel" | ISb4 true -> "sb4+" | ISb4 false -> "sb4-" | ISb6 true -> "sb6+" | ISb6 false -> "sb6-"
  | ILifeA -> "lifeA" | ILifeR -> "lifeR" | IProg -> "prog" | IExh6 -> "EXH6"
let b01 b = if b then "1" else "0"
let show_islot (sl : islot) : string =
  let s = sl.scur in
  if int_of_nat s.igen = 0 then "-" else
  "e" ^ b01 s.iex ^ "a" ^ b01 s.iappr ^ "f" ^ b01 s.iinfl ^ "c" ^ b01 s.icreated ^ "x" ^ b01 s.iclosing ^ "b" ^ b01 (s.ib4 <> None) ^ b01 s.ib6
(* [relay]: case kind ipoer — the access group's DHCPv4 profile is in relay mode.  The model has no relay mode: the steps
   are not predicted; the EXTRACTED Coq monitor judges the implementation's outputs and the expected verdict is "ok" (the
   property: nothing is handed to a session without an accept).  [relay_known] (variant relayunapproved = the code before
   2063a0c, historical) prints the monitor's verdict instead, i.e. reproduces a tree that violates it. *)
let run_ipoe ?(relay = false) ?(relay_known = false) (rep : bool) (implline : string) (toks : string list) : string =
  match toks with
  | p4s :: p6s :: evs ->
    let st = ref (iinit (nat_of_int (int_of_string p4s)) (nat_of_int (int_of_string p6s))) in
    let mon = ref imon0 and viol = ref false in
    let one (e : ievent) : (owner * iout) list =
        let cur = (match e with
          | IeAAA (i, RCur, _) -> (match List.nth_opt !st.isl (int_of_nat i) with Some sl -> (i, sl.scur.igen) | None -> (i, O))
          | _ -> (O, O)) in
        let existed = (match e with
          | IeAAA (i, RCur, _) -> (match List.nth_opt !st.isl (int_of_nat i) with Some sl -> sl.scur.iex | None -> false)
          | _ -> false) in
        let free_before = (List.length !st.p4.pfree, List.length !st.p6.pfree) in
        let (st', outs) = istep rep !st e in
        st := st';
        (match imon_outs outs (imon_in e cur !mon) with
         | Some m -> mon := m
         | None -> viol := true; mon := imon_in e cur !mon);
        if (List.length st'.p4.pfree < fst free_before || List.length st'.p6.pfree < snd free_before) && !mon.macc = [] then viol := true;
        (match e with
         | IeAAA (i, RCur, false) when existed ->
           (match List.nth_opt st'.isl (int_of_nat i) with
            | Some sl when not sl.scur.iex && not (holds_nothing_i st' cur sl.scur) -> viol := true
            | _ -> ())
         | _ -> ());
        outs in
    let show outs =
        (* IA_PD (the harness configures a PD pool that is never exhausted and every client message asks for IA_PD):
           ResolveV6 / the provider / handleDHCPv6Reply / onSessionCreated / handleDHCPv6Release treat the delegated
           prefix exactly alongside the IA_NA address, so the dataplane prefix call accompanies every IPv6 address
           call.  The Coq model has no separate PD state; this derived token is what is compared, and the monitors
           (sb6+ and sbpd+ are both service outputs) gate it. *)
        let outs = List.concat_map (fun ((i, g), o) ->
          let w = string_of_int (int_of_nat i) ^ "." ^ string_of_int (int_of_nat g) in
          match o with
          | ISb6 b -> [w ^ show_iout o; w ^ (if b then "sbpd+" else "sbpd-")]
          | _ -> [w ^ show_iout o]) outs in
        let os = List.sort compare outs in
        let is_life t = String.length t >= 5 && String.sub t (String.length t - 5) 5 = "lifeA" in
        let rec dedup = function a :: (b :: _ as r) when a = b && is_life a -> dedup r | a :: r -> a :: dedup r | [] -> [] in
        let os = dedup os in
        String.concat "," os ^ "|" ^ String.concat "," (List.map show_islot !st.isl) ^ "|" ^
        string_of_int (List.length !st.p4.pfree) ^ "/" ^ string_of_int (List.length !st.p6.pfree) in
    (* Outside the modelled domain: the IA_NA pool is exhausted (see below; the generator's default of 16 addresses for
       at most three subscribers never gets there, the cases with 0 / 1 / 2 addresses do).  The model stops predicting
       outputs and state.
       The gap is bounded at the property level: from there on the EXTRACTED COQ MONITOR (imon_in / imon_outs) is run on
       the implementation's own outputs for the rest of the case — an answer counts for the slot's latest attempt seen
       in the trace — and its verdict, not the harness's, ends the line.  The step texts are echoed. *)
    let impl_steps = Array.of_list (Str.split (Str.regexp_string " ; ") implline) in
    let aliases = ref [] in
    let giveup = ref relay in
    let idx = ref (-1) in
    let maxgen = Array.make 3 0 in
    let iout_of_token (t : string) : iout option =
      (match t with
       | "Q" -> Some IQ | "OFFER" -> Some IOffer | "ACK" -> Some IAck | "ADV" -> Some IAdv | "REPLY" | "REPLYPD" -> Some IReply
       | "RREPLY" -> Some IRelReply | "sbadd" -> Some ISbAdd | "sbdel" -> Some ISbDel | "sb4+" -> Some (ISb4 true)
       | "sb4-" -> Some (ISb4 false) | "sb6+" | "sbpd+" -> Some (ISb6 true) | "sb6-" | "sbpd-" -> Some (ISb6 false)
       | "lifeA" -> Some ILifeA | "lifeR" -> Some ILifeR | "prog" -> Some IProg | _ -> None) in
    let parse_impl_outs (txt : string) : (owner * iout) list =
      let outs = (match String.index_opt txt '|' with Some k -> String.sub txt 0 k | None -> txt) in
      List.filter_map (fun tok ->
        (* <slot>.<gen><TOKEN> *)
        let n = String.length tok in
        let j = ref 0 in
        while !j < n && (tok.[!j] = '.' || (tok.[!j] >= '0' && tok.[!j] <= '9')) do incr j done;
        (match String.split_on_char '.' (String.sub tok 0 !j) with
         | [a; b] when a <> "" && b <> "" ->
           let i = int_of_string a and g = int_of_string b in
           if i >= 0 && i < 3 && g > maxgen.(i) then maxgen.(i) <- g;
           (match iout_of_token (String.sub tok !j (n - !j)) with
            | Some o -> Some ((nat_of_int i, nat_of_int g), o)
            | None -> Some ((nat_of_int i, nat_of_int g), IExh6))   (* unknown token: not a service output *)
         | _ -> None)) (if outs = "" then [] else String.split_on_char ',' outs) in
    let judge_impl (evl : ievent list) : unit =
      (* run the Coq monitor on the implementation's outputs of this step *)
      let txt = if !idx < Array.length impl_steps then impl_steps.(!idx) else "" in
      let outs = parse_impl_outs txt in
      (* outputs first reveal new attempts (a Q of a new generation) — an answer is for the latest attempt *)
      List.iter (fun e ->
        let cur = (match e with IeAAA (i, RCur, _) -> (i, nat_of_int maxgen.(int_of_nat i)) | _ -> (O, O)) in
        mon := imon_in e cur !mon) evl;
      (match imon_outs outs !mon with Some m -> mon := m | None -> viol := true) in
    let steps = List.map (fun tok ->
      incr idx;
      let mark = (try Sys.getenv "C03_MARK_GAP" = "1" with Not_found -> false) in   (* measurement only *)
      let echo () = (if mark then "~" else "") ^ (if !idx < Array.length impl_steps then impl_steps.(!idx) else "EXH6") in
      let evl = (if String.length tok > 2 && String.sub tok 0 2 = "P:" then
                   List.filter_map ievent_of (String.split_on_char '&' (String.sub tok 2 (String.length tok - 2)))
                 else List.filter_map ievent_of [tok]) in
      (* the IA_NA pool is exhausted: ResolveV6 resolves a prefix only and the provider answers with the prefix alone
         (ADVERTISE / REPLY without IA_NA, prefix route, session bound); the model has no prefix-only binding (IA_PD is a
         token derived next to the address, above) — from here on the implementation's trace is judged as described *)
      if not !giveup && !st.p6.pfree = [] then giveup := true;
      if !giveup then (judge_impl evl; echo ()) else
      let has_exh l = List.exists (fun (_, o) -> o = IExh6) l in
      let show outs = if has_exh outs then (giveup := true; echo ()) else
        (List.iter (fun ((i, g), _) -> let i = int_of_nat i and g = int_of_nat g in if i < 3 && g > maxgen.(i) then maxgen.(i) <- g) outs;
         show outs) in
      (* P:<e1>&<e2> — the implementation runs e2 while e1 is held inside the dataplane add; handlers are atomic
         in the model (the test-and-clear of AAAInFlight is one critical section), so this is e1 then e2 *)
      if String.length tok > 2 && String.sub tok 0 2 = "P:" then
        (match String.split_on_char '&' (String.sub tok 2 (String.length tok - 2)) with
         | [a; b] -> (match ievent_of a, ievent_of b with
             | Some ea, Some eb -> let o1 = one ea in let o2 = one eb in show (o1 @ o2)
             | _ -> "badev:" ^ tok)
         | _ -> "badev:" ^ tok)
      else
      if String.length tok > 2 && String.sub tok 0 2 = "A:" then
        (* a packet of ANOTHER subscriber (identity differs from the slot's in one key component): none of the modelled
           sessions is touched; the stranger gets a pending session of its own (unified: one for both families) and one AAA
           request ("?Q") the first time it is heard of *)
        (let key = (match String.split_on_char ':' tok with [_; i; k; _] -> i ^ ":" ^ k | _ -> tok) in
         (* a REQUEST6 (RENEW) of a subscriber without a session is ignored (C03_ipoe_no_session_no_effect) *)
         let creates = (match String.split_on_char ':' tok with [_; _; _; "q"] -> false | _ -> true) in
         let first = creates && not (List.mem key !aliases) in
         if first then aliases := key :: !aliases;
         let s = show [] in
         if first then "?Q" ^ s else s)
      else
      match ievent_of tok with
      | None -> "badev:" ^ tok
      | Some e -> show (one e)) evs in
    let monres = "MON:" ^ (if relay && not relay_known then (if !viol then "ok(expected)" else "ok")
                           else if !viol then "VIOLATION" else "ok") in
    String.concat " ; " steps ^ " ; " ^ monres
  | _ -> "badcase"

(* the FSM table flavour (pkg/ppp/fsm.go as it is, or with the RFC 1661 cells repaired) is not constrained by
   this property: it is read from the implementation's line and echoed *)
let flavour_of (impl : string) : string =
  match String.split_on_char ' ' impl with
  | t :: _ when String.length t > 4 && String.sub t 0 4 = "fsm=" -> String.sub t 4 (String.length t - 4)
  | _ -> "cur"
let () =
  let lines = read_lines Sys.argv.(1) in
  let impl = if Array.length Sys.argv > 2 && Sys.argv.(2) <> "-" then Array.of_list (read_lines Sys.argv.(2)) else [||] in
  (* PPPoE variants: repaired = both open findings fixed; defective = /repo HEAD (neither); noteardown / heldanswer =
     only pppoe-reneg-keeps-dataplane / only pppoe-aaa-answer-after-teardown still open *)
  let variant = if Array.length Sys.argv > 3 then Sys.argv.(3) else "repaired" in
  let rep = variant <> "defective" in
  (* sbfailtwice = /repo HEAD today: known finding pppoe-vpp-failure-after-teardown open, everything else fixed *)
  let td = (variant = "repaired" || variant = "heldanswer" || variant = "sbfailtwice")
  and hl = (variant = "repaired" || variant = "noteardown" || variant = "sbfailtwice")
  and sf = (variant <> "sbfailtwice")
  (* unnamedlease = /repo HEAD today: known finding pppoe-dhcpv6-rereserve-drops-pool-name open, everything else fixed *)
  and nm = (variant <> "unnamedlease") in
  let td = td || variant = "unnamedlease" and hl = hl || variant = "unnamedlease" in
  List.iteri (fun idx line ->
    let il = if idx < Array.length impl then impl.(idx) else "" in
    match tokens line with
    | [] -> ()
    | "pppoe" :: rest ->
      let flav = flavour_of il in
      if flav <> "cur" && flav <> "rfc" then print_endline ("badflavour:" ^ flav) else
      print_endline (try run_pppoe rep { vrep = true; vrfc = (flav = "rfc"); vtd = td; vhl = hl; vsf = sf; vnm = nm } flav rest with e -> "modelerr:" ^ Printexc.to_string e)
    | ["radius"; fb; srv; at] ->
      let fb = (fb = "1") in
      let srv = (match srv with "accept" -> SrvAccept | "reject" -> SrvReject | "other" -> SrvOtherCode | _ -> SrvNoAnswer) in
      let topic = (match at with "ipoe" -> "osvbng:events:aaa:response:ipoe" | "pppoe" -> "osvbng:events:aaa:response:pppoe"
                               | "l2tp" -> "osvbng:events:aaa:response:l2tp" | _ -> "?") in
      Printf.printf "%s %s %s ids=ok %s\n" topic (if aaa_allowed fb srv then "allow" else "deny")
        (match radius_decide fb srv with VError -> "1" | _ -> "0") (if fb then "asked0" else "asked1")
    | "ipoec" :: rest | "ipoe" :: rest -> print_endline (try run_ipoe rep il rest with e -> "modelerr:" ^ Printexc.to_string e)
    | "ipoer" :: rest -> print_endline (try run_ipoe ~relay:true ~relay_known:(variant = "relayunapproved") true il rest
                                        with e -> "modelerr:" ^ Printexc.to_string e)
    | _ -> print_endline "badline") lines
