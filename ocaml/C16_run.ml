(* C16 driver.  argv[1] = cases, argv[2] = "-" (unused).  One model: what /repo HEAD does.
   One case per line:
     pair <oA> <oB> <ai> <am> <ar> <az> <aw> <bi> <bm> <br> <bz> <bw> <op>...
        op  sX:body:sid:t     X's protocol machine submits a message
            dX:k:t            deliver to X the k-th (mod) packet in transit towards X, removing it
            uX:k:t            same but the packet stays in transit (duplicate)
            xX:k              drop it
            jX:body|z:sid:ns:nr:t   inject a packet the peer never sent
            tX:t              Tick
            wX:rws            SetPeerWindow
     disp <rws> <op>...       single endpoint behind the real Dispatch (glue check), time fixed; state = ns,nr,cwnd,ssth
        op  i:m|z:ns:nr   inbound message (m = data, z = ZLB)     s:body:sid  send
     seqless <a> <b>
   Output: one token per op  <obs>/<ns>,<nr>,<cwnd>,<ssth>,<qlen>,<inflight>  then the logs. *)
let z_of_int (i : int) : z = if i = 0 then Z0 else if i > 0 then Zpos (pos_of_int i) else Zneg (pos_of_int (-i))
let int_of_z (x : z) : int = match x with Z0 -> 0 | Zpos p -> int_of_pos p | Zneg p -> - (int_of_pos p)
let zi = z_of_int and iz = int_of_z
let ios = int_of_string

let show_pkt (p : pkt) =
  Printf.sprintf "%s.%d.%d.%d" (match p.k_body with None -> "z" | Some b -> string_of_int (iz b))
    (iz p.k_sid) (iz p.k_ns) (iz p.k_nr)
let show_pkts l = "[" ^ String.concat "," (List.map show_pkt l) ^ "]"
(* writes that succeeded, then the write that failed (prefixed with !) *)
let show_pkts_f o er =
  "[" ^ String.concat "," (List.map show_pkt o @ (match er with None -> [] | Some p -> ["!" ^ show_pkt p])) ^ "]"
(* Tick: every attempted write in order, the failing positions prefixed with ! *)
let show_tick_obs drops = function
  | OTick (ret, o, dead) ->
    "T" ^ (match ret with None -> "z" | Some t -> string_of_int (iz t)) ^
    "[" ^ String.concat "," (List.mapi (fun i p -> (if List.mem i drops then "!" else "") ^ show_pkt p) o) ^ "]" ^
    (if dead then "!" else ".")
  | _ -> "?"
(* fault token: f<j> -> the (j+1)-th write of the operation fails; f<i>.<k> for Tick *)
let fault_of l = match l with [f] when String.length f > 1 && f.[0] = 'f' -> Some (nat_of_int (ios (String.sub f 1 (String.length f - 1)))) | _ -> None
let drops_of l = match l with [f] when String.length f > 1 && f.[0] = 'f' ->
    List.map ios (String.split_on_char '.' (String.sub f 1 (String.length f - 1))) | _ -> []
let show_obs = function
  | ONone -> "-"
  | OSubmit (o, er) -> "S" ^ show_pkts_f o er
  | ODeliver (h, o, er) -> "D" ^ (if h then "1" else "0") ^ "@" ^ show_pkts_f o er
  | OTick (ret, o, dead) ->
    "T" ^ (match ret with None -> "z" | Some t -> string_of_int (iz t)) ^ show_pkts o ^ (if dead then "!" else ".")
  | OWin -> "W"
  | ORefused -> "R"
let inflight q = List.length (List.filter (fun p -> iz p.p_att > 0) q)
let show_state (e : endpoint) =
  let c = e.e_ch in
  Printf.sprintf "%d,%d,%d,%d,%d,%d,%s" (iz c.c_ns) (iz c.c_nr) (iz c.c_cwnd) (iz c.c_ssth)
    (List.length c.c_q) (inflight c.c_q) (match c.c_zlb with None -> "z" | Some d -> string_of_int (iz d))
let show_zl l = String.concat "." (List.map (fun b -> string_of_int (iz b)) l)
let show_nl l = String.concat "." (List.map (fun b -> string_of_int (int_of_nat b)) l)
let side_of c = if c = 'A' then SA else SB
let ep_of (s : sys) x = match x with SA -> s.s_a | SB -> s.s_b
let other x = match x with SA -> SB | SB -> SA
let rec remove_nth k = function [] -> [] | x :: r -> if k = 0 then r else x :: remove_nth (k - 1) r

let mark k s = String.concat k (String.split_on_char '@' s)
let run_pair zlb_recv toks impl =
  match toks with
  | oa :: ob :: ai :: am :: ar :: az :: aw :: bi :: bm :: br :: bz :: bw :: ops ->
    let t5 a b c d e = ((((zi (ios a), zi (ios b)), zi (ios c)), zi (ios d)), zi (ios e)) in
    let s = ref (init_sys (t5 ai am ar az aw) (t5 bi bm br bz bw) (zi (ios oa)) (zi (ios ob))) in
    (* transit towards A / towards B: indices into the sender's e_sent *)
    let trA = ref [] and trB = ref [] in
    let tr x = match x with SA -> trA | SB -> trB in
    let out = Buffer.create 256 in
    let itoks = Array.of_list (tokens impl) in
    let opi = ref (-1) in
    (* the implementation's free choices, read from its own token for this op: the ZLB deadline it armed (7th state
       field) and — only when the packet's Nr is ahead of our Ns — whether it ignored that acknowledgement.  Both
       are validated by the model (deadline <= now + zlbDelay inside recv; ignoring only for an Nr from the future). *)
    let impl_zd () =
      if !opi < Array.length itoks then
        match String.split_on_char '/' itoks.(!opi) with
        | [_; st] -> (match String.split_on_char ',' st with
            | [_; _; _; _; _; _; z] when z <> "z" -> (try Some (zi (ios z)) with _ -> None)
            | _ -> None)
        | _ -> None
      else None in
    let apply ?(kindc="") ?(drops=[]) x ev =
      let before = List.length (ep_of !s x).e_sent in
      let render s' o =
        let so = (match o with OTick _ -> show_tick_obs drops o | _ -> show_obs o) in
        mark kindc so ^ "/" ^ show_state (ep_of s' x) in
      let (s', o) =
        let zd = impl_zd () in
        match ev with
        | Deliver _ | Inject _ ->
          let mk rc = (match ev with
              | Deliver (y, i, t, fj, _) -> Deliver (y, i, t, fj, rc)
              | Inject (y, p, t, fj, _) -> Inject (y, p, t, fj, rc)
              | e -> e) in
          let r1 = step zlb_recv !s (mk { r_ig = false; r_zd = zd }) in
          let want = if !opi < Array.length itoks then itoks.(!opi) else "" in
          if render (fst r1) (snd r1) = want then r1
          else begin
            let r2 = step zlb_recv !s (mk { r_ig = true; r_zd = zd }) in
            if render (fst r2) (snd r2) = want then r2 else r1
          end
        | Submit (y, b, sid, t, fj, _) ->
          (* a side that has declared dead may refuse the submission; take the implementation's answer *)
          let r1 = step zlb_recv !s ev in
          let want = if !opi < Array.length itoks then itoks.(!opi) else "" in
          if render (fst r1) (snd r1) = want then r1
          else begin
            let r2 = step zlb_recv !s (Submit (y, b, sid, t, fj, true)) in
            if render (fst r2) (snd r2) = want then r2 else r1
          end
        | _ -> step zlb_recv !s ev in
      s := s';
      let after = List.length (ep_of !s x).e_sent in
      let t = tr (other x) in
      t := !t @ List.init (after - before) (fun i -> before + i);
      Buffer.add_string out (render !s o ^ " ") in
    List.iter (fun op ->
        incr opi;
        let f = String.split_on_char ':' op in
        let kind = op.[0] and x = side_of op.[1] in
        match kind, List.tl f with
        | 's', (b :: sid :: t :: fl) -> apply x (Submit (x, zi (ios b), zi (ios sid), zi (ios t), fault_of fl, false))
        | ('d' | 'u'), (k :: t :: fl) ->
          let l = !(tr x) in
          if l = [] then Buffer.add_string out "- "
          else begin
            let k = ios k mod List.length l in
            let idx = List.nth l k in
            if kind = 'd' then (tr x) := remove_nth k l;
            let p = List.nth (ep_of !s (other x)).e_sent idx in
            apply ~kindc:(if p.k_body = None then "z" else "m") x (Deliver (x, nat_of_int idx, zi (ios t), fault_of fl, head_choice))
          end
        | 'x', [k] ->
          let l = !(tr x) in
          if l = [] then Buffer.add_string out "- "
          else begin (tr x) := remove_nth (ios k mod List.length l) l; Buffer.add_string out "X " end
        | 'j', (b :: sid :: ns :: nr :: t :: fl) ->
          let p = { k_body = (if b = "z" then None else Some (zi (ios b))); k_sid = zi (ios sid);
                    k_ns = zi (ios ns); k_nr = zi (ios nr) } in
          apply ~kindc:(if p.k_body = None then "z" else "m") x (Inject (x, p, zi (ios t), fault_of fl, head_choice))
        | 't', (t :: fl) -> let d = drops_of fl in apply ~drops:d x (Tick (x, zi (ios t), List.map nat_of_int d))
        | 'w', [w] -> apply x (SetWin (x, zi (ios w)))
        | _ -> Buffer.add_string out "badop ") ops;
    let a = !s.s_a and b = !s.s_b in
    Buffer.add_string out
      (Printf.sprintf "| delA=%s delB=%s ackA=%s ackB=%s deadA=%d deadB=%d"
         (show_zl a.e_del) (show_zl b.e_del) (show_nl a.e_acked) (show_nl b.e_acked)
         (int_of_nat a.e_dead) (int_of_nat b.e_dead));
    Buffer.contents out
  | _ -> "badline"

let run_disp zlb_recv toks impl =
  match toks with
  | rws :: ops ->
    (* the observable of this kind (ns, nr, cwnd, ssthresh, packets) does not always reveal which admissible choice the
       implementation took for a forged Nr, so ALL model states consistent with what has been observed are kept *)
    let cands = ref [new_endpoint Z0 Z0 Z0 Z0 (zi (ios rws)) Z0 Z0] in
    let out = Buffer.create 128 in
    let itoks = Array.of_list (tokens impl) in
    List.iteri (fun i op ->
        let k = match String.split_on_char ':' op with "i" :: k :: _ -> k | _ -> "" in
        let render (e', o) =
          let c = e'.e_ch in
          Printf.sprintf "%s/%d,%d,%d,%d" (mark k (show_obs o)) (iz c.c_ns) (iz c.c_nr) (iz c.c_cwnd) (iz c.c_ssth) in
        let succ e = match String.split_on_char ':' op with
          | ["i"; kind; ns; nr] ->
            let p = { k_body = (if kind = "z" then None else Some (zi 1)); k_sid = Z0;
                      k_ns = zi (ios ns); k_nr = zi (ios nr) } in
            (* an Nr ahead of our Ns (forged): processing it and ignoring it are both admissible *)
            [ep_deliver false e p Z0 None head_choice; ep_deliver false e p Z0 None { r_ig = true; r_zd = None }]
          | ["s"; b; sid] -> [ep_submit e (zi (ios b)) (zi (ios sid)) Z0 None]
          | _ -> [(e, ONone)] in
        let all = List.concat_map succ !cands in
        let want = if i < Array.length itoks then itoks.(i) else "" in
        let ok = List.filter (fun r -> render r = want) all in
        let keep = if ok <> [] then ok else [List.hd all] in
        let rec dedupe acc = function [] -> List.rev acc | (e, _) :: r -> if List.mem e acc then dedupe acc r else dedupe (e :: acc) r in
        let next = dedupe [] keep in
        cands := (if List.length next > 32 then List.filteri (fun j _ -> j < 32) next else next);
        Buffer.add_string out (render (List.hd keep) ^ " ")) ops;
    Buffer.add_string out "|";
    Buffer.contents out
  | _ -> "badline"

(* full <lns|lac> <type>:<tid>:<sid>:<ns>:<a|nr> ...   (see the dispatch harness)
   the handler is opaque to the model: no replies; StopCCN removes the tunnel.  Dispatch at time 0, Tick at 90
   (minutes; zlb 60, rto 120): the owed acknowledgement shows up as a ZLB carrying the current Nr. *)
let run_full toks =
  match toks with
  | _role :: ops ->
    let n = ref { n_known = true; n_ep = new_endpoint (zi 120) (zi 240) (zi 5) (zi 60) (zi 16) Z0 Z0 } in
    let out = Buffer.create 128 in
    List.iter (fun op ->
        match String.split_on_char ':' op with
        | [ty; tid; sid; ns; nr] ->
          let known = !n.n_known in
          let tid_ok = (tid = "7") && ty <> "sccrq" in
          let ack = if nr = "a" then !n.n_ep.e_ch.c_ns else zi (ios nr) in
          let p = { k_body = (if ty = "zlb" then None else Some (zi 1)); k_sid = zi (ios sid);
                    k_ns = zi (ios ns); k_nr = ack } in
          let m = { m_rc = head_choice; m_tid_ok = tid_ok; m_pkt = p; m_replies = []; m_removes = (ty = "stop") } in
          let before = List.length !n.n_ep.e_sent in
          n := node_step !n (NMsg (m, Z0));
          let mid = List.length !n.n_ep.e_sent in
          n := node_step !n (NTick (zi 90));
          let nr_after = !n.n_ep.e_ch.c_nr in
          let sent = !n.n_ep.e_sent in
          let acked = ref false in
          List.iteri (fun i q ->
              if i >= before && i < mid && q.k_nr = nr_after then acked := true;
              if i >= mid && q.k_body = None && q.k_nr = nr_after then acked := true) sent;
          let a = if (not known) || (not tid_ok) || ty = "zlb" then "*" else if !acked then "1" else "0" in
          Buffer.add_string out (Printf.sprintf "K%s:N%d:A%s " (if known then "1" else "0") (iz nr_after) a)
        | _ -> Buffer.add_string out "badop ") ops;
    Buffer.add_string out "|";
    Buffer.contents out
  | _ -> "badline"

(* runner <watch> <at>:<ev>...: replay of the script against the node model with the Ticks the runner's loop
   produces (first Tick at 200, then runner_next).  Predicted writes "<d|z><ns>.<nr>@<ms>".  The implementation's
   line (real timers) is accepted when it has the same writes in the same order, each within [-120, +400] ms of
   the prediction; then it is echoed, otherwise the prediction is printed (=> mismatch). *)
let run_runner toks impl =
  match toks with
  | watch :: evs ->
    let watch = ios watch in
    let evs = List.map (fun e -> match String.split_on_char ':' e with [a; k] -> (ios a, k) | _ -> (0, "")) evs in
    let e0 = apply_peer_window (new_endpoint Z0 Z0 Z0 Z0 (zi 16) Z0 Z0) (Some (zi 16)) in
    let n = ref { n_known = true; n_ep = e0 } in
    let log = ref [] in
    let seen = ref 0 in
    let note t =
      let sent = !n.n_ep.e_sent in
      List.iteri (fun i q -> if i >= !seen then
          log := !log @ [((if q.k_body = None then "z" else "d"), iz q.k_ns, iz q.k_nr, t)]) sent;
      seen := List.length sent in
    let peer_ns = ref 1 and acked = ref 1 in
    (* latest admissible time of the acknowledgement of each inbound message, for ANY runner obeying runner_next with an
       idle poll in (0, 500]: when the message arrives (a) the runner sleeps at most until max(a + 500, D, T) where D is
       the earliest retransmission deadline still pending after the message and T the Tick the runner had already
       scheduled from the deadlines pending at its last Tick; that Tick sends the ZLB if a + zlbDelay has passed, else
       comes back at the deadline: max(a + 500, D, T) + 50.  DRIVER-ONLY bound (not derived from a theorem). *)
    let bounds = ref [] in
    let sched = ref 200 in     (* the Tick the runner has scheduled (it was computed from the deadlines pending at its last Tick
                                  and is not revised by what arrives in between) *)
    let note_bound a =
      let dls = List.filter_map (fun p -> if iz p.p_att > 0 then Some (iz p.p_dl) else None) !n.n_ep.e_ch.c_q in
      let d = List.fold_left min max_int dls in
      let d = if d = max_int then a else d in
      bounds := !bounds @ [max (max (a + 500) d) !sched + 50] in
    let data ns nr = { k_body = Some (zi 1); k_sid = Z0; k_ns = zi ns; k_nr = zi nr } in
    let msg p rep t = n := node_step !n (NMsg ({ m_rc = head_choice; m_tid_ok = true; m_pkt = p; m_replies = rep; m_removes = false }, zi t)); note t in
    msg (data 0 0) [(zi 1, Z0)] 0;
    let tick_t = ref 200 in
    let do_event (at, k) =
      sched := !tick_t;
      (match k with
       (* the bound is taken after the message has been processed: what it acknowledges no longer holds the runner back *)
       | "scccn" | "hello" -> msg (data !peer_ns !acked) [] at; note_bound at; incr peer_ns
       | "icrq" -> msg (data !peer_ns !acked) [(zi 1, Z0)] at; note_bound at; incr peer_ns
       | "ack" ->
         acked := iz !n.n_ep.e_ch.c_ns;
         msg { k_body = None; k_sid = Z0; k_ns = zi !peer_ns; k_nr = zi !acked } [] at
       | _ -> ()) in
    let pending = ref evs in
    let continue = ref true in
    while !continue do
      (match !pending with
       | (at, k) :: rest when at <= !tick_t && at <= watch -> do_event (at, k); pending := rest
       | _ ->
         if !tick_t > watch then continue := false
         else begin
           let (e', o) = ep_tick !n.n_ep (zi !tick_t) [] in
           n := { !n with n_ep = e' }; note !tick_t;
           (match o with OTick (ret, _, _) -> tick_t := iz (runner_next (zi 500) ret (zi !tick_t)) | _ -> tick_t := !tick_t + 500)
         end)
    done;
    let show (k, ns, nr, t) = Printf.sprintf "%s%d.%d@%d" k ns nr t in
    let parse tok = (* d0.1@251 *)
      try Scanf.sscanf tok "%c%d.%d@%d" (fun k ns nr t -> Some (String.make 1 k, ns, nr, t)) with _ -> None in
    let obs = match tokens impl with "runner" :: l -> List.filter_map parse l | _ -> [] in
    let horizon = watch - 150 in
    (* (1) sequenced messages (first transmissions and retransmissions): same sequence as predicted, each within
           [-120, +400] ms; writes predicted close to the end of the watch window may or may not have been seen.
       (2) acknowledgements: WHEN an acknowledgement is sent is the implementation's choice within its bound: for every
           inbound message (arrival a, in-order Ns) the first write carrying Nr > Ns must come no earlier than its
           arrival and no later than the bound of any runner obeying runner_next with an idle poll <= 500 ms
           (see [bounds]) + 350 ms of scheduling slack.  How many ZLBs that takes is free. *)
    let data l = List.filter (fun (k, _, _, _) -> k = "d") l in
    let rec data_ok p o = match p, o with
      | [], [] -> true
      | [], (_, _, _, t) :: r -> t > horizon - 120 && data_ok [] r
      | (_, ns, _, t) :: pr, (_, ns', _, t') :: orr -> ns = ns' && t' >= t - 120 && t' <= t + 400 && data_ok pr orr
      | (_, _, _, t) :: pr, [] -> t > horizon && data_ok pr [] in
    let inbound = List.filter (fun (_, k) -> k = "scccn" || k = "hello" || k = "icrq") evs in
    let first_ack l v a = List.fold_left (fun acc (_, _, nr, t) ->
        match acc with Some _ -> acc | None -> if nr >= v && t >= a - 5 then Some t else None) None l in
    let acks_ok =
      let rec go i = function
        | [] -> true
        | (a, _) :: rest ->
          let v = i + 2 in      (* the i-th inbound message has Ns = i+1: acknowledged by Nr >= i+2 *)
          let ub = (match List.nth_opt !bounds i with Some b -> b | None -> a + 550) + 350 in
          (* an acknowledgement must have been OBSERVED, in time; the generator sizes the watch window so that every bound
             lies inside it — an acknowledgement that is missing because the window was too short fails, it is not skipped *)
          ignore horizon;
          (match first_ack obs v a with Some t -> t <= ub | None -> false)
          && go (i + 1) rest in
      go 0 inbound in
    (* (3) the sequence fields of EVERY observed write (timing stays free):
           - Nr never decreases and never exceeds what has been received by then (1 for the SCCRQ + the in-order inbound
             messages that have arrived): no acknowledgement of something not received;
           - a ZLB carries the current Ns (the next one to be assigned) and does not consume it; a sequenced write is either
             the next new Ns or a retransmission of an earlier one. *)
    let fields_ok =
      let cur_ns = ref 0 and last_nr = ref 0 in
      List.for_all (fun (k, ns, nr, t) ->
          let received = 1 + List.length (List.filter (fun (a, _) -> a <= t + 5) inbound) in
          let nr_ok = nr >= !last_nr && nr <= received in
          last_nr := max !last_nr nr;
          let ns_ok = if k = "z" then ns = !cur_ns
            else if ns = !cur_ns then (incr cur_ns; true) else ns < !cur_ns in
          nr_ok && ns_ok) obs in
    if obs <> [] && data_ok (List.filter (fun (_, _, _, t) -> t <= horizon) (data !log)) (data obs) && acks_ok && fields_ok then impl
    else "runner " ^ String.concat " " (List.map show !log) ^ " (predicted)"
  | _ -> "badline"

(* estab <lns|lac> <step>...  (see the dispatch harness).  The tunnel's channel is the node model (it decides which
   copies are duplicates), the SCCRQ demultiplexing is conn_step; the handlers' effects on the tables are:
   lns: sccrq opens a tunnel and writes SCCRP; icrq adds a session and writes ICRP; cdn removes the session; stop
   removes the tunnel.   lac: sccrp writes SCCCN and ICRQ and adds a session; icrp writes ICCN; cdn; stop. *)
let run_estab linger toks =
  match toks with
  | role :: steps ->
    let fresh () = { n_known = true; n_ep = new_endpoint Z0 Z0 Z0 Z0 (zi 16) Z0 Z0 } in
    let st = ref CNone and node = ref None and t = ref 0 and ss = ref 0 and d = ref 0 in
    let hist = ref [] in            (* kind, ns of every first-time peer message *)
    let peer_ns = ref 0 in
    let out = Buffer.create 64 in
    let show () = Buffer.add_string out (Printf.sprintf "T%dS%dD%d " !t !ss !d) in
    if role = "lac" then begin
      let n = fresh () in
      node := Some { n with n_ep = fst (ep_submit n.n_ep (zi 1) Z0 Z0 None) };
      st := CLive; t := 1; d := 1; show ()
    end;
    let deliver kind ns =
      if kind = "sccrq" then begin
        let (st', opens) = conn_step linger !st CSccrq in
        (match !st, !node with
         | CLive, Some n when not opens ->     (* a copy: handed to the existing channel, which sees a duplicate *)
           node := Some (node_dispatch n { m_rc = head_choice; m_tid_ok = true; m_pkt = { k_body = Some (zi 1); k_sid = Z0; k_ns = zi ns; k_nr = Z0 };
                                           m_replies = []; m_removes = false } Z0)
         | _ -> ());
        st := st';
        if opens then begin
          let n = fresh () in
          let n = node_dispatch n { m_rc = head_choice; m_tid_ok = true; m_pkt = { k_body = Some (zi 1); k_sid = Z0; k_ns = zi ns; k_nr = Z0 };
                                    m_replies = [(zi 1, Z0)]; m_removes = false } Z0 in
          node := Some n; incr t; incr d
        end
      end else
        match !st, !node with
        | CLive, Some n ->
          let nr0 = n.n_ep.e_ch.c_nr in
          let n' = node_dispatch n { m_rc = head_choice; m_tid_ok = true; m_pkt = { k_body = Some (zi 1); k_sid = Z0; k_ns = zi ns; k_nr = n.n_ep.e_ch.c_ns };
                                     m_replies = []; m_removes = (kind = "stop") } Z0 in
          node := Some n';
          if n'.n_ep.e_ch.c_nr <> nr0 then begin   (* accepted: the handler runs, once *)
            match kind with
            | "icrq" -> incr ss; incr d
            | "sccrp" -> incr ss; d := !d + 2
            | "icrp" -> incr d
            | "cdn" -> if !ss > 0 then decr ss
            | "stop" -> t := !t - 1; ss := 0; st := fst (conn_step linger !st CTeardown)
            | _ -> ()
          end
        | _ -> () in
    List.iter (fun s ->
        if String.length s > 1 && s.[0] = 'r' && s <> "r" then begin
          let k = ios (String.sub s 1 (String.length s - 1)) in
          (match List.nth_opt !hist k with Some (kind, ns) -> deliver kind ns | None -> ());
          show ()
        end else begin
          hist := !hist @ [(s, !peer_ns)];
          deliver s !peer_ns; incr peer_ns; show ()
        end) steps;
    "estab " ^ String.trim (Buffer.contents out)
  | _ -> "badline"

(* e2e <fault>...: the pair model (run/step) under the protocol of the bring-up and the two runners' own schedules.
   A = LAC, B = LNS.  Bodies: 1 SCCRQ, 2 SCCRP, 3 SCCCN, 4 ICRQ, 5 ICRP, 6 ICCN.  A message handed to a protocol machine
   makes it submit its replies (once: the channel hands every message over at most once).  Packets are delivered in write
   order at once, except: x = dropped, u = delivered twice, l = 300 ms late, v = now and again 300 ms late.  Ticks by runner_next (first at +200 ms). *)
let run_e2e toks =
  let (wait, toks) = (match toks with
      | w :: r when String.length w > 1 && w.[0] = 'w' -> (ios (String.sub w 1 (String.length w - 1)), r)
      | l -> (7000, l)) in
  let faults = Hashtbl.create 8 in
  List.iter (fun t -> if String.length t >= 3 then
                Hashtbl.add faults (String.sub t 1 (String.length t - 1)) t.[0]) toks;
  let has key c = List.mem c (Hashtbl.find_all faults key) in
  let cfg = ((((Z0, Z0), Z0), Z0), zi 16) in
  let s = ref (init_sys cfg cfg Z0 Z0) in
  let transit = ref [] in                      (* (time, seqno, dest side, index into sender's e_sent) *)
  let seqno = ref 0 in
  let tick = Hashtbl.create 2 in               (* side -> next Tick time *)
  Hashtbl.replace tick SA 200;
  let handed = Hashtbl.create 8 in
  let cnt b x = List.length (Hashtbl.find_all handed (x, b)) in
  let dir x = if x = SA then "a" else "b" in
  (* transport write errors: f<dir><k> = the k-th write ATTEMPT of that side fails *)
  let tries = Hashtbl.create 2 in
  let tried x = try Hashtbl.find tries x with Not_found -> 0 in
  let failing x = List.sort compare (List.filter_map (fun t ->
      if String.length t >= 3 && t.[0] = 'f' && String.make 1 t.[1] = dir x then
        (let g = ios (String.sub t 2 (String.length t - 2)) in if g >= tried x then Some (g - tried x) else None)
      else None) toks) in
  let fj x = match failing x with g :: _ -> Some (nat_of_int g) | [] -> None in
  let account x o = (match o with
      | OSubmit (l, er) | ODeliver (_, l, er) -> Hashtbl.replace tries x (tried x + List.length l + (if er = None then 0 else 1))
      | OTick (_, l, _) -> Hashtbl.replace tries x (tried x + List.length l)
      | _ -> ()) in
  let scan x before now =
    let sent = (ep_of !s x).e_sent in
    List.iteri (fun i _ -> if i >= before then begin
        let key = dir x ^ string_of_int i in
        let put t = incr seqno; transit := !transit @ [(t, !seqno, other x, i)] in
        let cut = List.exists (fun t -> String.length t >= 3 && t.[0] = 'X' && String.make 1 t.[1] = dir x
                                        && i >= ios (String.sub t 2 (String.length t - 2))) toks in
        if cut then ()
        else if has key 'v' && not (has key 'x') then (put (now + 300); if has key 'l' then put (now + 300) else begin put now; if has key 'u' then put now end)
        else if has key 'x' then ()
        else if has key 'l' then put (now + 300)
        else begin put now; if has key 'u' then put now end
      end) sent in
  let lac_up = ref true and lac_s = ref 0 and lns_dead = ref false in
  (* returns true when the write of this submission failed (SendSession returned the transport error) *)
  let submit x b now =
    let before = List.length (ep_of !s x).e_sent in
    let (s', o) = step false !s (Submit (x, zi b, Z0, zi now, fj x, false)) in
    s := s'; account x o; scan x before now;
    (match o with OSubmit (_, Some _) -> true | _ -> false) in
  let react x b now =
    Hashtbl.add handed (x, b) ();
    if cnt b x = 1 then
      (match x, b with
       | SB, 1 -> Hashtbl.replace tick SB (now + 200); ignore (submit SB 2 now)
       | SA, 2 ->
         (* handleSCCRP returns on a failed SCCCN write before it opens the session *)
         if not (submit SA 3 now) then begin incr lac_s; ignore (submit SA 4 now) end
       | SB, 4 -> ignore (submit SB 5 now)
       | SA, 5 -> ignore (submit SA 6 now)
       | _ -> ()) in
  (* tryLACTunnel tears the tunnel down again when the SCCRQ cannot be written *)
  if submit SA 1 0 then begin lac_up := false; Hashtbl.remove tick SA end;
  let now = ref 0 and settled = ref (-1) in
  let continue = ref true in
  while !continue do
    let next_pkt = List.fold_left (fun acc (t, q, _, _) -> match acc with Some (t', q') when (t', q') <= (t, q) -> acc | _ -> Some (t, q)) None !transit in
    let next_tick = Hashtbl.fold (fun x t acc -> match acc with Some (t', _) when t' <= t -> acc | _ -> Some (t, x)) tick None in
    (match next_pkt, next_tick with
     | Some (tp, q), nt when (match nt with Some (tt, _) -> tp <= tt | None -> true) ->
       let (_, _, x, i) = List.find (fun (_, q', _, _) -> q' = q) !transit in
       transit := List.filter (fun (_, q', _, _) -> q' <> q) !transit;
       now := max !now tp;
       if x = SA && not !lac_up then ()       (* no tunnel: ErrNoSuchTunnel *)
       else if x = SB && !lns_dead then ()     (* tunnel unregistered; SCCRQ copies hit the closed-connection record *)
       else if x = SB && cnt 1 SB = 0 && (List.nth (ep_of !s SA).e_sent i).k_body <> Some (zi 1) then ()
       else begin
         let before = List.length (ep_of !s x).e_sent in
         let (s', o) = step false !s (Deliver (x, nat_of_int i, zi !now, fj x, head_choice)) in
         s := s'; account x o; scan x before !now;
         let p = List.nth (ep_of !s (other x)).e_sent i in
         (match o, p.k_body with ODeliver (true, _, _), Some b -> react x (iz b) !now | _ -> ())
       end
     | _, Some (tt, x) ->
       now := max !now tt;
       let before = List.length (ep_of !s x).e_sent in
       let drops = List.map nat_of_int (failing x) in
       let (s', o) = step false !s (Tick (x, zi !now, drops)) in
       s := s'; account x o; scan x before !now;
       (match o with
        | OTick (_, _, true) ->
          (* the model's dead flag = the dead callback of startTunnelRunner: the tunnel (and its sessions) is unregistered *)
          Hashtbl.remove tick x;
          if x = SA then begin lac_up := false; lac_s := 0 end else lns_dead := true
        | OTick (ret, _, _) -> Hashtbl.replace tick x (iz (runner_next (zi 500) ret (zi !now)))
        | _ -> ())
     | _ -> continue := false);
    if cnt 5 SA >= 1 && cnt 6 SB >= 1 && !settled < 0 then settled := !now;
    if (!settled >= 0 && !now > !settled + 700) || !now > wait then continue := false
  done;
  let a = !s.s_a.e_ch and b = !s.s_b.e_ch in
  let sq c = Printf.sprintf "%d/%d" (iz c.c_ns) (iz c.c_nr) in
  let lns_t = if !lns_dead then 0 else cnt 1 SB in
  Printf.sprintf "e2e lac=T%dS%d,%s lns=T%dS%d,%s est=%d%d" (if !lac_up then 1 else 0) !lac_s (if !lac_up then sq a else "-")
    lns_t (if !lns_dead then 0 else cnt 4 SB) (if lns_t = 0 then "-" else sq b)
    (if !lac_up then min 1 (cnt 5 SA) else 0) (if !lns_dead then 0 else min 1 (cnt 6 SB))

(* multi <op>...  (see the dispatch harness): several control connections in one LNS.  Every connection is its own node
   (channel) and its own conn_step state, keyed by (peer, peer's Assigned Tunnel ID); inbound messages are routed by
   (source address, our local tunnel id).  Our local id is the implementation's free choice: it is read from the
   implementation's token when the tunnel appears (and must then stay what it was). *)
let run_multi toks impl =
  let ips = [("A", "10.0.0.2"); ("B", "10.0.0.3"); ("C", "10.0.1.2"); ("D", "10.1.0.2"); ("E", "11.0.0.2")] in
  let itoks = Array.of_list (match tokens impl with "multi" :: l -> l | l -> l) in
  let conns = Hashtbl.create 8 in      (* (peer, aid) -> conn *)
  let tuns = ref [] in                 (* (peer, aid, lid, node ref, sessions ref) *)
  let next = Hashtbl.create 8 in
  let data ns = { k_body = Some (zi 1); k_sid = Z0; k_ns = zi ns; k_nr = Z0 } in
  let msg ns rm = { m_rc = head_choice; m_tid_ok = true; m_pkt = data ns; m_replies = []; m_removes = rm } in
  let out = Buffer.create 256 in
  let show () =
    let l = List.map (fun (p, aid, lid, n, ss) ->
        Printf.sprintf "%s/%d/%d:%d{%s}" (List.assoc p ips) aid lid (iz !n.n_ep.e_ch.c_nr)
          (String.concat "," (List.map string_of_int (List.sort compare !ss)))) !tuns in
    let l = List.sort compare l in
    Buffer.add_string out ((if l = [] then "-" else String.concat ";" l) ^ " ") in
  let impl_lid i p aid =      (* the local id the implementation gave to the tunnel of (p, aid), from its i-th token *)
    if i < Array.length itoks then
      List.fold_left (fun acc e ->
          match String.split_on_char '/' e with
          | [ip; a; rest] when ip = List.assoc p ips && a = string_of_int aid ->
            (match String.split_on_char ':' rest with l :: _ -> (try ios l with _ -> acc) | _ -> acc)
          | _ -> acc) 0 (String.split_on_char ';' itoks.(i))
    else 0 in
  let deliver (_, _, _, n, ss) kind ns sid =
    let nr0 = !n.n_ep.e_ch.c_nr in
    n := node_dispatch !n (msg ns (kind = "s")) Z0;
    let accepted = !n.n_ep.e_ch.c_nr <> nr0 in
    if accepted then (match kind with
        | "i" -> let rec free k = if List.mem k !ss then free (k + 1) else k in ss := free 1 :: !ss
        | "c" -> ss := List.filter (fun x -> x <> sid) !ss
        | _ -> ());
    accepted in
  List.iteri (fun i op ->
      (match String.split_on_char ':' op with
       | kind :: p :: aid :: rest when List.mem_assoc p ips ->
         let aid = ios aid in
         let key = (p, aid) in
         let st = try Hashtbl.find conns key with Not_found -> CNone in
         let tun = List.find_opt (fun (p', a', _, _, _) -> p' = p && a' = aid) !tuns in
         (match kind with
          | "q" ->
            let (st', opens) = conn_step true st CSccrq in
            Hashtbl.replace conns key st';
            (match tun with Some t when not opens -> ignore (deliver t "q" 0 0) | _ -> ());
            if opens then begin
              let n = ref { n_known = true; n_ep = new_endpoint Z0 Z0 Z0 Z0 (zi 16) Z0 Z0 } in
              n := node_dispatch !n { (msg 0 false) with m_replies = [(zi 1, Z0)] } Z0;
              tuns := !tuns @ [(p, aid, impl_lid i p aid, n, ref [])]
            end;
            if not (Hashtbl.mem next key) then Hashtbl.replace next key 1
          | "h" | "i" | "s" | "c" | "w" ->
            (match tun with
             | None -> ()
             | Some ((_, _, lid, _, _) as t) ->
               let ns = try Hashtbl.find next key with Not_found -> 1 in
               let sid = (match rest with x :: _ when kind = "c" -> ios x | _ -> 0) in
               if kind = "w" then begin
                 let src = (match rest with x :: _ -> x | [] -> p) in
                 (match List.find_opt (fun (p', _, l', _, _) -> p' = src && l' = lid) !tuns with
                  | Some t' -> ignore (deliver t' "h" ns 0)
                  | None -> ())
               end else begin
                 let acc = deliver t kind ns sid in
                 Hashtbl.replace next key (ns + 1);
                 if acc && kind = "s" then begin
                   tuns := List.filter (fun (p', a', _, _, _) -> not (p' = p && a' = aid)) !tuns;
                   Hashtbl.replace conns key (fst (conn_step true st CTeardown))
                 end
               end)
          | _ -> ())
       | _ -> ());
      show ()) toks;
  "multi " ^ String.trim (Buffer.contents out)

let () =
  let lines = read_lines Sys.argv.(1) in
  let impls = if Array.length Sys.argv > 2 && Sys.argv.(2) <> "-" then Array.of_list (read_lines Sys.argv.(2)) else [||] in
  let idx = ref (-1) in
  (* one model: what /repo HEAD does (all C16 findings are fixed); the pre-fix behaviours survive only as
     the refuted theorem in Properties.v, not in the correspondence *)
  let zlb_recv = false in   (* HEAD's dispatch rule; the pre-96f9f16 rule exists only in the refuted theorem *)
  (* closed control connections are remembered for a retransmission cycle (1a77bf9); the rule without the record
     survives only as C16_sccrq_once_refuted_pre_1a77bf9 *)
  let linger = true in
  List.iter (fun line ->
      incr idx;
      match tokens line with
      | [] -> ()
      | "estab" :: rest -> print_endline (run_estab linger rest)
      | "e2e" :: rest -> print_endline (run_e2e rest)
      | "multi" :: rest -> print_endline (run_multi rest (if !idx < Array.length impls then impls.(!idx) else ""))
      | "runner" :: rest -> print_endline (run_runner rest (if !idx < Array.length impls then impls.(!idx) else ""))
      | "pair" :: rest -> print_endline (run_pair zlb_recv rest (if !idx < Array.length impls then impls.(!idx) else ""))
      | "disp" :: rest -> print_endline (run_disp zlb_recv rest (if !idx < Array.length impls then impls.(!idx) else ""))
      | "full" :: rest -> print_endline (run_full rest)
      | ["sccrqdup"] ->
        (* the second copy of an SCCRQ is a duplicate for the control connection it opened: the receive step rejects
           it (ns <> nr), the protocol machine sees the SCCRQ once -> one tunnel.  (before e6d010e every copy opened a tunnel) *)
        let data ns nr = { k_body = Some (zi 1); k_sid = Z0; k_ns = zi ns; k_nr = zi nr } in
        let e0 = new_endpoint Z0 Z0 Z0 Z0 (zi 16) Z0 Z0 in
        let handed e = match ep_deliver false e (data 0 0) Z0 None head_choice with (e', ODeliver (h, _, _)) -> (e', h) | (e', _) -> (e', false) in
        let (e1, h1) = handed e0 in
        let (_, h2) = handed e1 in
        let count = (if h1 then 1 else 0) + (if h2 then 1 else 0) in
        (* one SCCRP is written: the handler (and its reply) runs only for the copy that was handed over *)
        Printf.printf "sccrqdup tunnels=%d sccrp=%d\n" count count
      | ["stopccn"] ->
        (* SCCRQ (reply SCCRP), SCCCN, StopCCN (handler removes the tunnel) through the dispatch rule; the owed
           acknowledgement is sent at teardown (FlushAck = a Tick at the ZLB deadline; before e462f04 the runner
           was stopped with the ZLB timer armed and nobody ticked again) *)
        let data ns nr = { k_body = Some (zi 1); k_sid = Z0; k_ns = zi ns; k_nr = zi nr } in
        let msg ns nr rep rm = NMsg ({ m_rc = head_choice; m_tid_ok = true; m_pkt = data ns nr; m_replies = rep; m_removes = rm }, Z0) in
        let n0 = { n_known = true; n_ep = new_endpoint Z0 Z0 Z0 Z0 (zi 16) Z0 Z0 } in
        let n = node_run n0 [msg 0 0 [(zi 1, Z0)] false; msg 1 1 [] false; msg 2 1 [] true] in
        let nr = n.n_ep.e_ch.c_nr in
        let acked = List.exists (fun q -> q.k_nr = nr && iz nr = 3) n.n_ep.e_sent in
        Printf.printf "stopccn nr=%d acked=%d\n" (iz nr) (if acked then 1 else 0)
      | ["idle"; gap] ->
        (* LNS tunnel: SCCRQ (reply SCCRP), SCCCN at time 0; the runner ticks by runner_next starting at 200 ms;
           after [gap] ms of silence a Hello (no reply of its own) arrives.  Is a packet carrying Nr = 3 sent
           within zlbDelay + 500 + 50 ms of the Hello? *)
        let data ns nr = { k_body = Some (zi 1); k_sid = Z0; k_ns = zi ns; k_nr = zi nr } in
        let msg ns nr rep now = NMsg ({ m_rc = head_choice; m_tid_ok = true; m_pkt = data ns nr; m_replies = rep; m_removes = false }, zi now) in
        let e0 = apply_peer_window (new_endpoint Z0 Z0 Z0 Z0 (zi 16) Z0 Z0) (Some (zi 16)) in
        let n = ref (node_run { n_known = true; n_ep = e0 } [msg 0 0 [(zi 1, Z0)] 0; msg 1 1 [] 0]) in
        let th = ios gap in
        let t = ref 200 and hello_done = ref false and acked_at = ref (-1) in
        while !t <= th + 2000 && !acked_at < 0 do
          if (not !hello_done) && !t >= th then begin n := node_step !n (msg 2 1 [] th); hello_done := true end;
          let before = List.length !n.n_ep.e_sent in
          let (e', o) = ep_tick !n.n_ep (zi !t) [] in
          n := { !n with n_ep = e' };
          List.iteri (fun i q -> if i >= before && iz q.k_nr = 3 then acked_at := !t) e'.e_sent;
          (match o with OTick (ret, _, _) -> t := iz (runner_next (zi 500) ret (zi !t)) | _ -> t := !t + 500)
        done;
        Printf.printf "idle acked=%d\n" (if !acked_at >= 0 && !acked_at <= th + 200 + 500 + 50 then 1 else 0)
      | ["overlap"; op] ->
        (* channel operations are atomic steps in the model: while Tick is inside the channel, Recv has to wait;
           (before 63cd1b1 the runner's Tick, the punt consumer's Recv and the Hello Send were unsynchronised) *)
        print_endline ("tick-in-send " ^ op ^ " recv=blocked")
      | ["rws"; role; w; k; a] ->
        (* establishment with an advertised Receive Window Size (see the dispatch harness).
           the window is narrowed to the advertised value (4 when absent) as soon as the peer's AVPs are
           known (before 3558639 it stayed at the 16 of runner.go startTunnelRunner) *)
        let adv = if w = "-" then 4 else ios w in
        let setw e = fst (ep_setwin e (zi adv)) in
        let data ns nr = { k_body = Some (zi 1); k_sid = Z0; k_ns = zi ns; k_nr = zi nr } in
        let del e ns nr = fst (ep_deliver false e (data ns nr) Z0 None head_choice) in
        let sub e = fst (ep_submit e (zi 1) Z0 Z0 None) in
        let e0 = new_endpoint Z0 Z0 Z0 Z0 (zi 16) Z0 Z0 in
        let e =
          if role = "lns" then begin
            let e = ref (sub (del (setw e0) 0 0)) in
            e := del !e 1 1;
            for j = 0 to ios k - 1 do
              e := sub (del !e (2 + j) (1 + min j (ios a)))
            done; !e end
          else sub (sub (setw (del (sub e0) 0 1))) in
        let seen = ref [] in
        List.iter (fun q -> if q.k_body <> None && not (List.mem (iz q.k_ns) !seen) then seen := !seen @ [iz q.k_ns]) e.e_sent;
        let c = e.e_ch in
        Printf.printf "ns=%s infl=%d cw=%d ss=%d\n" (String.concat "." (List.map string_of_int !seen))
          (inflight c.c_q) (iz c.c_cwnd) (iz c.c_ssth)
      | ["sccrq"; ns; nr] ->
        (* dispatch.go:139-169: fresh channel (PeerRWS 16), Recv(h.Ns, h.Nr) with the result ignored, Send(SCCRP) *)
        let e = new_endpoint Z0 Z0 Z0 Z0 (zi 16) Z0 Z0 in
        (* the harness's SCCRQ advertises a Receive Window Size of 4 *)
        let e = fst (ep_setwin e (zi 4)) in
        let p = { k_body = Some (zi 1); k_sid = Z0; k_ns = zi (ios ns); k_nr = zi (ios nr) } in
        let (e1, o1) = ep_deliver false e p Z0 None head_choice in
        let (e2, o2) = ep_submit e1 (zi 1) Z0 Z0 None in
        let pk = (match o1 with ODeliver (_, l, _) -> l | _ -> []) @ (match o2 with OSubmit (l, _) -> l | _ -> []) in
        let c = e2.e_ch in
        Printf.printf "S%s/%d,%d,%d,%d |\n" (show_pkts pk) (iz c.c_ns) (iz c.c_nr) (iz c.c_cwnd) (iz c.c_ssth)
      | ["seqless"; a; b] -> print_endline (if seq_less (zi (ios a)) (zi (ios b)) then "1" else "0")
      | _ -> print_endline "badline") lines
