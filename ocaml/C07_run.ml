(* C07 driver.  One case per line:   <entry> <n1,n2,...|-> <hex|-> [<hex|-> ...]
   Output per case:  ok <tok> ... | err <code> | panic | oof
   Tokens: decimal number, hex byte string ("-" = empty), "nil".
   Entries that are only fuzzed for crashes (third-party decoders) have no model: the line is "nocrash". *)
let entry_id = function
  | "ppphdr" -> 1 | "disp" -> 2 | "pppopts" -> 3 | "papreq" -> 4 | "papmsg" -> 5 | "chapchal" -> 6
  | "chapresp" -> 7 | "echo" -> 8 | "rtopts" -> 9 | "papbld" -> 11 | "chapbld" -> 12 | "tags" -> 10 | "l2hdr" -> 20 | "l2avp" -> 21 | "l2v3" -> 22
  | "d6msg" -> 30 | "d6relay" -> 31 | "d6reply" -> 32 | "v6unwrap" -> 33 | "v6txid" -> 34
  | "o82ins" -> 40 | "o82strip" -> 41 | "setopt" -> 42 | "getopt" -> 43
  | "sub82" | "sub82p" -> 50 | "d4parse" -> 51 | "d4msg" -> 52 | "attr80" -> 60
  | "sesspap" -> 4 | "sesschap" -> 7
  | "radreply" -> 61 | "radreqauth" -> 62 | "radma" -> 63 | "coaattrs" -> 64 | "ipoeopts" -> 65 | "l2ppp" -> 66
  | "bkevd6" | "bkevra" | "bkevl2" -> 71 | "radex" -> 72 | "radparse" -> 73 | "bkpadr" -> 74 | "l2dg" -> 75 | "l2seq" -> 76 | "cookie" -> 77 | "chalresp" -> 78 | "v6duid" -> 79 | "v6repl" -> 80 | "v6life" -> 81 | "gihops" -> 82
  | _ -> 0
let show_tok = function
  | TN n -> decimal_of_n n
  | TB b -> hex_of_bytes b
  | TNil -> "nil"
let nums s = if s = "-" then [] else List.map n_of_decimal (String.split_on_char ',' s)
(* The property constrains THAT malformed input is rejected, not with which error: errors are compared as a class ("err").
   Where the model marks an input "may ignore" (run_alts) the implementation's line is echoed when it is one of the admissible
   lines (MODEL_NEEDS_IMPL). *)
let show_result = function
  | Ok toks -> String.concat " " ("ok" :: List.map show_tok toks)
  | Err _ -> "err"
  | Panic -> "panic"
  | OutOfFuel -> "oof"
let () =
  let lines = read_lines Sys.argv.(1) in
  let impl = if Array.length Sys.argv > 2 && Sys.argv.(2) <> "-" then Array.of_list (read_lines Sys.argv.(2)) else [||] in
  let lineno = ref (-1) in
  (* the correspondence uses the model of /repo HEAD only; "defective" (the code before 7065ffb / 890d5a0) remains
     selectable by hand for the historical witnesses *)
  let variant = if Array.length Sys.argv > 3 && Sys.argv.(3) = "defective" then Defective else Repaired in
  let buf = Buffer.create 65536 in
  List.iter (fun line ->
    incr lineno;
    (match tokens line with
     | e :: na :: bs when entry_id e > 0 ->
       let id = n_of_int (entry_id e) and nn = nums na and bb = List.map bytes_of_hex bs in
       let m = show_result (run variant id nn bb) in
       let il = if !lineno < Array.length impl then impl.(!lineno) else "" in
       let alts = List.map show_result (run_alts id nn bb) in
       Buffer.add_string buf (if il <> m && List.mem il alts then il else m)
     | ("bkdhcp6" | "bkrakick" | "bkl2gw") as e :: na :: _ ->
       (* backlog scenarios: n frames against a pool of cap held workers (16 for the PPPoE DHCPv6 pool) *)
       let a = nums na in
       let n = List.nth a 0 in
       let cap = if e = "bkdhcp6" then n_of_int 16 else List.nth a 1 in
       (match run variant (n_of_int 70) [cap; n] [] with
        | Ok toks -> Buffer.add_string buf (String.concat " " ("ok" :: List.map show_tok toks))
        | _ -> Buffer.add_string buf "modelerror")
     | ("bldtags" | "bldavp" | "bldl2" | "bldrelay" | "bldd6" | "bld82" | "bldd4") as e :: na :: bs ->
       let id = match e with "bldtags" -> 80 | "bldavp" -> 81 | "bldl2" -> 82 | "bldrelay" -> 83 | "bldd6" -> 84 | "bldd4" -> 86 | _ -> 85 in
       Buffer.add_string buf (show_result (run_build (n_of_int id) (nums na) (List.map bytes_of_hex bs)))
     | "fzsess" :: na :: bs ->
       (* whole-session path: only the dispatcher's panic is predicted *)
       let proto = match nums na with p :: _ -> p | [] -> N0 in
       (match run variant (n_of_int 2) [proto; n_of_int 1; N0; n_of_int 1] (List.map bytes_of_hex bs) with
        | Panic -> Buffer.add_string buf "panic"
        | OutOfFuel -> Buffer.add_string buf "oof"
        | _ -> Buffer.add_string buf "nocrash")
     | e :: _ when String.length e > 2 && String.sub e 0 2 = "fz" -> Buffer.add_string buf "nocrash"
     | _ -> Buffer.add_string buf "badline");
    Buffer.add_char buf '\n') lines;
  print_string (Buffer.contents buf)
