(* C18 driver: one case per input line, one result line per case (see harness/C18 for the format).
   argv[3] = variant: repaired (= /repo HEAD, the only one the check uses); the historical ones
   (pre_31f4cb6, pre_88f69f7, pre_b6afef3, keeponly, staleonly, modefix, curmfix) are for triage by hand only *)
let npaths = 5
let kv toks =
  List.filter_map (fun t -> match String.index_opt t '=' with
    | Some i -> Some (String.sub t 0 i, String.sub t (i+1) (String.length t - i - 1)) | None -> None) toks
let get m k = try List.assoc k m with Not_found -> "-"
let split_c s = if s = "-" || s = "" then [] else String.split_on_char ',' s
let oct s = int_of_string ("0o" ^ s)
let file_of_spec s : file option =
  let s = match String.index_opt s '@' with Some i -> String.sub s 0 i | None -> s in   (* @uid-gid: owners are harness-only *)
  if s = "x" then None else
  match s.[0] with
  | 'd' -> Some Dir
  | 's' -> Some (Sym (n_of_int (int_of_string (String.sub s 1 (String.length s - 1)))))
  | 'r' -> (match String.split_on_char '.' (String.sub s 1 (String.length s - 1)) with
            | [c; m] -> Some (Reg (n_of_int (int_of_string c), n_of_int (oct m)))
            | _ -> failwith "bad r spec")
  | _ -> failwith "bad spec"
let spec_of_file = function
  | None -> "x"
  | Some Dir -> "d"
  | Some (Sym t) -> "s" ^ string_of_int (int_of_n t)
  | Some (Reg (c, m)) -> Printf.sprintf "r%d.%o" (int_of_n c) (int_of_n m)
(* ob= / rob= items: p:o | p:s = directory at the staging name (empty / not empty); p:f<octal> = stale regular staging file *)
let dirs s = List.filter_map (fun it -> match String.split_on_char ':' it with
    | [p; k] when k = "o" || k = "s" -> Some (n_of_int (int_of_string p), k = "s")
    | [_; _] -> None | _ -> failwith "bad obst") (split_c s)
let stales s = List.filter_map (fun it -> match String.split_on_char ':' it with
    | [p; k] when String.length k > 1 && k.[0] = 'f' -> Some (n_of_int (int_of_string p), n_of_int (oct (String.sub k 1 (String.length k - 1))))
    | [p; k] when String.length k > 1 && k.[0] = 'l' -> Some (n_of_int (int_of_string p), N0)   (* stale SYMLINK: discarded like any leftover *)
    | _ -> None) (split_c s)
let faults_of m = {
  f_fail = List.map (fun s -> n_of_int (int_of_string s)) (split_c (get m "fail"));
  f_crash = (match get m "crash" with "-" -> None | s -> Some (n_of_int (int_of_string s)));
  f_ha = (get m "ha" = "ok" || get m "ha" = "-");
  f_hr = (get m "hr" = "ok" || get m "hr" = "-");
  f_ob = dirs (get m "ob"); f_rob = dirs (get m "rob"); f_st = stales (get m "ob"); f_rst = stales (get m "rob") }
let starts p s = String.length s >= String.length p && String.sub s 0 (String.length p) = p
(* [extractor_rejected]: for the one input class the property lets the extractor judge either way (a member name
   repeated in the archive, last body = the vouched one: tam = dupl / dups) the implementation's answer is taken:
   when it refused the tarball without changing anything, extraction counts as failed (t_members_ok = false). *)
let tarball_of ?(extractor_rejected=false) m =
  let tam = get m "tam" in
  let arts = List.map (fun it -> match String.split_on_char ':' it with
      | p :: c :: md :: rc :: _ ->
        { a_path = n_of_int (int_of_string p); a_content = n_of_int (int_of_string c);
          a_mode = (match md with "e" -> MEmpty | "b" -> MBad | s -> MOk (n_of_int (oct s)));
          a_vpp = (rc = "v" || rc = "b") }
      | _ -> failwith "bad art") (split_c (get m "arts")) in
  { t_to = n_of_int (int_of_string (get m "to"));
    t_prev = (match get m "prev" with
        | "-" -> PrevNone
        | s -> let l = String.length s in
          Prev (n_of_int (int_of_string (String.sub s 0 (l-1))), s.[l-1] = 'o'));
    t_sig_ok = (get m "sig" = "ok");
    t_members_ok = not (List.mem tam ["dotdot"; "deepdot"; "abs"; "symlink"; "hardlink"; "tierb"; "nomanifest"])
                   && not (extractor_rejected && (tam = "dupl" || tam = "dups"));
    t_digest_ok = not (starts "dig" tam || tam = "swapm" || tam = "nosrc" || tam = "duplr" || tam = "dupsr"
                       || (tam = "dupman" && (match arts with a0 :: a1 :: _ -> a0.a_content <> a1.a_content | _ -> false)));
    t_hook_ok = (get m "hook" = "n" || get m "hook" = "p");   (* p = a failing POST hook: warning only *)
    t_arts = arts }
let opts_of m = {
  o_expect = (match get m "exp" with "-" -> None | s -> Some (n_of_int (int_of_string s)));
  o_force = (get m "force" = "1") }
let show_phase = function
  | PStarted -> "started" | PRetryStarted -> "retry_started" | PSnapshotDone -> "snapshot_done" | PPreHookDone -> "pre_hook_done"
  | PRestartSuspended -> "restart_suspended" | PDaemonStopped -> "daemon_stopped"
  | PSwapping p -> "swapping:" ^ string_of_int (int_of_n p) | PSwapped p -> "swapped:" ^ string_of_int (int_of_n p)
  | PAbortedMidSwap -> "aborted_mid_swap" | PAbortedPostSwap -> "aborted_post_swap"
  | PDaemonStarted -> "daemon_started" | PHealthFailed -> "health_failed" | PCompleted -> "completed"
  | PRollbackFailed -> "rollback_failed" | PRolledBack -> "rolled_back"
let show_res = function
  | ROk -> "ok" | RErr -> "err" | RErrRolledBack -> "err:rolledback" | RErrRbFailed -> "err:rbfailed"
  | RCrash -> "crash" | RRbOk -> "rb:ok" | RRbErr -> "rb:err" | RCleared -> "cleared" | REdited -> "edited"
let show_ver = function MonNone -> "-" | MonOk -> "ok" | MonMixed -> "STALE" | MonNa -> "na"
let show_mon = function MonNone -> "-" | MonOk -> "ok" | MonMixed -> "MIXED" | MonNa -> "na"
let observe ?(ver="-") ?(rm="-") w res mon =
  let ph = match w.jr with None -> "none" | Some j ->
    Printf.sprintf "%s:%d>%d" (show_phase j.j_phase) (int_of_n j.j_from) (int_of_n j.j_to) in
  let sn = List.filter (fun v -> match w.snaps (n_of_int v) with
      | Some d -> d.s_meta <> None | None -> false) (List.init 64 (fun i -> i)) in
  let sns = if sn = [] then "-" else String.concat "+" (List.map string_of_int sn) in
  let fsd = String.concat "," (List.init npaths (fun p -> spec_of_file (w.fs (n_of_int p)))) in
  let ax = String.concat "," (List.init npaths (fun p -> spec_of_file (w.fs (n_of_int (100 + p))))) in
  let rv = String.concat "," (List.init npaths (fun p ->
      match resolve w.fs (n_of_int p) (nat_of_int 16) with Some c -> string_of_int (int_of_n c) | None -> "x")) in
  (* own = the harness's ownership monitor: it applies exactly when the tree monitor does; the model has no owners *)
  let own = if mon = "-" then "-" else if mon = "na" then "na" else "ok" in
  Printf.sprintf "%s j=%s cur=%d sn=%s fs=%s ax=%s rv=%s mon=%s ver=%s rm=%s own=%s" res ph (int_of_n w.cur) sns fsd ax rv mon ver rm own
let rec split_ops toks cur acc = match toks with
  | [] -> List.rev (if cur = [] then acc else List.rev cur :: acc)
  | ";" :: r -> split_ops r [] (if cur = [] then acc else List.rev cur :: acc)
  | t :: r -> split_ops r (t :: cur) acc
let hex_of l = if l = [] then "-" else String.concat "" (List.map (fun x -> Printf.sprintf "%02x" (int_of_n x)) l)
let () =
  let variant = if Array.length Sys.argv > 3 then Sys.argv.(3) else "repaired" in
  let v = match variant with
    | "repaired" | "pre_97a5489" -> repaired | "pre_31f4cb6" -> pre_31f4cb6
    | "pre_88f69f7" -> pre_88f69f7 | "pre_b6afef3" -> pre_b6afef3
    | "keeponly" -> { v_mode_fix = true; v_curm_fix = true; v_keep_fix = true; v_stale_fix = false; v_same_fix = false }
    | "staleonly" -> { v_mode_fix = true; v_curm_fix = true; v_keep_fix = false; v_stale_fix = true; v_same_fix = false }
    | "modefix" -> { v_mode_fix = true; v_curm_fix = false; v_keep_fix = false; v_stale_fix = false; v_same_fix = false }
    | "curmfix" -> { v_mode_fix = false; v_curm_fix = true; v_keep_fix = false; v_stale_fix = false; v_same_fix = false }
    | _ -> failwith "unknown variant" in
  let impl_lines = if Array.length Sys.argv > 2 && Sys.argv.(2) <> "-" then Array.of_list (read_lines Sys.argv.(2)) else [||] in
  let lineno = ref (-1) in
  let tail s = match String.index_opt s ' ' with Some i -> String.sub s i (String.length s - i) | None -> "" in
  let split_segs l =
    let re = Str.regexp_string " | " in Array.of_list (Str.split re l) in
  List.iter (fun line ->
    incr lineno;
    let isegs = if !lineno < Array.length impl_lines then split_segs impl_lines.(!lineno) else [||] in
    try
    match tokens line with
    | [] -> print_endline "badline"
    | ["name"; h] ->
      let bytes = bytes_of_hex h in
      (match safe_entry bytes with
       | None -> print_endline "rej"
       | Some cl -> print_endline ("ok " ^ hex_of (join_slash cl)))
    | "h" :: ver :: fsi :: rest ->
      let tbl = List.map (fun it -> let i = String.index it ':' in
          (int_of_string (String.sub it 0 i), file_of_spec (String.sub it (i+1) (String.length it - i - 1)))) (split_c fsi) in
      let f q = match List.assoc_opt (int_of_n q) tbl with Some x -> x | None -> None in
      let w = ref ((if variant = "pre_97a5489" then init_world_pre_97a5489 else init_world) (n_of_int (int_of_string ver)) f) in
      let ops = split_ops rest [] [] in
      let opno = ref (-1) in
      let segs = List.map (fun o ->
          incr opno;
          (match o with
           | "plan" :: r ->
             (* Runner.Plan, the read-only dry run: signature, extraction, digests; no predecessor / journal checks.  The
                world is left as it is whatever the verdict (not a step of the Coq model: nothing to step). *)
             let m = kv r in
             let seg = if !opno < Array.length isegs then isegs.(!opno) else "" in
             let refused = String.length seg >= 9 && String.sub seg 0 9 = "plan:err " in
             let t = tarball_of ~extractor_rejected:refused m in
             observe !w (if plan_ok t then "plan:ok" else "plan:err") "-"   (* plan_ok: Model.v *)
           | _ ->
          let opv = match o with
            | "apply" :: r -> let m = kv r in
              (* admissible only as a refusal that leaves everything as it is *)
              let rejected = !opno < Array.length isegs &&
                             (let sg = isegs.(!opno) in
                              String.length sg >= 4 && String.sub sg 0 4 = "err " && tail sg = tail (observe !w "err" "-")) in
              OpApply (tarball_of ~extractor_rejected:rejected m, opts_of m, faults_of m)
            | "rollback" :: r -> OpRollback (faults_of (kv r))
            | "clear" :: _ -> OpClear
            | "edit" :: r -> let m = kv r in OpEdit (n_of_int (int_of_string (get m "p")), file_of_spec (get m "f"))
            | _ -> failwith "badop" in
          let (w', (r, mo)) = step v !w opv in
          w := w'; observe ~ver:(show_ver (step_ver opv w' r)) ~rm:(show_mon (step_res opv w' r)) w' (show_res r) (show_mon mo))) ops in
      if segs = [] then print_endline (observe !w "init" "-")
      else print_endline (String.concat " | " segs)
    | _ -> print_endline "badline"
    with e -> print_endline ("modelerror:" ^ Printexc.to_string e)) (read_lines Sys.argv.(1))
