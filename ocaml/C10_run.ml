(* C10 driver.  argv[1] = cases, argv[2] = "-" (implementation output not needed), argv[3] = variant:
     repaired | defective (all three defects) | def_<d>[_<d>...] with d in hb (dual standby never promotes),
   if (interface notifications counted), fc (first heartbeat after a loss only recorded): exactly those defects
   case:  idA prioA preA decA nifsA idB prioB preB decB nifsB op*
   ops:   st<w> sd<w> dl<w>:<i> dr<w>:<i> pl<w> pt<w> dn<w>:<k> up<w>:<k> de<w>:<k> sw<w>:<f> rs<w> SW<w>:<f>
          (w = 0 for node A, 1 for node B; SW = local switchover + delivered RPC = sw<w>:<f> then rs<other>)
   output: one token per state (initial state, then after every op):
          <A>|<B>|<transitions>   node = st,eff,peerPrio,peerState,peerKnown,downCount,isActive *)
let rec z_of_int (i : int) : z = if i = 0 then Z0 else if i > 0 then Zpos (pos_of_int i) else Zneg (pos_of_int (-i))
let int_of_z (x : z) : int = match x with Z0 -> 0 | Zpos p -> int_of_pos p | Zneg p -> - (int_of_pos p)
let st_name = function
  | Init -> "I" | Waiting -> "W" | Ready -> "R" | Active -> "A" | Standby -> "S"
  | ActiveSolo -> "AS" | StandbyAlone -> "SA"
let b01 b = if b then "1" else "0"
let show_node (n : node) =
  String.concat "," [ st_name n.n_st; string_of_int (int_of_z n.n_eff); string_of_int (int_of_z n.n_pprio);
    (match n.n_pst with None -> "-" | Some s -> st_name s); b01 n.n_pknown; string_of_int (int_of_z n.n_cnt);
    b01 (is_active n.n_st) ]
let show_trans ts =
  if ts = [] then "-" else
  String.concat ";" (List.map (fun (w, (o, n)) -> (match w with A -> "a" | B -> "b") ^ ":" ^ st_name o ^ ">" ^ st_name n) ts)
let show s ts = show_node s.p_a ^ "|" ^ show_node s.p_b ^ "|" ^ show_trans ts
let who_of c = if c = '0' then A else B
let arg tok = (* number after ':' *)
  match String.index_opt tok ':' with
  | Some i -> int_of_string (String.sub tok (i + 1) (String.length tok - i - 1))
  | None -> 0
let events_of_token tok : ev list =
  if String.length tok < 3 then failwith ("bad op " ^ tok) else
  let w = who_of tok.[2] in
  match String.sub tok 0 2 with
  | "st" -> [EStart w]
  | "sd" -> [ESend w]
  | "dl" -> [EDeliver (w, nat_of_int (arg tok))]
  | "dr" -> [EDrop (w, nat_of_int (arg tok))]
  | "pl" | "pt" -> [EPeerLost w]
  | "dn" | "de" -> [EIf (w, nat_of_int (arg tok), true)]
  | "up" -> [EIf (w, nat_of_int (arg tok), false)]
  | "sw" -> [ESwLocal (w, arg tok = 1)]
  | "rs" -> [ESwRemote w]
  | "SW" -> [ESwLocal (w, arg tok = 1); ESwRemote (other w)]
  | _ -> failwith ("bad op " ^ tok)
let () =
  let vname = if Array.length Sys.argv > 3 then Sys.argv.(3) else "repaired" in
  let v =
    if vname = "repaired" then { fix_hb = true; fix_if = true; fix_fc = true }
    else if vname = "defective" then { fix_hb = false; fix_if = false; fix_fc = false }
    else match String.split_on_char '_' vname with
      | "def" :: ds when ds <> [] && List.for_all (fun d -> List.mem d ["hb"; "if"; "fc"]) ds ->
        { fix_hb = not (List.mem "hb" ds); fix_if = not (List.mem "if" ds); fix_fc = not (List.mem "fc" ds) }
      | _ -> failwith ("unknown variant " ^ vname) in
  let lines = read_lines Sys.argv.(1) in
  List.iter (fun line ->
    match tokens line with
    | ia :: pa :: ra :: da :: na :: ib :: pb :: rb :: db :: nb :: ops ->
      (try
        let mk i p r d n = { c_id = n_of_int (int_of_string i); c_prio = z_of_int (int_of_string p);
                             c_preempt = (r = "1"); c_dec = z_of_int (int_of_string d);
                             c_nifs = nat_of_int (int_of_string n) } in
        let cs = (mk ia pa ra da na, mk ib pb rb db nb) in
        let s = ref (init_pair cs) in
        let out = ref [show !s []] in
        List.iter (fun tok ->
          let ts = ref [] in
          List.iter (fun e -> let (s', t) = step v cs !s e in s := s'; ts := !ts @ t) (events_of_token tok);
          out := show !s !ts :: !out) ops;
        print_endline (String.concat " " (List.rev !out))
      with Failure m -> print_endline ("badcase " ^ m))
    | _ -> print_endline "badline") lines
