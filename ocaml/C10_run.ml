(* C10 driver.  argv[1] = cases, argv[2] = "-" (implementation output not needed), argv[3] = variant:
     repaired (all five repairs) | defective (none) | def_<d>[_<d>...] = exactly those defects present, d in
     hb (dual standby never promotes), if (interface notifications counted), fc (dual active needs a 2nd exchange),
     sa (STANDBY_ALONE with a known peer is never left), ia (AdjustPriority outside the m.mu section),
     so (a heartbeat older than one already handled is still handled), sl (a heartbeat built before the
     receiver's last peer-loss detection is still handled)
   argv[2] = the implementation's output (one line per case).  It is used for ONE thing: outside the no-overflow
   domain (priority >= 2^31 or decrement * #interfaces >= 2^31) the property does not say what the effective
   priority is, so the model's overflow policy c_over (down count -> priority) is read off the implementation:
   before an interface op on such a node the driver records  count -> priority  from the implementation's token
   for that step and checks admissibility (a uint32, and ONE value per count: "priority is a function of the
   down count"); inadmissible => the line ends with INADMISSIBLE:<why>.
   case:  idA prioA preA decA nifsA idB prioB preB decB nifsB op*
          id = <n> (node id "node-%05d") or s:<dotted bytes> / s:e (the id string itself)
   ops:   st<w> sd<w> dl<w>:<i> dr<w>:<i> pl<w> pt<w> dn<w>:<k> up<w>:<k> de<w>:<k> sw<w>:<f> rs<w> SW<w>:<f>
          (w = 0 for node A, 1 for node B; SW = local switchover + delivered RPC = sw<w>:<f> then rs<other>)
          tk<w>:<bits>  one checkPeerTimeout tick (Timer.v): bit 0 connected, 1 start-up timeout expired, 2 heartbeat
                   too old, 3 skew refused; expands to tick_calls many EPeerLost (any WAITING group counts)
          overlap: pD<w>:<i> start handling heartbeat i, park it in the publication of ->READY (if any)
                   pL<w>     start handlePeerLost, park it between its m.mu section and sm.PeerLost
                   pS<w>     start handlePeerLost, park it in the publication of the PeerLost transition (if any)
                   rl<w>     let the parked call of w run to its end
                   (at most one parked call per node; other ops run as whole calls meanwhile)
          two groups: first op G2:pA,rA,dA,nA,pB,rB,dB,nB = priority, preempt, decrement, #interfaces of a second
                   group on both nodes (its interfaces are numbered 100+k).  The Manager is modelled as one
                   instance of the model per group; d1<w>:<i> / d2<w>:<i> deliver heartbeat i with the status of
                   group 1 / 2 only (the other instance sees ETouch); S1<w>:<f> / S2<w>:<f> complete switchover of
                   one group; every other op acts on both.  Output: <group 1 token>#<group 2 token> per step.
   output: one token per state (initial state, then after every op):
          <A>|<B>|<transitions>   node = st,eff,peerPrio,peerState,peerKnown,downCount,isActive *)
let rec z_of_int (i : int) : z = if i = 0 then Z0 else if i > 0 then Zpos (pos_of_int i) else Zneg (pos_of_int (-i))
let int_of_z (x : z) : int = match x with Z0 -> 0 | Zpos p -> int_of_pos p | Zneg p -> - (int_of_pos p)
let st_name = function
  | Init -> "I" | Waiting -> "W" | Ready -> "R" | Active -> "A" | Standby -> "S"
  | ActiveSolo -> "AS" | StandbyAlone -> "SA"
let b01 b = if b then "1" else "0"
let show_node (n : node) =
  String.concat "," [ st_name n.n_st; string_of_int (int_of_z n.n_eff); string_of_int (int_of_z n.n_pprio);
    (match n.n_pst with None -> "-" | Some s -> st_name s); b01 n.n_pknown; string_of_int (int_of_z n.n_cnt);
    b01 (is_active n.n_st) ]
let show_trans ts =
  if ts = [] then "-" else
  String.concat ";" (List.map (fun (w, (o, n)) -> (match w with A -> "a" | B -> "b") ^ ":" ^ st_name o ^ ">" ^ st_name n) ts)
let show s ts = show_node s.p_a ^ "|" ^ show_node s.p_b ^ "|" ^ show_trans ts
let show_p s probe ts =
  let t = show_trans ts in
  let t = if probe = [] then t else String.concat ";" (probe @ (if t = "-" then [] else [t])) in
  show_node s.p_a ^ "|" ^ show_node s.p_b ^ "|" ^ t
let who_of c = if c = '0' then A else B
let arg tok = (* number after ':' *)
  match String.index_opt tok ':' with
  | Some i -> int_of_string (String.sub tok (i + 1) (String.length tok - i - 1))
  | None -> 0
let events_of_token tok : ev list =
  if String.length tok < 3 then failwith ("bad op " ^ tok) else
  let w = who_of tok.[2] in
  match String.sub tok 0 2 with
  | "st" -> [EStart w]
  | "sd" -> [ESend w]
  | "dl" | "dg" -> [EDeliver (w, nat_of_int (arg tok))]   (* dg: with statuses of groups this node does not have *)
  | "dr" -> [EDrop (w, nat_of_int (arg tok))]
  | "pl" | "pt" -> [EPeerLost w]
  | "dn" | "de" -> [EIf (w, nat_of_int (arg tok), true)]
  | "up" -> [EIf (w, nat_of_int (arg tok), false)]
  | "sw" -> [ESwLocal (w, arg tok = 1)]
  | "rs" -> [ESwRemote w]
  | "SW" -> [ESwLocal (w, arg tok = 1); ESwRemote (other w)]
  | "SU" -> (* name list with an unknown group at position arg/2: the local half skips it, the remote handler stops
               at it (one group: switched remotely only when the unknown name comes after it) *)
    ESwLocal (w, arg tok mod 2 = 1) :: (if arg tok / 2 >= 1 then [ESwRemote (other w)] else [])
  | _ -> failwith ("bad op " ^ tok)
let id_of_token t : n list =
  if String.length t >= 2 && String.sub t 0 2 = "s:" then cps_of_token (String.sub t 2 (String.length t - 2))
  else List.map (fun c -> n_of_int (Char.code c)) (List.of_seq (String.to_seq (Printf.sprintf "node-%05d" (int_of_string t))))
let () =
  let vname = if Array.length Sys.argv > 3 then Sys.argv.(3) else "repaired" in
  let all = ["hb"; "if"; "fc"; "sa"; "ia"; "so"; "sl"] in
  let mk ds = { fix_hb = not (List.mem "hb" ds); fix_if = not (List.mem "if" ds); fix_fc = not (List.mem "fc" ds);
                fix_sa = not (List.mem "sa" ds); fix_ia = not (List.mem "ia" ds) } in
  let mkf ds = { fix_so = not (List.mem "so" ds); fix_sl = not (List.mem "sl" ds) } in
  let (v, sf) =
    if vname = "repaired" then (mk [], mkf [])
    else if vname = "defective" then (mk all, mkf all)
    else match String.split_on_char '_' vname with
      | "def" :: ds when ds <> [] && List.for_all (fun d -> List.mem d all) ds -> (mk ds, mkf ds)
      | _ -> failwith ("unknown variant " ^ vname) in
  let lines = read_lines Sys.argv.(1) in
  let impl_lines =
    if Array.length Sys.argv > 2 && Sys.argv.(2) <> "-" then Array.of_list (read_lines Sys.argv.(2)) else [||] in
  let lineno = ref (-1) in
  List.iter (fun line ->
    incr lineno;
    let impl_toks =
      if !lineno < Array.length impl_lines then Array.of_list (tokens impl_lines.(!lineno)) else [||] in
    match tokens line with
    | ia :: pa :: ra :: da :: na :: ib :: pb :: rb :: db :: nb :: ops ->
      (try
       let attempt (coa, cob) =
        let tbl_a : (int, int) Hashtbl.t = Hashtbl.create 7 and tbl_b : (int, int) Hashtbl.t = Hashtbl.create 7 in
        let inadmissible = ref "" in
        let over tbl z = match Hashtbl.find_opt tbl (int_of_z z) with Some e -> z_of_int e | None -> Z0 in
        let mkc ?(co = false) tbl i p r d n = { c_id = id_of_token i; c_prio = z_of_int (int_of_string p);
                                  c_preempt = (r = "1"); c_dec = z_of_int (int_of_string d);
                                  c_nifs = nat_of_int (int_of_string n); c_over = over tbl; c_coalesce = co } in
        let cs = (mkc ~co:coa tbl_a ia pa ra da na, mkc ~co:cob tbl_b ib pb rb db nb) in
        (* overflow policy read off the implementation (see header) *)
        let learn w step =
          let c = (match w with A -> fst cs | B -> snd cs) in
          if not (cfg_smallb c) && step < Array.length impl_toks then
            (match String.split_on_char '|' impl_toks.(step) with
             | na :: nb :: _ ->
               (match String.split_on_char ',' (match w with A -> na | B -> nb) with
                | [_; eff; _; _; _; cnt; _] ->
                  (match int_of_string_opt eff, int_of_string_opt cnt with
                   | Some e, Some k ->
                     let tbl = (match w with A -> tbl_a | B -> tbl_b) in
                     if e < 0 || e > 4294967295 then inadmissible := "priority-not-a-uint32"
                     else (match Hashtbl.find_opt tbl k with
                           | Some e' when e' <> e -> inadmissible := "priority-not-a-function-of-the-down-count"
                           | _ -> Hashtbl.replace tbl k e)
                   | _ -> ())
                | _ -> ())
             | _ -> ()) in
        (* IX:<n> only selects the sw_if_index values used by the harness: invisible to the model *)
        let ops = (match ops with ix :: r when String.length ix > 3 && String.sub ix 0 3 = "IX:" -> r | _ -> ops) in
        (match ops with
         | g2 :: ops when String.length g2 > 3 && String.sub g2 0 3 = "G2:" ->
           (* two groups: two instances of the model *)
           let p = Array.of_list (String.split_on_char ',' (String.sub g2 3 (String.length g2 - 3))) in
           if Array.length p <> 8 && Array.length p <> 9 then failwith "bad G2";   (* 9th field: name of the group *)
           let cs2 = (mkc (Hashtbl.create 1) ia p.(0) p.(1) p.(2) p.(3), mkc (Hashtbl.create 1) ib p.(4) p.(5) p.(6) p.(7)) in
           let s1 = ref (init_pair cs) and s2 = ref (init_pair cs2) in
           let t1 = ref [] and t2 = ref [] in
           let stl = ref sinit in
           let e1 e = let (s', t) = step v cs !s1 e in s1 := s'; t1 := !t1 @ t in
           let e2 e = let (s', t) = step v cs2 !s2 e in s2 := s'; t2 := !t2 @ t in
           (* staleness is decided once per message (group 1's queue has the same shape as group 2's) *)
           let both ea eb =
             let (e', tt) = sdecide sf !stl !s1 ea in
             (match e' with
              | EStale (w, i) -> e1 e'; e2 (EStale (w, i))
              | _ -> e1 ea; e2 eb);
             stl := ssync tt !s1 in
           let out = ref [show !s1 [] ^ "#" ^ show !s2 []] in
           List.iter (fun tok ->
             t1 := []; t2 := [];
             if String.length tok < 3 then failwith ("bad op " ^ tok);
             let w = who_of tok.[2] in
             let a = arg tok in
             (* events that do not concern one group are applied to the other only; bookkeeping follows group 1 *)
             let note e = let (_, tt) = sdecide sf !stl !s1 e in stl := tt in
             let resync () = stl := ssync !stl !s1 in
             (match String.sub tok 0 2 with
              | "d1" -> both (EDeliver (w, nat_of_int a)) (ETouch (w, nat_of_int a))
              | "d2" -> both (ETouch (w, nat_of_int a)) (EDeliver (w, nat_of_int a))
              | "dl" | "dg" -> both (EDeliver (w, nat_of_int a)) (EDeliver (w, nat_of_int a))
              | "dn" | "de" | "up" ->
                let d = String.sub tok 0 2 <> "up" in
                if a < 100 then e1 (EIf (w, nat_of_int a, d)) else e2 (EIf (w, nat_of_int (a - 100), d))
              | "SU" ->
                let f = (a mod 2 = 1) and pos = a / 2 in
                e1 (ESwLocal (w, f)); e2 (ESwLocal (w, f));
                if pos >= 1 then e1 (ESwRemote (other w));
                if pos >= 2 then e2 (ESwRemote (other w))
              | "S1" -> e1 (ESwLocal (w, a = 1)); e1 (ESwRemote (other w))
              | "S2" -> e2 (ESwLocal (w, a = 1)); e2 (ESwRemote (other w))
              | "tk" ->
                let i st other = { t_conn = a land 1 <> 0; t_upexp = a land 2 <> 0; t_hbold = a land 4 <> 0;
                                   t_skew = a land 8 <> 0; t_otherw = other } in
                let stw p = (match w with A -> p.p_a.n_st | B -> p.p_b.n_st) in
                let k = int_of_nat (tick_calls (i () (stw !s2 = Waiting)) (stw !s1)) in
                for _ = 1 to k do note (EPeerLost w); e1 (EPeerLost w); e2 (EPeerLost w); resync () done
              | "pD" | "pL" | "pS" | "rl" | "xa" | "xu" | "xg" | "xh" -> failwith "op not supported with two groups"
              | _ -> List.iter (fun e -> note e; e1 e; e2 e; resync ()) (events_of_token tok));
             out := (show !s1 !t1 ^ "#" ^ show !s2 !t2) :: !out) ops;
           String.concat " " (List.rev !out)
         | _ ->
        let s = ref (finit cs) in
        let out = ref [show !s.f_p []] in
        let ts = ref [] in
        let probe = ref [] in
        let stl = ref sinit in
        let fe e = let (s', t) = fstep v cs !s e in s := s'; ts := !ts @ t; t in
        let note e = let (_, tt) = sdecide sf !stl !s.f_p e in stl := tt in
        let rec finish w = if thrs_of w !s <> [] then (ignore (fe (FMicro (w, O))); finish w) in
        let stepno = ref 0 in
        let moved = ref true in
        List.iter (fun tok ->
          ts := []; probe := []; incr stepno;
          if String.length tok < 3 then failwith ("bad op " ^ tok);
          let w = who_of tok.[2] in
          (match String.sub tok 0 2 with
           | "dn" | "up" | "de" | "xa" | "xu" | "xg" | "xh" ->
             (* only notifications for tracked interfaces reach AdjustPriority, and with the coalescing policy only
                those that move the down count (dry run of the pure model step to see) *)
             let c = (match w with A -> fst cs | B -> snd cs) in
             let cnt_of st = (match w with A -> st.f_p.p_a.n_cnt | B -> st.f_p.p_b.n_cnt) in
             let down = (String.sub tok 0 2 <> "up" && String.sub tok 0 2 <> "xu" && String.sub tok 0 2 <> "xh") in
             let (s', _) = fstep v cs !s (FCoarse (EIf (w, nat_of_int (arg tok), down))) in
             moved := (cnt_of s' <> cnt_of !s);
             if tracked c (nat_of_int (arg tok)) && (not c.c_coalesce || !moved) then learn w !stepno
           | _ -> ());
          (match String.sub tok 0 2 with
           | "pD" ->
             if thrs_of w !s <> [] then failwith "two parked calls";
             let (e', tt) = sdecide sf !stl !s.f_p (EDeliver (w, nat_of_int (arg tok))) in
             stl := tt;
             (match e' with
              | EStale _ -> ignore (fe (FCoarse e'))
              | _ ->
                ignore (fe (FHb (w, nat_of_int (arg tok))));
                (* run until PeerDiscovered has published a transition (parked inside Publish), else to the end *)
                let rec go () = match thrs_of w !s with
                  | [] -> ()
                  | THbDisc _ :: _ -> let t = fe (FMicro (w, O)) in if t = [] then go ()
                  | _ -> ignore (fe (FMicro (w, O))); go () in
                go ())
           | "pL" ->
             if thrs_of w !s <> [] then failwith "two parked calls";
             note (EPeerLost w);
             ignore (fe (FLost w)); ignore (fe (FMicro (w, O)))
           | "pS" ->
             if thrs_of w !s <> [] then failwith "two parked calls";
             note (EPeerLost w);
             ignore (fe (FLost w)); ignore (fe (FMicro (w, O)));
             let t = fe (FMicro (w, O)) in if t = [] then finish w
           | "tk" ->
             let a = arg tok in
             let i = { t_conn = a land 1 <> 0; t_upexp = a land 2 <> 0; t_hbold = a land 4 <> 0;
                       t_skew = a land 8 <> 0; t_otherw = false } in
             List.iter (fun e ->
                 let (e', tt) = sdecide sf !stl !s.f_p e in
                 ignore (fe (FCoarse e')); stl := ssync tt !s.f_p) (tick_events w i !s.f_p)
           | "rl" -> note (ESend w); finish w
           | "xg" | "xh" ->
             (* gap reader (harness header): the state seen between the call's first m.mu section and anything after
                it is (down count, effective priority) AFTER the notification when update and adjustment are one
                section (fix_ia), the new count with the OLD priority otherwise *)
             let k = nat_of_int (arg tok) in
             let c = (match w with A -> fst cs | B -> snd cs) in
             let node st = (match w with A -> st.f_p.p_a | B -> st.f_p.p_b) in
             let before = node !s in
             ignore (fe (FCoarse (EIf (w, k, String.sub tok 0 2 = "xg"))));
             if tracked c k then begin
               let after = node !s in
               let eff = if v.fix_ia then after.n_eff else before.n_eff in
               probe := [(match w with A -> "a" | B -> "b") ^ ":gap=" ^ string_of_int (int_of_z after.n_cnt) ^ ","
                         ^ string_of_int (int_of_z eff)]
             end
           | "xa" | "xu" ->
             (* lock probe: is m.mu held when AdjustPriority is entered (only asked for tracked interfaces) *)
             let k = nat_of_int (arg tok) in
             let c = (match w with A -> fst cs | B -> snd cs) in
             if tracked c k && (not c.c_coalesce || !moved) then
               probe := [(match w with A -> "a" | B -> "b") ^ (if v.fix_ia then ":mu=held" else ":mu=free")];
             ignore (fe (FCoarse (EIf (w, k, String.sub tok 0 2 = "xa"))))
           | _ -> List.iter (fun e ->
                    let (e', tt) = sdecide sf !stl !s.f_p e in
                    ignore (fe (FCoarse e')); stl := ssync tt !s.f_p) (events_of_token tok));
          stl := ssync !stl !s.f_p;
          out := show_p !s.f_p !probe !ts :: !out) ops;
        String.concat " " (List.rev !out) ^ (if !inadmissible = "" then "" else " INADMISSIBLE:" ^ !inadmissible)) in
       (* implementation choice "coalesce redundant interface notifications" (cfg.c_coalesce), per node: resolved
          by the observed output -- the first of the four policies that reproduces the implementation's line *)
       let impl_line = if !lineno < Array.length impl_lines then impl_lines.(!lineno) else "" in
       let r0 = attempt (false, false) in
       let r =
         if impl_line = "" || r0 = impl_line then r0
         else begin
           (* the policy whose line agrees with the implementation's for the longest prefix of steps (a later
              divergence, e.g. a recorded finding, must not hide the choice) *)
           let it = Array.of_list (tokens impl_line) in
           let lcp l =
             let t = Array.of_list (tokens l) in
             let n = min (Array.length t) (Array.length it) in
             let rec go i = if i < n && t.(i) = it.(i) then go (i + 1) else i in go 0 in
           List.fold_left (fun (best, bl) c ->
               let r = attempt c in let l = lcp r in if l > bl then (r, l) else (best, bl))
             (r0, lcp r0) [(true, true); (true, false); (false, true)] |> fst
         end in
       print_endline r
      with Failure m -> print_endline ("badcase " ^ m))
    | _ -> print_endline "badline") lines
