(* C09 driver.  argv[1] = cases, argv[2] = "-", argv[3] = variant name:
     repaired | d_c | d_s | d_a | d_cs | d_ca | d_sa | defective
   (c = counter regress undetected, s = Stop without open accounting, a = Active overwrites restored checkpoint)
   Case / output format: see harness/C09/zz_verif_c09_test.go.
   Besides replaying the component model the driver evaluates, per session, the property monitor and the plain
   statements on the projected trace and cross-checks them against the theorems' predictions for the repaired
   variant (MODELBUG if the extracted code disagrees with what is proved). *)
let variant_of = function
  | "repaired" | "" -> { fix_counters = true; fix_stop = true; fix_active = true }
  | "d_c" -> { fix_counters = false; fix_stop = true; fix_active = true }
  | "d_s" -> { fix_counters = true; fix_stop = false; fix_active = true }
  | "d_a" -> { fix_counters = true; fix_stop = true; fix_active = false }
  | "d_cs" -> { fix_counters = false; fix_stop = false; fix_active = true }
  | "d_ca" -> { fix_counters = false; fix_stop = true; fix_active = false }
  | "d_sa" -> { fix_counters = true; fix_stop = false; fix_active = false }
  | "defective" -> { fix_counters = false; fix_stop = false; fix_active = false }
  | s -> failwith ("unknown variant " ^ s)

let c4_of a b c d = { rxb = n_of_decimal a; txb = n_of_decimal b; rxp = n_of_decimal c; txp = n_of_decimal d }
let show_c4 c = String.concat ":" [decimal_of_n c.rxb; decimal_of_n c.txb; decimal_of_n c.rxp; decimal_of_n c.txp]
exception Bad
let parse_snap t =
  if t = "-" then None
  else if t = "e" then Some []
  else Some (List.map (fun it ->
      match String.split_on_char ':' it with
      | [i; a; b; c; d] -> (n_of_decimal i, c4_of a b c d)
      | _ -> raise Bad) (String.split_on_char '+' t))
let is_uint s = s <> "" && String.length s <= 10 && (let ok = ref true in String.iter (fun ch -> if ch < '0' || ch > '9' then ok := false) s; !ok)
let uint s = if is_uint s then int_of_string s else raise Bad
let rec nat_list_of_mask m i k = if i >= k then [] else if m land (1 lsl i) <> 0 then nat_of_int i :: nat_list_of_mask m (i+1) k else nat_list_of_mask m (i+1) k

let show_out j = function
  | Start -> Printf.sprintf "S%d:0:0:0:0" j
  | Interim (c, ok) -> Printf.sprintf "I%d:%s:%s" j (show_c4 c) (if ok then "k" else "f")
  | Stop c -> Printf.sprintf "E%d:%s" j (show_c4 c)

let dump_sess pre e = Printf.sprintf ",%s,x%s,L%s,P%s,B%s" pre (decimal_of_n e.ifx) (show_c4 e.last) (show_c4 e.prior) (show_c4 e.base)

let run_case v line =
  match tokens line with
  | "S" :: k :: rest ->
    let k = uint k in
    let rec take n l acc = if n = 0 then (List.rev acc, l) else match l with x :: r -> take (n-1) r (x :: acc) | [] -> raise Bad in
    let (ss, ops) = take k rest [] in
    let bk = List.map (fun s -> match String.split_on_char ':' s with [_; b; _] -> n_of_int (uint b) | _ -> raise Bad) ss in
    let g = ref (List.map (fun _ -> sst0) ss) in
    let traces = Array.make k [] in      (* per session: reversed list of (local event, calls) *)
    let groups = List.map (fun op ->
        let ev = match String.split_on_char ',' op with
          | ["A"; i; x] -> if uint i >= k then raise Bad; GActive (nat_of_int (uint i), n_of_int (uint x))
          | ["R"; i; x] -> if uint i >= k then raise Bad; GRestored (nat_of_int (uint i), n_of_int (uint x))
          | ["X"; i; sn] -> if uint i >= k then raise Bad; GReleased (nat_of_int (uint i), parse_snap sn)
          | ["T"; b; m; sn] -> GTick (n_of_int (uint b), nat_list_of_mask (uint m) 0 k, parse_snap sn)
          | ["B"] -> GRestart
          | ["P"; p] -> GPrune (p = "1")
          | _ -> raise Bad in
        let r = gstep v bk !g ev in
        g := List.map fst r;
        List.iteri (fun j (_, o) -> match project bk (nat_of_int j) ev with
            | Some le -> traces.(j) <- (le, o) :: traces.(j)
            | None -> ()) r;
        let toks = List.concat (List.mapi (fun j (_, o) -> List.map (show_out j) o) r) in
        "[" ^ String.concat " " toks ^ "]") ops in
    let dump = List.mapi (fun j s ->
        let p = Printf.sprintf "s%d=b%d" j (if s.inb then 1 else 0) in
        let p = p ^ (match s.cache with
            | Some e -> Printf.sprintf ",c1,p%d" (if e.pending then 1 else 0) ^
                        Printf.sprintf ",x%s,L%s,P%s,B%s" (decimal_of_n e.ifx) (show_c4 e.last) (show_c4 e.prior) (show_c4 e.base)
            | None -> ",c0") in
        p ^ (match s.db with Some d -> dump_sess "d1" d | None -> ",d0")) !g in
    (* the property evaluated per session on the projected trace: bracketed / stops_ok / nondecreasing *)
    let b x = if x then "1" else "0" in
    let verdicts = List.mapi (fun j _ ->
        let t = List.rev traces.(j) in
        let evs = List.map fst t in
        let brk = bracketed false (outputs t) and stp = stops_ok false t and mono = nondecreasing c4z (outputs t) in
        let wraps = lrun_wraps v sst0 evs and np = no_prune evs in
        (* cross-check of the extracted code against what is proved for the repaired variant *)
        let (_, t') = lrun v sst0 evs in
        let bug = t' <> t ||
                  (v = variant_of "repaired" &&
                   ((not wraps && not (accepted t)) || not stp || (np && not wraps && not (brk && mono)))) in
        Printf.sprintf "v%d=%s%s%s%s" j (b brk) (b stp) (b mono) (if bug then "MODELBUG" else "")) ss in
    String.concat " " groups ^ " ; " ^ String.concat " " dump ^ " ; " ^ String.concat " " verdicts
  | _ -> raise Bad

let () =
  let lines = read_lines Sys.argv.(1) in
  let v = variant_of (if Array.length Sys.argv > 3 then Sys.argv.(3) else "repaired") in
  List.iter (fun line ->
      let r = try run_case v line
        with Bad | Failure _ | Invalid_argument _ -> "badline" in
      print_endline r) lines
