(* C09 driver.  argv[1] = cases, argv[2] = "-", argv[3] = variant name:
     repaired | d_c | d_s | d_a | d_cs | d_ca | d_sa | defective
   (c = counter regress undetected, s = Stop without open accounting, a = Active overwrites restored checkpoint)
   Case / output format: see harness/C09/zz_verif_c09_test.go.
   Besides replaying the component model the driver evaluates, per session, the property monitor and the plain
   statements on the projected trace and cross-checks them against the theorems' predictions for the repaired
   variant (MODELBUG if the extracted code disagrees with what is proved). *)
(* variants: v<s><o><l><p><t><q><g> = fix_sent, fix_order, fix_l2stop, fix_prune, fix_l2tp, fix_presend, fix_ghost on top of
   the first three repairs; "head" = v1011111 = /repo HEAD; "repaired" = v1111111; "defective" = the code as first found *)
let variant_of name =
  let mk s o l p t q g = { fix_counters = true; fix_stop = true; fix_active = true; fix_sent = s; fix_order = o; fix_l2stop = l;
                           fix_prune = p; fix_l2tp = t; fix_presend = q; fix_ghost = g } in
  match name with
  | "repaired" | "" -> mk true true true true true true true
  | "head" -> mk true false true true true true true
  | "defective" -> { fix_counters = false; fix_stop = false; fix_active = false; fix_sent = false; fix_order = false;
                     fix_l2stop = false; fix_prune = false; fix_l2tp = false; fix_presend = false; fix_ghost = false }
  | s when String.length s = 8 && s.[0] = 'v' ->
    mk (s.[1] = '1') (s.[2] = '1') (s.[3] = '1') (s.[4] = '1') (s.[5] = '1') (s.[6] = '1') (s.[7] = '1')
  | s -> failwith ("unknown variant " ^ s)

let c4_of a b c d = { rxb = n_of_decimal a; txb = n_of_decimal b; rxp = n_of_decimal c; txp = n_of_decimal d }
let show_c4 c = String.concat ":" [decimal_of_n c.rxb; decimal_of_n c.txb; decimal_of_n c.rxp; decimal_of_n c.txp]
exception Bad
let parse_ifs t =
  if t = "-" then None
  else if t = "e" then Some []
  else Some (List.map (fun it ->
      match String.split_on_char ':' it with
      | [i; a; b; c; d] -> (n_of_decimal i, c4_of a b c d)
      | _ -> raise Bad) (String.split_on_char '+' t))
let parse_l2 t =
  if t = "-" then None
  else if t = "e" then Some []
  else Some (List.map (fun it ->
      match String.split_on_char ':' it with
      | [i; b; p] -> (n_of_decimal i, (n_of_decimal b, n_of_decimal p))
      | _ -> raise Bad) (String.split_on_char '+' t))
(* <interface table>  or  <interface table>|<l2gw segment>   (no segment given = unavailable) *)
let parse_snap t =
  match String.split_on_char '|' t with
  | [a] -> { ifs = parse_ifs a; l2 = None }
  | [a; b] -> { ifs = parse_ifs a; l2 = parse_l2 b }
  | _ -> raise Bad
let is_uint s = s <> "" && String.length s <= 10 && (let ok = ref true in String.iter (fun ch -> if ch < '0' || ch > '9' then ok := false) s; !ok)
let uint s = if is_uint s then int_of_string s else raise Bad
let rec nat_list_of_mask m i k = if i >= k then [] else if m land (1 lsl i) <> 0 then nat_of_int i :: nat_list_of_mask m (i+1) k else nat_list_of_mask m (i+1) k

let show_out j = function
  | Start -> Printf.sprintf "S%d:0:0:0:0" j
  | Interim (c, ok) -> Printf.sprintf "I%d:%s:%s" j (show_c4 c) (if ok then "k" else "f")
  | Stop c -> Printf.sprintf "E%d:%s" j (show_c4 c)

let dump_sess pre e = Printf.sprintf ",%s,x%s,L%s,P%s,B%s" pre (decimal_of_n e.ifx) (show_c4 e.last) (show_c4 e.prior) (show_c4 e.base)

let run_case v line =
  match tokens line with
  | ("S" | "Sr") :: k :: rest ->
    let k = uint k in
    let rec take n l acc = if n = 0 then (List.rev acc, l) else match l with x :: r -> take (n-1) r (x :: acc) | [] -> raise Bad in
    let (ss, ops) = take k rest [] in
    (* sessions are named by co-location class: equal class = same interim bucket; the bucket NUMBER is the
       implementation's choice, so the model uses the class as the (abstract) bucket *)
    let bk = List.map (fun s -> match String.split_on_char ':' s with [c; _] -> if uint c > 8 then raise Bad else n_of_int (uint c) | _ -> raise Bad) ss in
    let tyn = List.map (fun s -> match String.split_on_char ':' s with
        | [_; "g"] -> n_of_int 1 | [_; "t"] -> n_of_int 2 | [_; _] -> N0 | _ -> raise Bad) ss in
    let tys = List.map (fun c -> c = n_of_int 1) tyn in       (* l2gw? *)
    let is_t j = List.nth tyn j = n_of_int 2 in                (* PPP over L2TP? *)
    let bucket_of b = if b = "z" then n_of_int 99 else n_of_int (uint b) in
    let ann f i rest = if uint i >= k then raise Bad else
        match rest with
        | [x] -> f (nat_of_int (uint i)) (n_of_int (uint x)) N0
        | [x; h] -> f (nat_of_int (uint i)) (n_of_int (uint x)) (if List.nth tys (uint i) then n_of_int (uint h) else (ignore (uint h); N0))
        | _ -> raise Bad in
    let g = ref (List.map (fun _ -> sst0) ss) in
    let traces = Array.make k [] in      (* per session: reversed list of (local event AS THE VARIANT READS IT, calls ISSUED) *)
    let otraces = Array.make k [] in     (* ... with the notification as it was delivered: what the property bits are judged on *)
    let arrived = Array.make k [] in     (* per session: reversed list of calls ARRIVED at the provider *)
    let atrace = Array.make k [] in      (* per session: reversed list of (notification, calls ARRIVED during it) *)
    (* wrapped_at.(j).(q): op index at which counter q (0 in-octets, 1 out-octets, 2 in-packets, 3 out-packets) of session
       j first wrapped - per counter: a wrap of one counter says nothing about the others *)
    let wrapped_at = Array.init k (fun _ -> Array.make 4 max_int) in
    let cur_op = ref 0 in
    (* identity of the cached entry: without fix_l2tp an entry created by a lifecycle event of an l2tp session has no
       Acct-Session-Id / User-Name (an entry seeded by Restored has); Start / Interim / prune-Stop are built from the entry,
       the release Stop from the notification *)
    let noid = Array.make k false in
    let cur_is_prune = ref false in
    let pruned = Array.make k false in   (* excuse P: the session's accounting was dropped by an orphan prune *)
    let delayed = Array.make k false in  (* excuse D: a Start of the session was held back *)
    let held = Array.make k [] in        (* per session: calls issued but delayed (oldest first) *)
    let hold_start = ref false in
    let hold_int = ref false in          (* Accounting-Responses of Interims are being held back *)
    let any_held_int = ref false in
    let pending_resp = Array.make k [] in   (* per session: outcomes (ok?) of the Interims still unanswered, oldest first *)
    let flight_valid = Array.make k false in  (* the unanswered Interim's session object is still the cached one *)
    let put_hold = ref false in               (* checkpoint writes are held back before they reach the store *)
    let pending_put = Array.make k None in    (* a response was processed for the cached session, its checkpoint write is held *)
    let late_put = Array.make k None in       (* ... and the session was released before that write reached the store *)
    let detached = Array.make k false in      (* ... or it was released meanwhile: the response acts on the detached object *)
    let ghosted = Array.make k false in
    let forgot = Array.make k false in        (* excuse Q: the process restarted while an Interim of the session was unanswered *)
    let detached_seen = Array.make k false in  (* printed letter G: a late response was delivered for a released session *)       (* excuse G: a late response re-created the checkpoint of a released session *)
    let racy = ref false in
    let nops = List.length ops in
    let step_one ev =
      let before = !g in
      List.iteri (fun j s0 -> match project bk (nat_of_int j) ev with
          | Some le ->
            let le = l2tp_view v (is_t j) le in
            let w = lstep_wraps4 v (List.nth tys j) s0 le in
            List.iteri (fun q f -> if f && wrapped_at.(j).(q) = max_int then wrapped_at.(j).(q) <- !cur_op)
              [w.w_rxb; w.w_txb; w.w_rxp; w.w_txp]
          | None -> ()) before;
      let r = gstep v bk tyn !g ev in
      g := List.map fst r;
      cur_is_prune := (match ev with GPrune _ -> true | _ -> false);
      List.iteri (fun j (s0, s1) ->
          (match ev with
           | GRestored (jj, _, _) when int_of_nat jj = j && s0.cache = None && s1.cache <> None -> noid.(j) <- false
           | _ -> ())) (List.combine before !g);
      (match ev with
       | GPrune true -> List.iteri (fun j (s0, s1) -> if s0.cache <> None && s1.cache = None then pruned.(j) <- true)
                          (List.combine before !g)
       | _ -> ());
      List.iteri (fun j (_, o) -> match project bk (nat_of_int j) ev with
          | Some le -> traces.(j) <- (l2tp_view v (is_t j) le, o) :: traces.(j);
            otraces.(j) <- (le, o) :: otraces.(j)
          | None -> ()) r;
      (* asynchronous delivery: which of the issued calls arrive now *)
      List.concat (List.mapi (fun j (_, o) ->
          let (h', arr) = issue v !hold_start held.(j) o in
          if !hold_start && List.mem Start o then delayed.(j) <- true;
          held.(j) <- h';
          arrived.(j) <- List.rev_append arr arrived.(j);
          (match project bk (nat_of_int j) ev with
           | Some le -> atrace.(j) <- (le, arr) :: atrace.(j)
           | None -> if arr <> [] then atrace.(j) <- (EPrune false, arr) :: atrace.(j));
          (* identity: without fix_l2tp the calls of an l2tp session carry no Acct-Session-Id / User-Name *)
          if List.mem Start o && is_t j && not v.fix_l2tp then noid.(j) <- true;
          let bang x = match x with
            | Stop _ -> if noid.(j) && !cur_is_prune then "!" else ""
            | _ -> if noid.(j) then "!" else "" in
          List.map (fun x -> (j, show_out j x ^ bang x)) arr) r) in
    let groups = List.mapi (fun oi op ->
        cur_op := oi;
        if !racy then raise Bad;
        if String.length op > 2 && String.sub op 0 2 = "C/" then begin
          (* concurrent group: the forced overlap makes every Released do its lookup-and-delete before any tick
             passes the stats snapshot, so the schedule-independent outcome is "Released first, then the tick" *)
          match String.split_on_char '/' op with
          | _ :: sn :: ms when List.length ms >= 2 ->
            let sn = parse_snap sn in
            let ms = List.map (String.split_on_char ',') ms in
            let nt = List.length (List.filter (fun m -> List.hd m = "T") ms) in
            let has_ar = List.exists (fun m -> List.hd m = "A" || List.hd m = "R") ms in
            List.iter (function
                | ("A" | "R") :: i :: rest -> ignore (ann (fun _ _ _ -> ()) i rest)
                | ["X"; i] -> if uint i >= k then raise Bad
                | ["T"; b; m] -> ignore (bucket_of b); ignore (uint m)
                | _ -> raise Bad) ms;
            if nt > 1 || (has_ar && (oi <> nops - 1 || nt > 0)) then raise Bad;
            if has_ar then begin racy := true; "{ok}" end
            else begin
              let evs = List.filter_map (function ["X"; i] -> Some (GReleased (nat_of_int (uint i), sn)) | _ -> None) ms
                        @ List.filter_map (function ["T"; b; m] -> Some (GTick (bucket_of b, nat_list_of_mask (uint m) 0 k, sn)) | _ -> None) ms in
              let toks = List.concat (List.map step_one evs) in
              let toks = List.stable_sort compare toks in
              "[" ^ String.concat " " (List.map snd toks) ^ "]"
            end
          | _ -> raise Bad
        end else begin
        let ev = match String.split_on_char ',' op with
          | "A" :: i :: rest -> ann (fun j x h -> GActive (j, x, h)) i rest
          | "R" :: i :: rest -> ann (fun j x h -> GRestored (j, x, h)) i rest
          | ["X"; i; sn] -> if uint i >= k then raise Bad;
            (* (without fix_l2tp a released notification of an l2tp session releases nothing) *)
            if not (is_t (uint i) && not v.fix_l2tp) then begin
              (match pending_put.(uint i) with Some ok -> late_put.(uint i) <- Some ok; pending_put.(uint i) <- None | None -> ());
              if flight_valid.(uint i) then detached.(uint i) <- true;
              flight_valid.(uint i) <- false
            end;
            GReleased (nat_of_int (uint i), parse_snap sn)
          | ["T"; b; m; sn] ->
            (* while responses are held every Interim of this tick is "sent, no response yet" *)
            GTick (bucket_of b, (if !hold_int then nat_list_of_mask ((1 lsl k) - 1) 0 k else nat_list_of_mask (uint m) 0 k),
                   parse_snap sn)
          | ["B"] -> Array.iteri (fun j l -> if l <> [] then forgot.(j) <- true) pending_resp;
            Array.fill flight_valid 0 k false; Array.fill detached 0 k false; GRestart
          | ["P"; p] -> GPrune (p = "1")
          | ["H"; _] | ["U"] | ["UW"] -> GPrune false       (* placeholder, handled below *)
          | _ -> raise Bad in
        match String.split_on_char ',' op with
        | ["H"; "S"] -> hold_start := true; hold_int := false; "[]"
        | ["H"; "I"] -> hold_start := false; hold_int := true; "[]"
        | ["H"; "SI"] -> hold_start := true; hold_int := true; "[]"
        | ["H"; "-"] -> hold_start := false; hold_int := false; put_hold := false; "[]"
        | ["H"; "W"] -> hold_start := false; hold_int := false; put_hold := true; "[]"
        | ["H"; "IW"] -> hold_start := false; hold_int := true; put_hold := true; "[]"
        | ["UW"] ->
          (* the held checkpoint writes reach the store: for a session released meanwhile that is a write after the
             delete - the same step as a late response on the detached object *)
          put_hold := false;
          Array.iteri (fun j lp -> match lp with
              | Some ok ->
                detached_seen.(j) <- true;
                ignore (step_one (GLate (nat_of_int j, ok)));
                if not v.fix_ghost then ghosted.(j) <- true;
                late_put.(j) <- None
              | None -> ()) late_put;
          Array.fill pending_put 0 k None;
          "[]"
        | ["H"; _] -> raise Bad
        | ["U"] ->
          (* session by session: the delayed Starts arrive (oldest first), then the held responses are delivered:
             K = acknowledged, F = failed.  An acknowledgement acts on the session object the Interim was computed on;
             if that object was released meanwhile it has no effect on the stream *)
          let toks = List.concat (List.mapi (fun j _ ->
              let l = held.(j) in
              held.(j) <- [];
              arrived.(j) <- List.rev_append l arrived.(j);
              if l <> [] then atrace.(j) <- (EPrune false, l) :: atrace.(j);
              let rs = pending_resp.(j) in
              pending_resp.(j) <- [];
              let rt = List.map (fun ok ->
                  if ok && flight_valid.(j) then ignore (step_one (GAck (nat_of_int j)));
                  if (not ok) && flight_valid.(j) then ignore (step_one (GNack (nat_of_int j)));
                  if flight_valid.(j) && !put_hold then pending_put.(j) <- Some ok;
                  if detached.(j) then begin
                    detached_seen.(j) <- true;
                    ignore (step_one (GLate (nat_of_int j, ok)));
                    if not v.fix_ghost then ghosted.(j) <- true;
                    detached.(j) <- false
                  end;
                  Printf.sprintf "%s%d" (if ok then "K" else "F") j) rs in
              flight_valid.(j) <- false;
              List.map (fun x -> show_out j x ^ (if noid.(j) then "!" else "")) l @ rt) ss) in
          "[" ^ String.concat " " toks ^ "]"
        | "T" :: _ :: m :: _ when !hold_int ->
          any_held_int := true;
          let mask = uint m in
          let toks = step_one ev in
          List.iter (fun (j, _) -> pending_resp.(j) <- pending_resp.(j) @ [mask land (1 lsl j) = 0]; flight_valid.(j) <- true) toks;
          let held_tok t =
            let bang = String.length t > 0 && t.[String.length t - 1] = '!' in
            let u = if bang then String.sub t 0 (String.length t - 1) else t in
            let u = if String.length u > 2 && String.sub u (String.length u - 2) 2 = ":f"
              then String.sub u 0 (String.length u - 1) ^ "h" else u in
            if bang then u ^ "!" else u in
          "[" ^ String.concat " " (List.map (fun (_, t) -> held_tok t) toks) ^ "]"
        | "T" :: _ ->
          (* an Interim whose request fails is answered at once: the failure checkpoints the session ([ENack]) *)
          let toks = step_one ev in
          List.iter (fun (j, t) ->
              let u = if String.length t > 0 && t.[String.length t - 1] = '!' then String.sub t 0 (String.length t - 1) else t in
              if String.length u > 2 && String.sub u (String.length u - 2) 2 = ":f"
              then ignore (step_one (GNack (nat_of_int j)))) toks;
          "[" ^ String.concat " " (List.map snd toks) ^ "]"
        | _ -> "[" ^ String.concat " " (List.map snd (step_one ev)) ^ "]" end) ops in
    let dump = List.mapi (fun j s ->
        let p = Printf.sprintf "s%d=b%d" j (if s.inb then 1 else 0) in
        let p = p ^ (match s.cache with
            | Some e -> Printf.sprintf ",c1,p%d" (if e.pending then 1 else 0) ^
                        Printf.sprintf ",x%s,h%s,L%s,P%s,B%s" (decimal_of_n e.ifx) (decimal_of_n e.hfx) (show_c4 e.last) (show_c4 e.prior) (show_c4 e.base)
            | None -> ",c0") in
        p ^ (match s.db with Some d -> dump_sess "d1" d | None -> ",d0")) !g in
    (* the property evaluated per session on the projected trace: bracketed / stops_ok / nondecreasing *)
    let b x = if x then "1" else "0" in
    let verdicts = List.mapi (fun j _ ->
        let t = List.rev traces.(j) in
        let evs = List.map fst t in
        let arr = List.rev arrived.(j) in
        (* brk / mono / snt / ord are judged on what ARRIVED at the provider, stp on the notifications *)
        let brk = bracketed false arr and stp = stops_ok false (List.rev otraces.(j)) and mono = nondecreasing c4z arr
        and snt = nondecreasing_sent c4z arr and ord = strictT BClosed (List.rev atrace.(j)) in
        (* sent-monotone bit of counter q alone: the extracted [mono_outs] with the other three counters waived *)
        let snt_q q = fst (mono_outs { w_rxb = q <> 0; w_txb = q <> 1; w_rxp = q <> 2; w_txp = q <> 3 } c4z arr) in
        let wrapped_q q = wrapped_at.(j).(q) < max_int in
        let ibrk = bracketed false (outputs t) and imono = nondecreasing c4z (outputs t)
        and isnt = nondecreasing_sent c4z (outputs t) and iord = strictT BClosed t in
        let gj = List.nth tys j in
        let wraps = lrun_wraps v gj sst0 evs and np = no_prune evs in
        (* cross-check of the extracted code against what is proved for the repaired variant *)
        let (_, t') = lrun v gj sst0 evs in
        let fp_or_np = v.fix_prune || np in
        (* cross-check of the extracted code against the theorems (variants with fix_sent) *)
        let bug = t' <> t ||
                  (v.fix_sent && v.fix_presend && not wraps && (v.fix_ghost || no_late evs) &&
                   (not (accepted true v.fix_prune t) || not (stops_ok false t) || (fp_or_np && not (ibrk && isnt && iord)) || (np && not imono))) in
        (* Every verdict bit that is 0 must have a stated excuse, else the line is marked UNEXCUSED and cannot match:
             W  a uint64 cumulative wrapped (excuses mono, snt)
             P  the accounting was dropped by an orphan prune and the variant sends no Stop for it (fixed in 7faf7f9: never at HEAD)
             D  a Start of the session was held back and the variant does not order its calls (known finding)
             G  a late Accounting-Response re-created the checkpoint of a released session (fixed in 5478db8; the only
                excuse for stp: the ghost entry gets a second Stop) *)
        let exc_p = pruned.(j) && not v.fix_prune and exc_d = delayed.(j) && not v.fix_order
        and exc_g = ghosted.(j)      (* only set for variants without fix_ghost *)
        and exc_q = forgot.(j) && not v.fix_presend
        and exc_t = is_t j && not v.fix_l2tp in     (* fixed in a967234: l2tp lifecycle events were not decoded *)
        let any = exc_p || exc_d || exc_g || exc_q || exc_t in
        ignore snt;
        let unexcused = (not brk && not any) || (not stp && not (exc_g || exc_t)) || (not mono && not (wraps || any))
                        || List.exists (fun q -> not (snt_q q) && not (wrapped_q q || any)) [0; 1; 2; 3]
                        || (not ord && not any) in
        Printf.sprintf "v%d=%s%s%s%s%s%s%s%s%s%s%s%s%s%s" j (b brk) (b stp) (b mono)
          (b (snt_q 0)) (b (snt_q 1)) (b (snt_q 2)) (b (snt_q 3)) (b ord)
          (if pruned.(j) then "P" else "") (if delayed.(j) then "D" else "")
          (if detached_seen.(j) then "G" else "") (if forgot.(j) then "Q" else "")
          (if unexcused then "UNEXCUSED" else "") (if bug then "MODELBUG" else "")) ss in
    (String.concat " " groups ^ " ; " ^ (if !racy then "racy" else if Array.exists (fun l -> l <> []) pending_resp || !put_hold then "held" else String.concat " " dump) ^ " ; " ^ String.concat " " verdicts,
     wrapped_at)
  | _ -> raise Bad

(* Outside the property's domain, PER COUNTER.  Once counter q of a session has wrapped (its true total reached 2^64) the
   property no longer constrains q - but it still constrains the other three: each must keep being non-decreasing.
   Their VALUES may legitimately differ from the model's after the wrap (the re-baselining decision of applyVPPCounters
   looks at all four counters at once, so an implementation that keeps a different - equally admissible - floor for the
   wrapped counter re-baselines the others at different moments), therefore from the wrapping operation on the
   implementation's counter values of that session are admissible iff its own per-counter monitor says so:
     - values (call tokens, L/P/B of the dump): taken from the implementation;
     - the sent-monotone bit of every counter that did NOT wrap: still compared (must be what the theorem
       C09_monotone_per_counter predicts: 1) - this is the admissibility check, computed by the harness on the
       implementation's own stream;
     - the sent-monotone bit of the wrapped counter and the all-counters acknowledged bit: free;
     - calls, kinds, order, flags, cache/bucket/checkpoint structure, bracket bits: still compared. *)
let split_on_str sep s = Str.split_delim (Str.regexp_string sep) s
let tok_session t =
  if String.length t >= 2 && String.contains "SIEKF" t.[0] then
    (let i = ref 1 in while !i < String.length t && t.[!i] >= '0' && t.[!i] <= '9' do incr i done;
     if !i > 1 then Some (int_of_string (String.sub t 1 (!i - 1))) else None)
  else None
(* merge the four counter fields f.(off..off+3) of two field arrays: field q from the implementation iff free q *)
let merge_fields free (m : string array) (i : string array) off =
  if Array.length m <> Array.length i || Array.length m < off + 4 then m
  else Array.mapi (fun n x -> if n >= off && n < off + 4 && free (n - off) then i.(n) else x) m
let same_except m i off = (* equal outside the four counter fields *)
  Array.length m = Array.length i &&
  (let ok = ref true in Array.iteri (fun n x -> if (n < off || n >= off + 4) && x <> i.(n) then ok := false) m; !ok)
let mask_line (model : string) (impl : string) (wrapped_at : int array array) : string =
  if Array.for_all (Array.for_all (fun x -> x = max_int)) wrapped_at then model else
  match split_on_str " ; " model, split_on_str " ; " impl with
  | [mg; md; mv], [ig; idp; iv] ->
    let groups s = List.filter (fun x -> x <> "") (List.map String.trim (split_on_str "]" s)) in
    let mgs = groups mg and igs = groups ig in
    if List.length mgs <> List.length igs then model else
    let g' = List.mapi (fun oi (m, i) ->
        let strip x = if String.length x > 0 && x.[0] = '[' then String.sub x 1 (String.length x - 1) else x in
        let mt = tokens (strip m) and it = tokens (strip i) in
        let used = Hashtbl.create 8 in
        let mt' = List.map (fun t ->
            match tok_session t with
            | Some j when j < Array.length wrapped_at ->
              let n = try Hashtbl.find used j with Not_found -> 0 in
              Hashtbl.replace used j (n + 1);
              let cands = List.filter (fun x -> tok_session x = Some j) it in
              (match List.nth_opt cands n with
               | Some x ->
                 let mf = Array.of_list (String.split_on_char ':' t) and xf = Array.of_list (String.split_on_char ':' x) in
                 if same_except mf xf 1 then
                   String.concat ":" (Array.to_list (merge_fields (fun _ -> Array.exists (fun x -> x <= oi) wrapped_at.(j)) mf xf 1))
                 else t
               | None -> t)
            | _ -> t) mt in
        "[" ^ String.concat " " mt' ^ "]") (List.combine mgs igs) in
    let per_session f ms is =
      let ml = tokens ms and il = tokens is in
      if List.length ml <> List.length il then ms else
        String.concat " " (List.mapi (fun j (m, i) -> if j < Array.length wrapped_at then f j m i else m) (List.combine ml il)) in
    let free_ever j q = wrapped_at.(j).(q) < max_int in
    let d' = if md = "racy" || md = "held" then md else
        per_session (fun j m i ->
            (* s<j>=b1,c1,...,L1:2:3:4,P...,B...,d1,x5,L...: merge the c4 of every L/P/B element *)
            let me = String.split_on_char ',' m and ie = String.split_on_char ',' i in
            if List.length me <> List.length ie then m else
              String.concat "," (List.map2 (fun a b ->
                  if String.length a > 1 && String.contains "LPB" a.[0] && String.length b > 1 && a.[0] = b.[0] then
                    let af = Array.of_list (String.split_on_char ':' (String.sub a 1 (String.length a - 1)))
                    and bf = Array.of_list (String.split_on_char ':' (String.sub b 1 (String.length b - 1))) in
                    if Array.length af = 4 && Array.length bf = 4 then
                      String.make 1 a.[0] ^ String.concat ":" (Array.to_list (merge_fields (fun _ -> List.exists (free_ever j) [0; 1; 2; 3]) af bf 0))
                    else a
                  else a) me ie)) md idp in
    let v' = per_session (fun j m i ->
        (* v<j>=<brk><stp><mono><s0><s1><s2><s3><ord>...: s_q follows the implementation iff counter q wrapped; mono iff any did *)
        match String.index_opt m '=', String.index_opt i '=' with
        | Some a, Some b when a = b && String.length m >= a + 9 && String.length i >= b + 9 ->
          let mm = Bytes.of_string m in
          if List.exists (free_ever j) [0; 1; 2; 3] then Bytes.set mm (a + 3) i.[b + 3];
          List.iter (fun q -> if free_ever j q then Bytes.set mm (a + 4 + q) i.[b + 4 + q]) [0; 1; 2; 3];
          Bytes.to_string mm
        | _ -> m) mv iv in
    String.concat " " g' ^ " ; " ^ d' ^ " ; " ^ v'
  | _ -> model

(* wire part:  W <S|I|E>,<in-octets>,<out-octets>,<in-packets>,<out-packets> ... *)
let run_wire line =
  match tokens line with
  | "W" :: (_ :: _ as recs) ->
    let u64 x = if x <> "" && String.length x <= 20 && String.for_all (fun ch -> ch >= '0' && ch <= '9') x
                   && (String.length x < 20 || x <= "18446744073709551615") then n_of_decimal x else raise Bad in
    let parsed = List.map (fun r -> match String.split_on_char ',' r with
        | [k; a; b; c; d] ->
          let c4v = { rxb = u64 a; txb = u64 b; rxp = u64 c; txp = u64 d } in
          let st = (match k with "S" -> 1 | "E" -> 2 | "I" -> 3 | _ -> raise Bad) in
          (st, c4v)
        | _ -> raise Bad) recs in
    (* an absent Gigawords attribute and one with value 0 are the same report *)
    let opt = function Some x -> decimal_of_n x | None -> "0" in
    let toks = List.map (fun (st, c) ->
        let w = encode_wire (n_of_int st) c in
        String.concat ":" [decimal_of_n w.w_status; decimal_of_n w.w_in_oct; decimal_of_n w.w_out_oct; opt w.w_in_giga;
                           opt w.w_out_giga; decimal_of_n w.w_in_pkt; decimal_of_n w.w_out_pkt]) parsed in
    (* the monitor on what the server reconstructs *)
    let outs = List.map (fun (st, c) ->
        let d = decode_wire (encode_wire (n_of_int st) c) in
        (* cross-check of C09_wire_roundtrip on the extracted code *)
        if wire_range c && d <> c then failwith "MODELBUG";
        match st with 1 -> Start | 2 -> Stop d | _ -> Interim (d, true)) parsed in
    String.concat " " toks ^ " ; mono=" ^ (if nondecreasing c4z outs then "1" else "0")
  | _ -> raise Bad

let () =
  let lines = read_lines Sys.argv.(1) in
  let impl = if Array.length Sys.argv > 2 && Sys.argv.(2) <> "-" then Array.of_list (read_lines Sys.argv.(2)) else [||] in
  let v = variant_of (if Array.length Sys.argv > 3 then Sys.argv.(3) else "repaired") in
  List.iteri (fun n line ->
      let r = try (if String.length line > 1 && String.sub line 0 2 = "W " then run_wire line
                   else (let (m, wr) = run_case v line in
                         if n < Array.length impl then mask_line m impl.(n) wr else m))
        with Failure "MODELBUG" -> "MODELBUG" | Bad | Failure _ | Invalid_argument _ -> "badline" in
      print_endline r) lines
