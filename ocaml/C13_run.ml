(* C13 driver.  One case per line:
     reg <n> {<pattern> <kind I|U|S|B|N> <conts csv|-> <deps csv|-> <frr 0|1>} [guard <ifname> <mru>] ops {op}
   ops:  c | x <sid> | d <sid> | s <sid> <path> <value> <vfail 0|1> | t <minutes> | b <version> | m <sid> <k>:<flags trsv|->
   output: "<result> <trace> <state delta>" per op joined by " ; "  (same text as the Go harness prints).
   argv[3] = variant: repaired (default) | set_defect | persist_defect | defective *)
let tbl : (string, int) Hashtbl.t = Hashtbl.create 64
let names : (int, string) Hashtbl.t = Hashtbl.create 64
let () = Hashtbl.replace tbl "<*>" 0; Hashtbl.replace names 0 "<*>"
let intern (s : string) : n =
  match Hashtbl.find_opt tbl s with
  | Some i -> n_of_int i
  | None -> let i = Hashtbl.length tbl in Hashtbl.replace tbl s i; Hashtbl.replace names i s; n_of_int i
let seg_name (x : n) : string = try Hashtbl.find names (int_of_n x) with Not_found -> "?"
let path_of_string (s : string) : n list = List.map intern (String.split_on_char '.' s)
let string_of_path (p : n list) : string = String.concat "." (List.map seg_name p)
let pattern_of_string (s : string) : pseg list =
  List.map (fun t -> if String.length t >= 2 && t.[0] = '<' && t.[String.length t - 1] = '>' then PWild else PLit (intern t))
    (String.split_on_char '.' s)
let z_of_string (s : string) : z =
  if String.length s > 0 && s.[0] = '-' then
    (match pos_of_decimal (String.sub s 1 (String.length s - 1)) with None -> Z0 | Some p -> Zneg p)
  else (match pos_of_decimal s with None -> Z0 | Some p -> Zpos p)
let string_of_z (x : z) : string =
  match x with Z0 -> "0" | Zpos p -> decimal_of_pos p | Zneg p -> "-" ^ decimal_of_pos p
let hexs (l : n list) : string = String.concat "" (List.map (fun x -> Printf.sprintf "%02x" (int_of_n x)) l)
let sval_of_scalar_token (t : string) : sval =
  let r = String.sub t 1 (String.length t - 1) in
  match t.[0] with
  | 'i' | 'u' -> SInt (z_of_string r)
  | 's' -> SStr (if r = "-" then [] else bytes_of_hex r)
  | 'b' -> SBool (r = "1")
  | '?' -> SList []                       (* something nested: outside what the value token says *)
  | _ -> failwith "bad scalar"
let value_of_token (t : string) : value =
  if String.length t > 0 && t.[0] = 'o' then begin
    if t = "o-" then VObj [] else
    VObj (List.map (fun kv ->
        let i = String.index kv '=' in
        (intern (String.sub kv 0 i), sval_of_scalar_token (String.sub kv (i + 1) (String.length kv - i - 1))))
        (String.split_on_char ';' (String.sub t 1 (String.length t - 1))))
  end else
  let r = String.sub t 1 (String.length t - 1) in
  match t.[0] with
  | 'i' -> VInt (z_of_string r)
  | 'u' -> VU32 (z_of_string r)
  | 's' -> if r = "-" then VStr [] else VStr (bytes_of_hex r)
  | 'b' -> VBool (r = "1")
  | 'p' -> VPtr
  | 'l' -> if r = "-" then VList [] else VList (List.map bytes_of_hex (String.split_on_char ':' r))
  | _ -> failwith "bad value"
let token_of_value = function
  | VInt x -> "i" ^ string_of_z x
  | VU32 x -> "u" ^ string_of_z x
  | VStr [] -> "s-"
  | VStr l -> "s" ^ hexs l
  | VBool b -> if b then "b1" else "b0"
  | VPtr -> "p"
  | VObj [] -> "o-"
  | VObj fs ->
    "o" ^ String.concat ";" (List.sort compare (List.map (fun (f, v) ->
        seg_name f ^ "=" ^ (match v with SInt x -> "i" ^ string_of_z x | SStr l -> "s" ^ hexs l
                                        | SBool b -> if b then "b1" else "b0" | SList _ -> "?")) fs))
  | VList [] -> "l-"
  | VList l -> "l" ^ String.concat ":" (List.map hexs l)
let token_of_sval = function
  | SInt x -> "i" ^ string_of_z x
  | SStr l -> "s" ^ hexs l
  | SBool b -> if b then "b1" else "b0"
  | SList l -> "l" ^ String.concat ":" (List.map hexs l)
let show_store (s : store) : string =
  let es = List.map (fun (p, v) -> string_of_path p ^ "=" ^ token_of_sval v) s.leaves
           @ List.map (fun c -> string_of_path c ^ "/") s.conts in
  match List.sort compare es with [] -> "-" | l -> String.concat "," l
let show_sid (x : n) = "session-" ^ decimal_of_n x
let show_versions (l : vrec list) : string =
  match l with
  | [] -> "-"
  | _ -> String.concat ";" (List.map (fun v ->
      decimal_of_n v.v_num ^ "[" ^ String.concat "," (List.map (fun (a, p) -> (if a then "add:" else "modify:") ^ string_of_path p) v.v_changes) ^ "]") l)
let snapshot (st : state) : string array =
  let ss = List.sort compare (List.map (fun s ->
      show_sid s.s_id ^ "#" ^ string_of_int (List.length s.s_changes) ^ "{" ^ show_store s.s_cand ^ "}") st.sessions) in
  [| show_store st.running; show_store st.startup;
     (match st.sfile with None -> "nofile" | Some s -> show_store s);
     (match ss with [] -> "-" | l -> String.concat "+" l);
     (match st.lock with None -> "-" | Some o -> show_sid o);
     show_versions st.vmem; show_versions st.vfiles; decimal_of_n st.next_id;
     (match st.frr with
      | None -> "none"
      | Some d ->
        let proto (s : store) : store =
          let keep p = (match p with x :: _ -> seg_name x = "protocols" | [] -> false) in
          { leaves = List.filter (fun (p, _) -> keep p) s.leaves; conts = List.filter keep s.conts } in
        if show_store (proto d) = show_store (proto st.running) then "run" else "other");
     (* H: sharing between configuration objects.  Whole objects: equal object ids.  Below that the only
        sub-object deepCopyConfig carries over by reference is the MSS clamp spec of a subinterface
        (hiddenSubif.MSSClamp, copy.go): shared wherever both configurations have it. *)
     (let shared (a : store) (ao : n) (b : store) (bo : n) : string =
        if ao = bo then "ALL" else begin
          let clamp c = (match List.rev c with x :: _ -> seg_name x = "~mssclamp" | [] -> false) in
          let l = List.filter (fun c -> clamp c && List.mem c b.conts) a.conts in
          match List.sort compare (List.map string_of_path l) with [] -> "-" | l -> String.concat "," l
        end in
      let sess = List.sort compare (List.map (fun s -> (show_sid s.s_id, s)) st.sessions) in
      String.concat "+" (List.map (fun (_, s) -> "c:" ^ shared s.s_cand s.s_oid st.running st.running_oid) sess
                         @ ["s:" ^ shared st.startup st.startup_oid st.running st.running_oid])) |]
let comp_names = [| "R"; "S"; "F"; "C"; "L"; "V"; "W"; "N"; "D"; "H" |]
let show_res = function
  | RId x -> show_sid x | ROk -> "ok" | RLocked -> "locked" | RNoSession -> "nosession" | RNoHandler -> "nohandler"
  | RInvalid -> "invalid" | RSetFail -> "setfail" | RCycle -> "cycle" | RDepMissing -> "depmissing" | RDepErr -> "deperr"
  | RNoChanges -> "nochanges" | RPrecommit -> "precommit" | RApplyFail -> "applyfail" | RFrrTest -> "frrtest"
  | RFrrReloadU -> "frrreloadU" | RStartupSaveU -> "startupsaveU"
  | RFrrReload -> "frrreload" | RStartupSave -> "startupsave" | RVersionSave -> "versionsave"
  | RBadVersion -> "badversion" | RBadVerType -> "badvertype" | RNotImpl -> "notimpl" | RModelFuel -> "MODELFUEL"
  | RInadmissible -> "INADMISSIBLE" | RBootErr -> "booterr" | RBootVersion -> "bootversion" | RSaveFail -> "savefail"
let show_ev = function
  | EApply (p, v, ok) -> (if ok then "A:" else "A!") ^ string_of_path p ^ "=" ^ token_of_value v
  | ERollback (p, v, ok) -> (if ok then "R:" else "R!") ^ string_of_path p ^ "=" ^ token_of_value v
  | EFrrTest -> "F:test"
  | EFrrReload -> "F:reload"
let csv_nats (s : string) : nat list =
  if s = "-" then [] else List.map (fun x -> nat_of_int (int_of_string x)) (String.split_on_char ',' s)
let kind_of = function "P" -> KObjF | "O" -> KObj | "E" -> KEntry | "L" -> KList | "A" -> KAny | "I" -> KInt | "U" -> KU32 | "S" -> KStr | "B" -> KBool | "N" -> KInternal | _ -> failwith "kind"
(* concurrent mode: search for a sequential order of the threads' operations that explains every
   observed result and the final state (linearizability w.r.t. the model) *)
let run_conc (var : variant) reg g init_st (f : string array) (p0 : int) (impl : string) : string =
  if p0 + 1 >= Array.length f || f.(p0) <> "threads" then "badline" else begin
    let nt = int_of_string f.(p0 + 1) in
    let scripts = Array.make nt [] in
    let t = ref 0 in
    for i = p0 + 2 to Array.length f - 1 do
      if f.(i) = "|" then incr t else scripts.(!t) <- scripts.(!t) @ [f.(i)]
    done;
    (* observed results *)
    let halves = Str.split (Str.regexp_string " | ") impl in
    match halves with
    | [res_part; final] ->
      let obs = Array.make nt [||] in
      List.iter (fun tok ->
          match String.index_opt tok ':' with
          | Some i when String.length tok > 1 && tok.[0] = 'T' ->
            let k = int_of_string (String.sub tok 1 (i - 1)) in
            let r = String.sub tok (i + 1) (String.length tok - i - 1) in
            if k < nt then obs.(k) <- Array.of_list (if r = "" then [] else String.split_on_char ',' r)
          | _ -> ()) (tokens res_part);
      let scr = Array.map Array.of_list scripts in
      let ok_shape = ref true in
      Array.iteri (fun i a -> if Array.length a <> Array.length obs.(i) then ok_shape := false) scr;
      if not !ok_shape then "SHAPE-MISMATCH" else begin
        let show_final st =
          let s = snapshot st in
          String.concat " " (Array.to_list (Array.mapi (fun i c -> comp_names.(i) ^ "=" ^ c) s)) in
        let budget = ref 2000000 in
        let dead : (string, unit) Hashtbl.t = Hashtbl.create 1024 in
        let key st pos sids trace = Marshal.to_string (st, pos, sids, trace) [Marshal.No_sharing] in
        let rec go st pos sids trace =
          let k = key st pos sids trace in
          if Hashtbl.mem dead k then false else
          let r = go' st pos sids trace in
          if not r then Hashtbl.replace dead k ();
          r
        and go' st pos sids trace =
          decr budget;
          if !budget < 0 then false else
          if Array.for_all2 (fun p a -> p = Array.length a) pos scr then
            show_final st ^ " A=" ^ (match List.rev trace with [] -> "-" | l -> String.concat "," (List.map show_ev l)) = final
          else begin
            let found = ref false in
            let i = ref 0 in
            while not !found && !i < nt do
              let k = !i in
              if pos.(k) < Array.length scr.(k) then begin
                let optok0 = scr.(k).(pos.(k)) in
                let explicit = String.length optok0 >= 2 && optok0.[1] >= '0' && optok0.[1] <= '9'
                               && (optok0.[0] = 's' || optok0.[0] = 'm' || optok0.[0] = 'x') in
                let my = if explicit then n_of_int (Char.code optok0.[1] - 48) else sids.(k) in
                let optok = if explicit then String.sub optok0 0 1 ^ String.sub optok0 2 (String.length optok0 - 2) else optok0 in
                let o =
                  if optok = "c" then Some OCreate
                  else if optok = "x" then Some (OClose my)
                  else if optok = "d" then Some (ODelete my)
                  else if optok = "m" then begin
                    (* the Apply of the value "FAIL" fails wherever it comes in the apply order: find its position *)
                    let (_, evs0) = step var reg g st (OCommit (my, no_faults)) in
                    let rec pos i = function
                      | [] -> 0
                      | EApply (_, v, _) :: r -> if token_of_value v = "s4641494c" then i else pos (i + 1) r
                      | _ :: r -> pos i r in
                    Some (OCommit (my, { no_faults with f_apply = nat_of_int (pos 1 evs0) }))
                  end
                  else if optok = "g" then None
                  else if String.length optok > 2 && String.sub optok 0 2 = "s:" then begin
                    match String.split_on_char ':' optok with
                    | [_; path; v] -> Some (OSet (my, path_of_string path, value_of_token v, false))
                    | _ -> failwith "bad conc op" end
                  else failwith "bad conc op" in
                let (st', rtok, sid', evs) =
                  match o with
                  | None ->
                    (* a read is admissible iff it is what GetRunning returns at the linearisation point: the
                       sequential specification of C13_linearizable (Linearizable.mgr_step), extracted *)
                    (match mgr_step var reg g st CGetRunning with
                     | (_, RStore s) -> (st, "g:" ^ Digest.to_hex (Digest.string (show_store s)), sids.(k), [])
                     | _ -> (st, "g:?", sids.(k), []))
                  | Some o ->
                    let ((st', r), evs) = step var reg g st o in
                    (st', show_res r, (match r with RId x -> x | _ -> sids.(k)), evs) in
                if rtok = obs.(k).(pos.(k)) then begin
                  let pos' = Array.copy pos and sids' = Array.copy sids in
                  pos'.(k) <- pos.(k) + 1; sids'.(k) <- sid';
                  if go st' pos' sids' (List.rev_append evs trace) then found := true
                end
              end;
              incr i
            done;
            !found
          end in
        if go (init_st) (Array.make nt 0) (Array.make nt N0) [] then impl
        else if !budget < 0 then "SEARCH-BUDGET-EXHAUSTED"
        else "NOT-LINEARIZABLE"
      end
    | _ -> "IMPL-LINE-UNPARSABLE"
  end

let store_of_entries (txt : string) : store =
  if txt = "-" then { leaves = []; conts = [] } else begin
    let lv = ref [] and cs = ref [] in
    List.iter (fun e ->
        if e <> "" then begin
          if e.[String.length e - 1] = '/' then cs := path_of_string (String.sub e 0 (String.length e - 1)) :: !cs
          else begin
            let i = String.rindex e '=' in
            let pth = path_of_string (String.sub e 0 i) and v = String.sub e (i + 1) (String.length e - i - 1) in
            let sv = (match value_of_token v with
                | VInt z -> SInt z | VU32 z -> SInt z | VStr l -> SStr l | VBool b -> SBool b | VList l -> SList l
                | VPtr | VObj _ -> failwith "ptr leaf") in
            lv := (pth, sv) :: !lv
          end
        end) (String.split_on_char ',' txt);
    { leaves = List.rev !lv; conts = List.rev !cs }
  end
let faults_of_token (ft : string) : faults =
  let i = String.index ft ':' in
  let k = int_of_string (String.sub ft 0 i) in
  let fl = String.sub ft (i + 1) (String.length ft - i - 1) in
  let has c = String.contains fl c in
  let rbk = (match String.index_opt fl 'q' with
      | Some j when j + 1 < String.length fl -> Char.code fl.[j + 1] - 48 | _ -> 0) in
  { f_apply = nat_of_int k; f_rollback = nat_of_int rbk; f_test = has 't';
    f_reload = nat_of_int (if has 'R' then 2 else if has 'r' then 1 else 0); f_restore = has 'u';
    f_startup = has 's'; f_version = has 'v' }
(* the order in which the implementation's walker emitted changes: "E:<path>=<value>" entries of its trace *)
let emitted_of_impl (impl : string) (stepno : int) : (n list * value) list =
  let steps = Str.split (Str.regexp_string " ; ") impl in
  match List.nth_opt steps stepno with
  | None -> []
  | Some s ->
    (match tokens s with
     | _ :: tr :: _ when tr <> "-" ->
       List.filter_map (fun e ->
           if String.length e > 2 && String.sub e 0 2 = "E:" then begin
             let body = String.sub e 2 (String.length e - 2) in
             let i = String.index body '=' in        (* object tokens contain '=' themselves *)
             Some (path_of_string (String.sub body 0 i), value_of_token (String.sub body (i + 1) (String.length body - i - 1)))
           end else None) (String.split_on_char ',' tr)
     | _ -> [])

let run_case (var : variant) (line0 : string) (impl : string) : string =
  let f0 = Array.of_list (tokens line0) in
  let conc = Array.length f0 > 0 && f0.(0) = "conc" in
  let f = if conc then Array.sub f0 1 (Array.length f0 - 1) else f0 in
  if Array.length f < 2 || f.(0) <> "reg" then "badline" else begin
    let n = int_of_string f.(1) in
    let p = ref 2 in
    let reg = ref [] in
    for _ = 1 to n do
      reg := { h_pat = pattern_of_string f.(!p); h_kind = kind_of f.(!p + 1); h_conts = csv_nats f.(!p + 2);
               h_deps = csv_nats f.(!p + 3); h_frr = (f.(!p + 4) = "1");
               h_typed = (let pat = f.(!p) in try ignore (Str.search_forward (Str.regexp_string "<*:") pat 0); true with Not_found -> false) } :: !reg;
      p := !p + 5
    done;
    let reg = List.rev !reg in
    let mss =
      if !p < Array.length f && f.(!p) = "guard" then begin
        let ifn = f.(!p + 1) and mru = int_of_string f.(!p + 2) in
        p := !p + 3;
        let cp = [intern "interfaces"; intern ifn] in
        Some ((cp, cp @ [intern "mtu"]), z_of_string (string_of_int (mru + 12)))
      end else None in
    if !p < Array.length f && f.(!p) = "deep" then p := !p + 2;
    let shared = ref false in
    if !p < Array.length f && f.(!p) = "plugin" then begin
      shared := (f.(!p + 1) = "prod"); p := !p + 4 end;
    (* "init e1,e2,...": the projection of the initial running configuration *)
    let init_store =
      if !p + 1 < Array.length f && f.(!p) = "init" then begin
        let st0 = store_of_entries f.(!p + 1) in
        p := !p + 2;
        st0
      end else empty_store in
    let hidden = Hashtbl.fold (fun name i acc -> if String.length name > 0 && name.[0] = '~' then n_of_int i :: acc else acc) tbl [] in
    let g = { g_mss = mss; g_sv = intern "svlan"; g_cv = intern "cvlan"; g_hidden = hidden;
              g_sa = intern "~subscriberaccess" } in
    let init_st = init_state_gen init_store !shared in
    if conc then begin
      let reps = Str.split (Str.regexp_string " || ") impl in
      let outs = List.map (fun r -> run_conc var reg g init_st f !p r) reps in
      if reps <> [] && List.for_all2 (fun a b -> a = b) reps outs then impl
      else (try List.find (fun o -> o = "NOT-LINEARIZABLE") outs with Not_found -> String.concat " || " outs)
    end else
    if !p >= Array.length f || f.(!p) <> "ops" then "badline" else begin
      incr p;
      let st = ref (init_st) in
      let prev = ref (snapshot !st) in
      let out = ref [] in
      let emitted = ref [] in
      let sid t = if t = "@" then (match !st.lock with Some o -> o | None -> !st.next_id) else n_of_decimal t in
      while !p < Array.length f do
        let o =
          match f.(!p) with
          | "c" -> p := !p + 1; OCreate
          | "x" -> let o = OClose (sid f.(!p + 1)) in p := !p + 2; o
          | "d" -> let o = ODelete (sid f.(!p + 1)) in p := !p + 2; o
          | "s" -> let o = OSet (sid f.(!p + 1), path_of_string f.(!p + 2), value_of_token f.(!p + 3), f.(!p + 4) = "1") in
            p := !p + 5; o
          | "t" -> let o = OTick (n_of_decimal f.(!p + 1)) in p := !p + 2; o
          | "b" -> let o = ORollback (n_of_decimal f.(!p + 1)) in p := !p + 2; o
          | "S" -> let o = OSaveStartup (f.(!p + 1) = "1") in p := !p + 2; o
          | "Z" -> p := !p + 1; OReset
          | "F" -> let o = OReloadFRR (nat_of_int (match f.(!p + 1) with "r" -> 1 | "R" -> 2 | _ -> 0)) in p := !p + 2; o
          | "l" ->
            let add = store_of_entries f.(!p + 3) in
            let drop = if f.(!p + 3) = "-" then [intern "~nothing"] else [intern "subscriber-groups"] in
            let o = OLoad (sid f.(!p + 1), drop, add, emitted_of_impl impl (List.length !out)) in
            p := !p + 4; emitted := (match o with OLoad (_, _, _, e) -> e | _ -> []); o
          | "B" ->
            let cfg = store_of_entries f.(!p + 2) in
            let steps = if f.(!p + 3) = "-" then [] else
                List.map (fun t ->
                    let body = String.sub t 1 (String.length t - 1) in
                    if t.[0] = 'E' then BEdit (store_of_entries body)
                    else begin
                      let i = String.rindex body '=' in
                      BSet (path_of_string (String.sub body 0 i), value_of_token (String.sub body (i + 1) (String.length body - i - 1)))
                    end) (String.split_on_char '+' f.(!p + 3)) in
            let em = emitted_of_impl impl (List.length !out) in
            let o = OBoot (cfg, steps, em, faults_of_token f.(!p + 1)) in
            p := !p + 4; emitted := em; o
          | "m" ->
            let ft = f.(!p + 2) in
            let i = String.index ft ':' in
            let k = int_of_string (String.sub ft 0 i) in
            let fl = String.sub ft (i + 1) (String.length ft - i - 1) in
            let o = OCommit (sid f.(!p + 1), faults_of_token ft) in
            p := !p + 3; o
          | _ -> failwith "bad op" in
        let ((st', r), evs) = step var reg g !st o in
        st := st';
        let em = !emitted in
        emitted := [];
        let cur = snapshot st' in
        let parts = ref [] in
        Array.iteri (fun i c -> if c <> !prev.(i) then parts := (comp_names.(i) ^ "=" ^ c) :: !parts) cur;
        prev := cur;
        let etr = if r = RInadmissible then ["INADMISSIBLE-EMISSION"]
          else List.map (fun (pth, v) -> "E:" ^ string_of_path pth ^ "=" ^ token_of_value v) em in
        let tr = match etr @ List.map show_ev evs with [] -> "-" | l -> String.concat "," l in
        let stt = match List.rev !parts with [] -> "~" | l -> String.concat " " l in
        out := (show_res r ^ " " ^ tr ^ " " ^ stt) :: !out
      done;
      match List.rev !out with [] -> "empty" | l -> String.concat " ; " l
    end
  end
let () =
  let lines = read_lines Sys.argv.(1) in
  let var = if Array.length Sys.argv > 3 then
      (match Sys.argv.(3) with
       | "pre_audit2" -> preAudit2 | "restore_unreported" -> restoreUnreported | "boot_unatomic" -> bootUnatomic
       | "defective" -> defective | "frr_defect" -> frrDefect | _ -> repaired)
    else repaired in
  let impls = if Array.length Sys.argv > 2 && Sys.argv.(2) <> "-" then read_lines Sys.argv.(2) else [] in
  let impls = Array.of_list impls in
  List.iteri (fun i line ->
      Hashtbl.reset tbl; Hashtbl.reset names; Hashtbl.replace tbl "<*>" 0; Hashtbl.replace names 0 "<*>";
      let impl = if i < Array.length impls then impls.(i) else "" in
      print_endline (try run_case var line impl with e -> "modelerror " ^ Printexc.to_string e)) lines
