(* C13 driver.  One case per line:
     reg <n> {<pattern> <kind I|U|S|B|N> <conts csv|-> <deps csv|-> <frr 0|1>} [guard <ifname> <mru>] ops {op}
   ops:  c | x <sid> | d <sid> | s <sid> <path> <value> <vfail 0|1> | t <minutes> | b <version> | m <sid> <k>:<flags trsv|->
   output: "<result> <trace> <state delta>" per op joined by " ; "  (same text as the Go harness prints).
   argv[3] = variant: repaired (default) | set_defect | persist_defect | defective *)
let tbl : (string, int) Hashtbl.t = Hashtbl.create 64
let names : (int, string) Hashtbl.t = Hashtbl.create 64
let () = Hashtbl.replace tbl "<*>" 0; Hashtbl.replace names 0 "<*>"
let intern (s : string) : n =
  match Hashtbl.find_opt tbl s with
  | Some i -> n_of_int i
  | None -> let i = Hashtbl.length tbl in Hashtbl.replace tbl s i; Hashtbl.replace names i s; n_of_int i
let seg_name (x : n) : string = try Hashtbl.find names (int_of_n x) with Not_found -> "?"
let path_of_string (s : string) : n list = List.map intern (String.split_on_char '.' s)
let string_of_path (p : n list) : string = String.concat "." (List.map seg_name p)
let pattern_of_string (s : string) : pseg list =
  List.map (fun t -> if String.length t >= 2 && t.[0] = '<' && t.[String.length t - 1] = '>' then PWild else PLit (intern t))
    (String.split_on_char '.' s)
let z_of_string (s : string) : z =
  if String.length s > 0 && s.[0] = '-' then
    (match pos_of_decimal (String.sub s 1 (String.length s - 1)) with None -> Z0 | Some p -> Zneg p)
  else (match pos_of_decimal s with None -> Z0 | Some p -> Zpos p)
let string_of_z (x : z) : string =
  match x with Z0 -> "0" | Zpos p -> decimal_of_pos p | Zneg p -> "-" ^ decimal_of_pos p
let hexs (l : n list) : string = String.concat "" (List.map (fun x -> Printf.sprintf "%02x" (int_of_n x)) l)
let value_of_token (t : string) : value =
  let r = String.sub t 1 (String.length t - 1) in
  match t.[0] with
  | 'i' -> VInt (z_of_string r)
  | 'u' -> VU32 (z_of_string r)
  | 's' -> if r = "-" then VStr [] else VStr (bytes_of_hex r)
  | 'b' -> VBool (r = "1")
  | _ -> failwith "bad value"
let token_of_value = function
  | VInt x -> "i" ^ string_of_z x
  | VU32 x -> "u" ^ string_of_z x
  | VStr [] -> "s-"
  | VStr l -> "s" ^ hexs l
  | VBool b -> if b then "b1" else "b0"
let token_of_sval = function
  | SInt x -> "i" ^ string_of_z x
  | SStr l -> "s" ^ hexs l
  | SBool b -> if b then "b1" else "b0"
let show_store (s : store) : string =
  let es = List.map (fun (p, v) -> string_of_path p ^ "=" ^ token_of_sval v) s.leaves
           @ List.map (fun c -> string_of_path c ^ "/") s.conts in
  match List.sort compare es with [] -> "-" | l -> String.concat "," l
let show_sid (x : n) = "session-" ^ decimal_of_n x
let show_versions (l : vrec list) : string =
  match l with
  | [] -> "-"
  | _ -> String.concat ";" (List.map (fun v ->
      decimal_of_n v.v_num ^ "[" ^ String.concat "," (List.map (fun (a, p) -> (if a then "add:" else "modify:") ^ string_of_path p) v.v_changes) ^ "]") l)
let snapshot (st : state) : string array =
  let ss = List.sort compare (List.map (fun s ->
      show_sid s.s_id ^ "#" ^ string_of_int (List.length s.s_changes) ^ "{" ^ show_store s.s_cand ^ "}") st.sessions) in
  [| show_store st.running; show_store st.startup;
     (match st.sfile with None -> "nofile" | Some s -> show_store s);
     (match ss with [] -> "-" | l -> String.concat "+" l);
     (match st.lock with None -> "-" | Some o -> show_sid o);
     show_versions st.vmem; show_versions st.vfiles; decimal_of_n st.next_id |]
let comp_names = [| "R"; "S"; "F"; "C"; "L"; "V"; "W"; "N" |]
let show_res = function
  | RId x -> show_sid x | ROk -> "ok" | RLocked -> "locked" | RNoSession -> "nosession" | RNoHandler -> "nohandler"
  | RInvalid -> "invalid" | RSetFail -> "setfail" | RCycle -> "cycle" | RDepMissing -> "depmissing" | RDepErr -> "deperr"
  | RNoChanges -> "nochanges" | RPrecommit -> "precommit" | RApplyFail -> "applyfail" | RFrrTest -> "frrtest"
  | RFrrReload -> "frrreload" | RStartupSave -> "startupsave" | RVersionSave -> "versionsave"
  | RBadVersion -> "badversion" | RBadVerType -> "badvertype" | RNotImpl -> "notimpl" | RModelFuel -> "MODELFUEL"
let show_ev = function
  | EApply (p, v, ok) -> (if ok then "A:" else "A!") ^ string_of_path p ^ "=" ^ token_of_value v
  | ERollback (p, v) -> "R:" ^ string_of_path p ^ "=" ^ token_of_value v
  | EFrrTest -> "F:test"
  | EFrrReload -> "F:reload"
let csv_nats (s : string) : nat list =
  if s = "-" then [] else List.map (fun x -> nat_of_int (int_of_string x)) (String.split_on_char ',' s)
let kind_of = function "I" -> KInt | "U" -> KU32 | "S" -> KStr | "B" -> KBool | "N" -> KInternal | _ -> failwith "kind"
let run_case (var : variant) (line : string) : string =
  let f = Array.of_list (tokens line) in
  if Array.length f < 2 || f.(0) <> "reg" then "badline" else begin
    let n = int_of_string f.(1) in
    let p = ref 2 in
    let reg = ref [] in
    for _ = 1 to n do
      reg := { h_pat = pattern_of_string f.(!p); h_kind = kind_of f.(!p + 1); h_conts = csv_nats f.(!p + 2);
               h_deps = csv_nats f.(!p + 3); h_frr = (f.(!p + 4) = "1") } :: !reg;
      p := !p + 5
    done;
    let reg = List.rev !reg in
    let g =
      if !p < Array.length f && f.(!p) = "guard" then begin
        let ifn = f.(!p + 1) and mru = int_of_string f.(!p + 2) in
        p := !p + 3;
        let cp = [intern "interfaces"; intern ifn] in
        Some ((cp, cp @ [intern "mtu"]), z_of_string (string_of_int (mru + 12)))
      end else None in
    if !p >= Array.length f || f.(!p) <> "ops" then "badline" else begin
      incr p;
      let st = ref (init_state empty_store) in
      let prev = ref (snapshot !st) in
      let out = ref [] in
      let sid t = if t = "@" then (match !st.lock with Some o -> o | None -> !st.next_id) else n_of_decimal t in
      while !p < Array.length f do
        let o =
          match f.(!p) with
          | "c" -> p := !p + 1; OCreate
          | "x" -> let o = OClose (sid f.(!p + 1)) in p := !p + 2; o
          | "d" -> let o = ODelete (sid f.(!p + 1)) in p := !p + 2; o
          | "s" -> let o = OSet (sid f.(!p + 1), path_of_string f.(!p + 2), value_of_token f.(!p + 3), f.(!p + 4) = "1") in
            p := !p + 5; o
          | "t" -> let o = OTick (n_of_decimal f.(!p + 1)) in p := !p + 2; o
          | "b" -> let o = ORollback (n_of_decimal f.(!p + 1)) in p := !p + 2; o
          | "m" ->
            let ft = f.(!p + 2) in
            let i = String.index ft ':' in
            let k = int_of_string (String.sub ft 0 i) in
            let fl = String.sub ft (i + 1) (String.length ft - i - 1) in
            let has c = String.contains fl c in
            let o = OCommit (sid f.(!p + 1), { f_apply = nat_of_int k; f_test = has 't'; f_reload = has 'r';
                                               f_startup = has 's'; f_version = has 'v' }) in
            p := !p + 3; o
          | _ -> failwith "bad op" in
        let ((st', r), evs) = step var reg g !st o in
        st := st';
        let cur = snapshot st' in
        let parts = ref [] in
        Array.iteri (fun i c -> if c <> !prev.(i) then parts := (comp_names.(i) ^ "=" ^ c) :: !parts) cur;
        prev := cur;
        let tr = match evs with [] -> "-" | l -> String.concat "," (List.map show_ev l) in
        let stt = match List.rev !parts with [] -> "~" | l -> String.concat " " l in
        out := (show_res r ^ " " ^ tr ^ " " ^ stt) :: !out
      done;
      match List.rev !out with [] -> "empty" | l -> String.concat " ; " l
    end
  end
let () =
  let lines = read_lines Sys.argv.(1) in
  let var = if Array.length Sys.argv > 3 then
      (match Sys.argv.(3) with
       | "defective" -> defective | "persist_defect" -> persistDefect | "set_defect" -> setDefect | _ -> repaired)
    else repaired in
  List.iter (fun line ->
      Hashtbl.reset tbl; Hashtbl.reset names; Hashtbl.replace tbl "<*>" 0; Hashtbl.replace names 0 "<*>";
      print_endline (try run_case var line with e -> "modelerror " ^ Printexc.to_string e)) lines
