#!/usr/bin/env python3
"""Assembles DESIGN.md from notes/DESIGN_general.md (sections 1-4), notes/DESIGN_5_Cxx.md (section 5),
KNOWN_FINDINGS.txt (section 6), seeded/ (section 7) and notes/DESIGN_tail.md (sections 8-9)."""
import json, os, re, subprocess
V = os.path.dirname(os.path.dirname(os.path.abspath(__file__)))
out = [open(os.path.join(V, "notes/DESIGN_general.md")).read().rstrip(), "",
       "---------------------------------------------------------------------------", "",
       "## 5. Per-property designs as built", "",
       "Each subsection: model, theorems, clause coverage, correspondence, findings, seeded changes, limits.",
       "Engineering detail (mutation tables, timings per seed, audit responses) is in `notes/Cxx.md`.", ""]
props = [json.loads(l) for l in open(os.path.join(V, "properties.jsonl"))]
for p in props:
    f = os.path.join(V, "notes", "DESIGN_5_%s.md" % p["id"])
    out.append(open(f).read().rstrip() if os.path.exists(f) else "### %s — %s\n\n(section missing)" % (p["id"], p["title"]))
    out.append("")
# section 6
fixed, known = [], []
for l in open(os.path.join(V, "KNOWN_FINDINGS.txt")):
    m = re.match(r"^(known|fixed): property=(\S+) (?:(\S+) )?signature=(\S+) (.*)$", l.strip())
    if m:
        (fixed if m.group(1) == "fixed" else known).append(m.groups())
subj = {}
try:
    for l in subprocess.run(["git", "-C", "/repo", "log", "--format=%h %s"], stdout=subprocess.PIPE, text=True).stdout.split("\n"):
        if l:
            subj[l.split()[0]] = l.split(" ", 1)[1]
except Exception:
    pass
out += ["---------------------------------------------------------------------------", "",
        "## 6. Genuine defects of veesix-networks/osvbng found by the checks", "",
        "Every entry was first a `_refuted` witness of the faithful model, then replayed against the real code through the",
        "property's harness.  `fixed` entries are one unguarded `fix:` commit each in /repo (the unedited test-suite passes",
        "with all of them; `KNOWN_FINDINGS.txt` records `fixed: property=<id> <commit> signature=<sig> <what failed>`); a",
        "fixed entry suppresses nothing — the check passes on the repaired tree and reports a VIOLATION if the behaviour",
        "returns.  Several findings share one commit.  %d signatures fixed by %d commits; %d recorded as known findings." %
        (len(fixed), len({f[2] for f in fixed}), len(known)), "",
        "### 6.1 Known findings (not repaired) — the check prints `KNOWN-FINDING` for these and exits 0", ""]
reasons = {
    "stale-redelivery-applied": "a correct dedupe needs a sender instance/epoch in the replication proto (a restarted sender starts again at sequence 1); proto change, not small",
    "release-frees-foreign-lease": "registry release-by-value API has no owner argument; repairing it changes the allocator API and every caller",
    "static-outside-pools-untracked": "AAA static addresses outside every pool are accepted by design today; tracking them needs a new registry table (design change)",
    "reserve-ignores-vrf": "registry Reserve*/override API carries no VRF; needs an API change across ipoe/pppoe/ha callers",
    "restore-keeps-conflicting-address": "cannot fire on HEAD without another defect first; dropping the address would let a stale image win over the legitimate holder",
    "coa-without-event-timestamp-bypasses-window": "requiring Event-Timestamp breaks DACs that omit it (plain radclient); a compatibility decision for the maintainers (patch kept in fixes/C08_require_event_timestamp.patch)",
    "start-stop-interim-sent-from-unordered-goroutines": "needs a per-session ordered send queue covering Start, every Interim and the Stop; not a small change",
}
for k in known:
    out.append("* **%s** `%s` — %s  \n  *Why not repaired:* %s" % (k[1], k[3], k[4], reasons.get(k[3], "see notes/%s.md" % k[1])))
out += ["", "### 6.2 Fixed (commit — property — signature — what failed)", ""]
for f in sorted(fixed, key=lambda t: (t[1], t[2] or "")):
    out.append("* `%s` %s — **%s** `%s` — %s" % (f[2], ("(" + subj.get(f[2], "") + ")") if f[2] in subj else "", f[1], f[3], f[4][:260]))
# section 7
out += ["", "---------------------------------------------------------------------------", "",
        "## 7. Seeded changes: which check catches which change", "",
        "Fresh sub-agents were given only the text of one property and a scratch worktree of /repo (nothing from /verif) and",
        "asked for realistic changes that break the property while compiling and passing the existing tests, each with a",
        "demonstration.  Every change kept under `seeded/<id>/` was confirmed by `lib/verify_seeded.py` in a scratch worktree",
        "(patch applies; `go build ./...`; full test-suite passes with the change — retrying packages the baseline lists as",
        "flaky; demonstration fails with the change and passes without it) and is run with `lib/run_seeded.py` (scratch",
        "worktree, `VERIF_REPO`), never committed to /repo.  Rounds: `_m*` = round 1 (two per property), `_n*` = round 2 (three",
        "per property, asked for cooperating sites / fault or interleaving dependence / boundary paths).  `first` = result of",
        "the check as it was when the change arrived; `now` = current check.  Misses were forwarded to the property's builder",
        "and led to the strengthening named in section 5.", ""]
res = json.load(open(os.path.join(V, "seeded/RESULTS.json")))
first = {}
fp = os.path.join(V, "seeded/FIRST_RESULTS.json")
if os.path.exists(fp):
    first = json.load(open(fp))
out.append("| id | property | touches | first | now |")
out.append("|---|---|---|---|---|")
sd = os.path.join(V, "seeded")
for d in sorted(os.listdir(sd)):
    mp = os.path.join(sd, d, "meta.json")
    if not os.path.exists(mp):
        continue
    m = json.load(open(mp))
    touches = ", ".join(m.get("touches") or re.findall(r"^\+\+\+ b/(\S+)", open(os.path.join(sd, d, "patch.diff")).read(), re.M))
    if m.get("status") == "retired":
        now = "retired (neutral on HEAD)"
    else:
        r = res.get(d)
        now = "?" if r is None else ("caught" + (" (correspondence only)" if r["violation_lines"] and "no-failing-input-found" in r["violation_lines"][0] else "") if r["caught"] else "MISSED")
    out.append("| %s | %s | %s | %s | %s |" % (d, m["property"], touches, first.get(d, "caught"), now))
out += ["", open(os.path.join(V, "notes/DESIGN_tail.md")).read().rstrip(), ""]
text = "\n".join(out) + "\n"
text = text.replace("@@NSIG@@", str(len(fixed) + len(known))).replace("@@NKNOWN@@", str(len(known))).replace("@@NCOMMIT@@", str(len({f[2] for f in fixed})))
open(os.path.join(V, "DESIGN.md"), "w").write(text)
print("DESIGN.md lines:", len("\n".join(out).split("\n")))
