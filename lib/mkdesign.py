#!/usr/bin/env python3
"""Assembles DESIGN.md from notes/DESIGN_general.md (sections 1-4), notes/DESIGN_5_Cxx.md (section 5),
KNOWN_FINDINGS.txt (section 6), seeded/ (section 7) and notes/DESIGN_tail.md (sections 8-9)."""
import json, os, re, subprocess
V = os.path.dirname(os.path.dirname(os.path.abspath(__file__)))
out = [open(os.path.join(V, "notes/DESIGN_general.md")).read().rstrip(), "",
       "---------------------------------------------------------------------------", "",
       "## 5. Per-property designs as built", "",
       "Each subsection: model, theorems, clause coverage, correspondence, findings, seeded changes, limits.",
       "Engineering detail (mutation tables, timings per seed, audit responses) is in `notes/Cxx.md`.", ""]
props = [json.loads(l) for l in open(os.path.join(V, "properties.jsonl"))]
for p in props:
    f = os.path.join(V, "notes", "DESIGN_5_%s.md" % p["id"])
    out.append(open(f).read().rstrip() if os.path.exists(f) else "### %s — %s\n\n(section missing)" % (p["id"], p["title"]))
    out.append("")
# section 6
fixed, known = [], []
for l in open(os.path.join(V, "KNOWN_FINDINGS.txt")):
    m = re.match(r"^(known|fixed): property=(\S+) (?:(\S+) )?signature=(\S+) (.*)$", l.strip())
    if m:
        (fixed if m.group(1) == "fixed" else known).append(m.groups())
subj = {}
try:
    for l in subprocess.run(["git", "-C", "/repo", "log", "--format=%h %s"], stdout=subprocess.PIPE, text=True).stdout.split("\n"):
        if l:
            subj[l.split()[0]] = l.split(" ", 1)[1]
except Exception:
    pass
out += ["---------------------------------------------------------------------------", "",
        "## 6. Genuine defects of veesix-networks/osvbng found by the checks", "",
        "Every entry was first a `_refuted` witness of the faithful model, then replayed against the real code through the",
        "property's harness.  `fixed` entries are one unguarded `fix:` commit each in /repo (the unedited test-suite passes",
        "with all of them; `KNOWN_FINDINGS.txt` records `fixed: property=<id> <commit> signature=<sig> <what failed>`); a",
        "fixed entry suppresses nothing — the check passes on the repaired tree and reports a VIOLATION if the behaviour",
        "returns.  Several findings share one commit.  %d signatures fixed by %d commits; %d recorded as known findings." %
        (len(fixed), len({f[2] for f in fixed}), len(known)), "",
        "### 6.1 Known findings (not repaired) — the check prints `KNOWN-FINDING` for these and exits 0", ""]
reasons = {
    "stale-redelivery-applied": "a correct dedupe needs a sender instance/epoch in the replication proto (a restarted sender starts again at sequence 1); proto change, not small",
    "release-frees-foreign-lease": "registry release-by-value API has no owner argument; repairing it changes the allocator API and every caller",
    "static-outside-pools-untracked": "AAA static addresses outside every pool are accepted by design today; tracking them needs a new registry table (design change)",
    "reserve-ignores-vrf": "registry Reserve*/override API carries no VRF; needs an API change across ipoe/pppoe/ha callers",
    "restore-keeps-conflicting-address": "cannot fire on HEAD without another defect first; dropping the address would let a stale image win over the legitimate holder",
    "coa-without-event-timestamp-bypasses-window": "requiring Event-Timestamp breaks DACs that omit it (plain radclient); a compatibility decision for the maintainers (patch kept in fixes/C08_require_event_timestamp.patch)",
    "bulk-sync-lagging-standby-not-converging": "a repair without proto change exists (fixes/C11_bulk_complete_set.patch, 141 lines, validated against the repaired model): it redefines a bulk sync as the complete set of an SRG's live sessions and makes the receiver drop what it was not sent. That changes the contract of an RPC whose client does not exist yet in /repo (BulkSync / ClearSyncedNamespace have no caller) — a design decision for the maintainers, not a small safe patch; kept as a proposal",
    "stale-heartbeat-built-before-peer-loss": "telling a heartbeat built before the receiver's peer-loss detection from a fresh one needs a common clock or an epoch handshake in the heartbeat proto; not a small change",
    "pools-overlap-within-vrf-accepted": "a configuration-validation decision (reject overlapping subscriber pools of one family per VRF at commit); touches config validation for every pool source and may reject configurations operators run today",
    "start-stop-interim-sent-from-unordered-goroutines": "needs a per-session ordered send queue covering Start, every Interim and the Stop; not a small change",
}
for k in known:
    out.append("* **%s** `%s` — %s  \n  *Why not repaired:* %s" % (k[1], k[3], k[4], reasons.get(k[3], "see notes/%s.md" % k[1])))
out += ["", "### 6.2 Fixed (commit — property — signature — what failed)", ""]
for f in sorted(fixed, key=lambda t: (t[1], t[2] or "")):
    out.append("* `%s` %s — **%s** `%s` — %s" % (f[2], ("(" + subj.get(f[2], "") + ")") if f[2] in subj else "", f[1], f[3], f[4][:260]))
# section 7
out += ["", "---------------------------------------------------------------------------", "",
        "## 7. Seeded changes: which check catches which change", "",
        "Fresh sub-agents were given only the text of one property and a scratch worktree of /repo (nothing from /verif) and",
        "asked for realistic changes that break the property while compiling and passing the existing tests, each with a",
        "demonstration.  Every change kept under `seeded/<id>/` was confirmed by `lib/verify_seeded.py` in a scratch worktree",
        "(patch applies; `go build ./...`; full test-suite passes with the change — retrying packages the baseline lists as",
        "flaky; demonstration fails with the change and passes without it) and is run with `lib/run_seeded.py` (scratch",
        "worktree, `VERIF_REPO`), never committed to /repo.  Rounds: `_m*` = round 1 (two per property), `_n*` = round 2 (three",
        "per property, asked for cooperating sites / fault or interleaving dependence / boundary paths), `_q*` = round 3 and",
        "`_r*` = round 4 (three per property each, written after the `fix:` commits of section 6 had landed, asked to avoid the",
        "code paths of earlier rounds: error-return paths, role/epoch transitions, second call after a refusal, neighbouring",
        "option codes, restart paths).  `first` = result of the check as it was when the change arrived; `now` = current check.",
        "Misses were forwarded to the property's builder and led to the strengthening named in section 5 — always of the",
        "*class* the change belongs to (a new case kind, a new op in the model's alphabet, a theorem over the newly modelled",
        "step), not the single witness.  Patches that went stale when a `fix:` commit touched the same lines were rebased onto",
        "HEAD (and their demonstrations re-verified) rather than dropped; one (C06_m1) became neutral on HEAD and is retired.",
        "@@ROUNDSTATS@@", ""]
res = json.load(open(os.path.join(V, "seeded/RESULTS.json")))
first = {}
fp = os.path.join(V, "seeded/FIRST_RESULTS.json")
if os.path.exists(fp):
    first = json.load(open(fp))
out.append("| id | property | touches | first | now |")
out.append("|---|---|---|---|---|")
sd = os.path.join(V, "seeded")
for d in sorted(os.listdir(sd)):
    mp = os.path.join(sd, d, "meta.json")
    if not os.path.exists(mp):
        continue
    m = json.load(open(mp))
    touches = ", ".join(m.get("touches") or re.findall(r"^\+\+\+ b/(\S+)", open(os.path.join(sd, d, "patch.diff")).read(), re.M))
    if m.get("status") == "retired":
        now = "retired (neutral on HEAD)"
    else:
        r = res.get(d)
        now = "?" if r is None else ("caught" + (" (correspondence only)" if r["violation_lines"] and "no-failing-input-found" in r["violation_lines"][0] else "") if r["caught"] else "MISSED")
    out.append("| %s | %s | %s | %s | %s |" % (d, m["property"], touches, first.get(d, "caught"), now))
# neutral changes
nd = os.path.join(V, "neutral")
if os.path.isdir(nd) and os.path.exists(os.path.join(nd, "RESULTS.json")):
    nres = json.load(open(os.path.join(nd, "RESULTS.json")))
    nfirst_r = json.load(open(os.path.join(nd, "FIRST_RESULTS.json"))) if os.path.exists(os.path.join(nd, "FIRST_RESULTS.json")) else {}
    rows, nq, na, nrj, nfa = [], 0, 0, 0, 0
    for d in sorted(os.listdir(nd)):
        mp = os.path.join(nd, d, "meta.json")
        if not os.path.exists(mp):
            continue
        m = json.load(open(mp))
        r = nres.get(d) or {}
        f1 = nfirst_r.get(d, "quiet")
        if f1.startswith("ALARM"):
            nfa += 1
        if m.get("status") == "rejected":
            now = "rejected: the change does break the property (%s)" % m.get("rejected_reason", "")[:160]; nrj += 1
        elif m.get("status") == "superseded":
            now = "superseded by a later fix: commit (%s)" % m.get("superseded_reason", "")[:120]
        elif r.get("quiet"):
            now = "quiet"; nq += 1
        elif r.get("quiet") is None:
            now = "?"
        else:
            nf = any("no-failing-input-found" in l for c in r.get("checks", {}).values() for l in c["violation_lines"])
            now = "alarm (no-failing-input-found)" if nf else "ALARM"; na += 1
        rows.append("| %s | %s | %s | %s | %s |" % (d, m["property"], ", ".join(m.get("touches", [])), f1, now))
    out += ["", "### 7.1 Neutral changes: false-alarm measurement", "",
            "The converse experiment.  Fresh sub-agents, again given only the property text and a scratch worktree, wrote three",
            "changes per property that KEEP the property true and that a maintainer could merge: (1) an internal rewrite with",
            "identical external behaviour, (2) a different choice where the property leaves one free (allocation order, start",
            "value of an identifier, suggested value in a Nak, wire order of independent items, error text, timing inside a",
            "bound), (3) hardening that only rejects what the property lets the code reject.  Kept under `neutral/<id>/`",
            "(patch.diff, README.md with the author's clause-by-clause argument), run with `lib/run_neutral.py`.  An alarm was",
            "triaged by the property's builder against the property text: when the change really preserves the property the",
            "check demanded more than the property states — a false alarm, corrected in the machinery (admissible-choice",
            "oracle in the model with the theorems re-proved for every admissible choice; coarser projection; 'may reject'",
            "classes), with every seeded change re-run afterwards so that no detection was lost; when the author was wrong the",
            "change is marked rejected with the failing input.  `first` = on arrival, `now` = current check.",
            "Totals: %d changes; %d alarmed on arrival; now %d quiet, %d alarm, %d rejected (really property-breaking)." % (len(rows), nfa, nq, na, nrj), "",
            "| id | property | touches | first | now |", "|---|---|---|---|---|"] + rows
# round statistics
rounds = {"m": [0, 0], "n": [0, 0], "q": [0, 0], "r": [0, 0]}
tot = missed_now = retired = 0
for d in sorted(os.listdir(sd)):
    mp = os.path.join(sd, d, "meta.json")
    if not os.path.exists(mp):
        continue
    m = json.load(open(mp))
    tag = d.split("_", 1)[1][0]
    tot += 1
    if tag in rounds:
        rounds[tag][0] += 1
        if first.get(d, "caught") != "caught":
            rounds[tag][1] += 1
    if m.get("status") == "retired":
        retired += 1
    elif not (res.get(d) or {}).get("caught"):
        missed_now += 1
nfirst = sum(v[1] for v in rounds.values())
stats = ("Totals: %d changes kept (%s); %d were missed or only half-recognised on arrival (%s); now %d caught, %d missed, %d retired."
         % (tot, ", ".join("round %s: %d" % (k, v[0]) for k, v in rounds.items()), nfirst,
            ", ".join("%s: %d" % (k, v[1]) for k, v in rounds.items()), tot - retired - missed_now, missed_now, retired))
out = [o.replace("@@ROUNDSTATS@@", stats) for o in out]
tail = open(os.path.join(V, "notes/DESIGN_tail.md")).read().rstrip()
nthm = 0
for pp in props:
    f = os.path.join(V, "coq/theories", pp["id"], "Properties.v")
    if os.path.exists(f):
        nthm += len(re.findall(r"^\s*(?:Theorem|Example|Lemma|Corollary)\s", open(f).read(), re.M))
tail = (tail.replace("@@NSEED@@", str(tot)).replace("@@NFIRSTMISS@@", str(nfirst)).replace("@@NLIVE@@", str(tot - retired))
        .replace("@@NTHM@@", str(nthm)).replace("@@NKNOWNW@@", str(len(known))))
out += ["", tail, ""]
text = "\n".join(out) + "\n"
text = text.replace("@@NSIG@@", str(len(fixed) + len(known))).replace("@@NKNOWN@@", str(len(known))).replace("@@NCOMMIT@@", str(len({f[2] for f in fixed})))
open(os.path.join(V, "DESIGN.md"), "w").write(text)
print("DESIGN.md lines:", len("\n".join(out).split("\n")))
