import json,sys,subprocess,os
pid=sys.argv[1]
for l in open('/verif/properties.jsonl'):
    p=json.loads(l)
    if p['id']==pid: break
wt='/tmp/mut4_%s'%pid
subprocess.run(['git','-C','/repo','worktree','remove','--force',wt],stdout=subprocess.DEVNULL,stderr=subprocess.DEVNULL)
subprocess.run(['git','-C','/repo','worktree','add','--detach',wt,'HEAD'],check=True,stdout=subprocess.DEVNULL,stderr=subprocess.DEVNULL)
os.makedirs('/tmp/mut4_%s_out'%pid,exist_ok=True)
print(f"""You are testing how well a verification suite detects subtle regressions in a Go repository (veesix-networks/osvbng, an open-source virtual Broadband Network Gateway). You have your own scratch git worktree of the repository at {wt} (work ONLY there and in /tmp/mut4_{pid}_out; never touch /repo or /verif, and do not read anything under /verif).

The semantic property under test:

TITLE: {p['title']}
STATEMENT: {p['statement']}
QUANTIFIED OVER: {p['quantifier']['text']}
CODE IT IS ANCHORED IN (paths relative to the repository root): {', '.join(p['anchors']['files'])}

Task: produce THREE different, independent, realistic changes to the repository's non-test Go code, each of which BREAKS this property while the repository still compiles and ALL existing tests still pass. Each change should look like a plausible developer mistake or 'optimisation' (a few lines), and must need something specific to manifest — a particular multi-step sequence of operations, an unusual or boundary input, a specific interleaving/fault point, or two cooperating sites that each look fine alone — NOT something ordinary use or the existing tests would expose at once. The three changes should break different clauses of the property and sit in different functions/files. At least one of them must be of the kind 'two cooperating sites that each look fine alone' or 'only a specific interleaving / fault / crash point exposes it', and at least one must hide behind a boundary or rarely-taken path (wrap-around, maximum length, empty/zero value, second occurrence, error-return path, re-entry after a previous failure). This is the FOURTH round of such changes for this property; earlier rounds already tried: inverted/weakened comparisons, linear scan replaced by binary search, dropped locks or split critical sections, aliasing of returned slices, zero/empty-value boundaries, fixed-width wrap-around, statement reorders around a send or a lock, cached values going stale, merged error branches. Be more inventive: think about (a) configuration-dependent paths (a non-default option, a second instance/pool/group/server, IPv6 vs IPv4 twins that are supposed to behave alike), (b) sequences spanning a restart, a re-authentication, a renegotiation, a failover or a retry, (c) resource-lifetime mistakes (release on the wrong path, double release, release missing on an error path), (d) mistakes in how two components agree on an identifier, a key format or a unit. Avoid the most obvious candidates (flipping the main comparison of the main function, replacing a linear scan by a binary search, dropping a lock around a read-modify-write, single-fold checksums): assume those have been tried already. Prefer changes in code ADJACENT to the anchored functions — their callers, helpers, constructors, configuration defaults, error-return paths, cleanup/teardown paths, restore/replay paths — that break the property through the anchored behaviour, and at least one change that looks like a behaviour-preserving refactoring (extracting a helper, reordering statements, caching a value, merging two branches, changing a loop to a range) but is not.

For each change k in {{1,2,3}} write into /tmp/mut4_{pid}_out/k/ :
  - patch.diff : `git diff` of the change against the worktree's HEAD (only non-test source files; apply cleanly with `git apply`)
  - a demonstration: a Go test file (demo_test.go, say which package directory it belongs in) or small program that FAILS with the change applied and PASSES without it, exercising the real code and showing the property being violated (not merely a behaviour difference)
  - README.md : which clause of the property breaks, what exactly is needed for it to manifest, the commands you ran and their results

You must verify all of this yourself in the worktree: (1) with the patch applied: `cd {wt} && GOPROXY=off go build ./... ` succeeds and `GOPROXY=off go test -vet=off -count=1 <the affected packages and the packages that depend on them, or ./... >` passes (the full suite takes about 1-2 minutes; run at least the packages under the touched directories and internal/... plugins/... that import them); (2) the demonstration fails with the patch and passes without it. Environment: run go with GOPROXY=off and do not set GOFLAGS, GOSUMDB or GOTOOLCHAIN; there is no network. Leave the worktree with NO patch applied when you finish (git -C {wt} checkout -- . ; remove any demo files you copied into it).

Reply with a short summary (under 300 words): for each change, the file/function touched, the clause broken, what it needs to manifest, and the verification results.""")
