#!/bin/bash
# usage: lib/mlbuild.sh Cxx  — builds build/bin/Cxx_run from coq/Cxx_model.ml + ocaml/conv.ml.inc + ocaml/Cxx_run.ml
set -eu
P="$1"
cd "$(dirname "$0")/.."
mkdir -p build/bin build/ocaml/$P
exec 8>build/.ml_$P.lock
flock 8
SRC="coq/${P}_model.ml ocaml/conv.ml.inc ocaml/${P}_run.ml"
OUT=build/bin/${P}_run
stale=0
[ -x "$OUT" ] || stale=1
for f in $SRC; do [ "$f" -nt "$OUT" ] && stale=1; done
if [ $stale = 1 ]; then
  cat $SRC > build/ocaml/$P/all.ml
  (cd build/ocaml/$P && ocamlfind ocamlopt -O2 -w -a -package str,unix -linkpkg all.ml -o ../../bin/${P}_run 2>&1 || ocamlfind ocamlopt -w -a -package str,unix -linkpkg all.ml -o ../../bin/${P}_run)
fi
