#!/bin/bash
# usage: lib/apply_fix.sh <slug>   — applies fixes/<slug>.patch to /repo as one "fix:" commit after building and
# running the tests of the touched packages.  Prints the new commit hash.
set -eu
S="$1"
cd /repo
git diff --quiet || { echo "/repo has uncommitted changes"; exit 2; }
git apply --check /verif/fixes/$S.patch
git apply /verif/fixes/$S.patch
PKGS=$(git diff --name-only | xargs -n1 dirname | sort -u | sed 's#^#./#' | tr '\n' ' ')
export GOPROXY=off
if ! go build ./... ; then git checkout -- .; echo BUILD FAILED; exit 1; fi
if ! go test -vet=off -count=1 $PKGS 2>&1 | tail -8; then git checkout -- .; exit 1; fi
# commit message: drop paragraphs that talk about the verification workspace
python3 - "$S" <<'PY'
import re,sys
s=open('/verif/fixes/%s.msg'%sys.argv[1]).read().strip()
paras=[p for p in re.split(r'\n\s*\n', s) if '/verif' not in p and 'correspondence check' not in p and 'KNOWN_FINDINGS' not in p]
assert paras[0].startswith('fix:'), paras[0]
open('/tmp/fixmsg.txt','w').write('\n\n'.join(paras)+'\n')
PY
git add -A .
git commit -q -F /tmp/fixmsg.txt
git log --oneline | head -1
