#!/usr/bin/env python3
"""Runs the quick check of a property against a scratch worktree with a NEUTRAL (property-preserving) change applied.
usage: lib/run_neutral.py [ids...]   Prints QUIET (exit 0, no VIOLATION) or ALARM per change; writes neutral/RESULTS.json."""
import json, os, subprocess, sys, fcntl
V = os.path.dirname(os.path.dirname(os.path.abspath(__file__)))
nd = os.path.join(V, "neutral")
ids = sys.argv[1:] or sorted(d for d in os.listdir(nd) if os.path.isdir(os.path.join(nd, d)))
results = {}
for nid in ids:
    d = os.path.join(nd, nid)
    meta = json.load(open(os.path.join(d, "meta.json")))
    if meta.get("status") == "superseded":
        print("%-14s superseded: %s" % (nid, meta.get("superseded_reason", "")[:140])); continue
    if meta.get("status") == "rejected":
        print("%-14s rejected: %s" % (nid, meta.get("rejected_reason", "")[:140])); continue
    repo = "/tmp/wt_neu_slot%s" % os.environ.get("VERIF_SEED_SLOT", "p%d" % os.getpid())
    subprocess.run(["git", "-C", "/repo", "worktree", "remove", "--force", repo], stdout=subprocess.DEVNULL, stderr=subprocess.DEVNULL)
    subprocess.run(["git", "-C", "/repo", "worktree", "add", "--detach", repo, "HEAD"], check=True, stdout=subprocess.DEVNULL, stderr=subprocess.DEVNULL)
    try:
        a = subprocess.run(["git", "-C", repo, "apply", "-3", os.path.join(d, "patch.diff")], stdout=subprocess.PIPE, stderr=subprocess.STDOUT, text=True)
        if a.returncode != 0:
            print("%-14s STALE (patch does not apply)" % nid); results[nid] = {"property": meta["property"], "quiet": None, "note": "stale"}; continue
        env = dict(os.environ, VERIF_REPO=repo, VERIF_COQCHK="0")
        out = {}
        for cp in meta.get("checked_by", [meta["property"]]):
            p = subprocess.run([os.path.join(V, "check"), cp, "--tier", "quick"], env=env, stdout=subprocess.PIPE, stderr=subprocess.STDOUT, text=True)
            viol = [l for l in p.stdout.split("\n") if l.startswith("VIOLATION")]
            out[cp] = {"rc": p.returncode, "violation_lines": viol, "last": p.stdout.strip().split("\n")[-1][:200]}
        quiet = all(o["rc"] == 0 and not o["violation_lines"] for o in out.values())
        results[nid] = {"property": meta["property"], "quiet": quiet, "checks": out}
        print("%-14s %s %s" % (nid, "QUIET" if quiet else "ALARM", "; ".join((o["violation_lines"] or [o["last"]])[0] for o in out.values())))
    finally:
        subprocess.run(["git", "-C", "/repo", "worktree", "remove", "--force", repo], stdout=subprocess.DEVNULL, stderr=subprocess.DEVNULL)
rp = os.path.join(nd, "RESULTS.json")
with open(rp + ".lock", "w") as lk:
    fcntl.flock(lk, fcntl.LOCK_EX)
    allres = json.load(open(rp)) if os.path.exists(rp) else {}
    allres.update(results)
    json.dump(allres, open(rp, "w"), indent=1, sort_keys=True)
