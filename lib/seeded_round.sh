#!/bin/bash
# usage: lib/seeded_round.sh <prefix> Cxx [Cyy ...] — import /tmp/<prefix>_Cxx_out/*, run the property's quick check on each
# (scratch worktree), and verify demo + suite.  Prints one CAUGHT/MISSED line and one verification line per change.
cd "$(dirname "$(readlink -f "$0")")/.."
PFX="$1"; shift
for P in "$@"; do
  ids=$(lib/import_seeded2.py "$P" "$PFX" | awk '{print $1}')
  lib/run_seeded.py $ids 2>&1 | grep -E "CAUGHT|MISSED"
  n=0; for i in $ids; do n=$((n+1)); VERIF_SEED_SLOT="${VERIF_SEED_SLOT:-0}_$n" lib/verify_seeded.py $i 2>&1 | tail -1 & done; wait
done
