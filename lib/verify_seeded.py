#!/usr/bin/env python3
"""Confirms a seeded change the way the brief asks: in a scratch worktree of /repo,
 (1) the demonstration passes without the change, (2) with the change the repo builds and the existing tests pass
 (full suite unless --pkgs given), (3) the demonstration fails with the change.
usage: lib/verify_seeded.py <seeded id> <package dir for demo_test.go> [--pkgs './pkg/x/... ./internal/...']
Records the outcome in seeded/<id>/meta.json under "verified"."""
import json, os, re, shutil, subprocess, sys
V = os.path.dirname(os.path.dirname(os.path.abspath(__file__)))
sid = sys.argv[1]
pkgdir = sys.argv[2] if len(sys.argv) > 2 and not sys.argv[2].startswith("--") else json.load(open(os.path.join(os.path.dirname(os.path.dirname(os.path.abspath(__file__))), "seeded", sid, "meta.json"))).get("demo_pkg")
pkgs = "./..."
if "--pkgs" in sys.argv:
    pkgs = sys.argv[sys.argv.index("--pkgs") + 1]
d = os.path.join(V, "seeded", sid)
wt = "/tmp/wt_vs_slot%s" % os.environ.get("VERIF_SEED_SLOT", "p%d" % os.getpid())   # fixed path per slot (Go build cache reuse)
env = dict(os.environ, GOPROXY="off")
def sh(cmd, **kw):
    return subprocess.run(cmd, shell=True, cwd=wt, env=env, stdout=subprocess.PIPE, stderr=subprocess.STDOUT, text=True, **kw)
subprocess.run(["git", "-C", "/repo", "worktree", "remove", "--force", wt], stdout=subprocess.DEVNULL, stderr=subprocess.DEVNULL)
subprocess.run(["git", "-C", "/repo", "worktree", "add", "--detach", wt, "HEAD"], check=True, stdout=subprocess.DEVNULL, stderr=subprocess.DEVNULL)
res = {}
RUNPAT = "|".join(sorted(set(re.findall(r"^func (Test\w+)", "".join(open(os.path.join(d, f)).read() for f in os.listdir(d) if f.endswith("_test.go")), re.M)))) or "Demo"
try:
    demos = [f for f in os.listdir(d) if f.endswith("_test.go")]
    r = sh("git apply --check %s" % os.path.join(d, "patch.diff")); res["patch_applies"] = r.returncode == 0
    sh("git apply %s" % os.path.join(d, "patch.diff"))
    r = sh("go build ./... && go test -vet=off -count=1 -timeout 25m %s 2>&1 | grep -v '^ok\\|no test files' | tail -20" % pkgs)
    ok = (r.returncode == 0 and "FAIL" not in r.stdout and "panic" not in r.stdout)
    note = ""
    if not ok:
        import re
        failing = sorted(set(re.findall(r"FAIL\t(\S+)", r.stdout)))
        failing = [f.replace("github.com/veesix-networks/osvbng", ".") for f in failing]
        if failing:
            ok2 = False
            for _ in range(3):   # the baseline lists flaky tests (e.g. pkg/component StateFileWriter); retry the package alone
                rr = sh("go test -vet=off -count=1 %s 2>&1 | tail -5" % " ".join(failing))
                if "FAIL" not in rr.stdout and "panic" not in rr.stdout:
                    ok2 = True
                    break
            if ok2:
                ok, note = True, " (after retry of flaky package(s) %s)" % failing
    res["suite_with_change"] = "pass" + note if ok else "FAIL: " + r.stdout[-1500:]
    for f in demos:
        shutil.copy(os.path.join(d, f), os.path.join(wt, pkgdir, "zz_seeded_" + f))
    r = sh("go test -vet=off -count=1 -run '^(%s)$' ./%s/ 2>&1 | tail -15" % (RUNPAT, pkgdir))
    res["demo_with_change"] = "fails" if ("FAIL" in r.stdout) else "PASSES?: " + r.stdout[-800:]
    sh("git apply -R %s" % os.path.join(d, "patch.diff"))
    r = sh("go test -vet=off -count=1 -run '^(%s)$' ./%s/ 2>&1 | tail -15" % (RUNPAT, pkgdir))
    res["demo_without_change"] = "passes" if (r.stdout.startswith("ok") or "\nok" in r.stdout) and "FAIL" not in r.stdout else "NOT PASSING: " + r.stdout[-800:]
finally:
    subprocess.run(["git", "-C", "/repo", "worktree", "remove", "--force", wt])
meta = json.load(open(os.path.join(d, "meta.json")))
meta["verified"] = res
meta["verified_cmds"] = "lib/verify_seeded.py %s %s (scratch worktree: apply, go build ./..., go test %s, demo with/without)" % (sid, pkgdir, pkgs)
json.dump(meta, open(os.path.join(d, "meta.json"), "w"), indent=1)
print(sid, json.dumps(res))
