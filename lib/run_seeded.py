#!/usr/bin/env python3
"""Runs the quick check of the property each seeded change breaks, against a scratch worktree of /repo with the
change applied (or, with --in-repo, against /repo itself: git apply, check, git checkout -- .).
usage: lib/run_seeded.py [--in-repo] [--tier quick|thorough] [seeded ids...]
Prints one line per seeded change: CAUGHT / MISSED, and writes seeded/RESULTS.json."""
import json, os, subprocess, sys, shutil
V = os.path.dirname(os.path.dirname(os.path.abspath(__file__)))
args = sys.argv[1:]
in_repo = "--in-repo" in args
tier = "quick"
if "--tier" in args:
    tier = args[args.index("--tier") + 1]
ids = [a for a in args if not a.startswith("--") and a not in ("quick", "thorough")]
sd = os.path.join(V, "seeded")
if not ids:
    ids = sorted(d for d in os.listdir(sd) if os.path.isdir(os.path.join(sd, d)))
results = {}
for sid in ids:
    d = os.path.join(sd, sid)
    meta = json.load(open(os.path.join(d, "meta.json")))
    if meta.get("status") == "retired":
        print("%-28s retired: %s" % (sid, meta.get("retired_reason", "")[:120])); continue
    prop = meta["property"]
    patch = os.path.join(d, "patch.diff")
    if in_repo:
        repo = "/repo"
        subprocess.run(["git", "-C", repo, "apply", patch], check=True)
    else:
        repo = "/tmp/wt_seed_slot%s" % os.environ.get("VERIF_SEED_SLOT", "p%d" % os.getpid())   # fixed path per slot: lets the Go build cache be reused
        subprocess.run(["git", "-C", "/repo", "worktree", "remove", "--force", repo], stdout=subprocess.DEVNULL, stderr=subprocess.DEVNULL)
        subprocess.run(["git", "-C", "/repo", "worktree", "add", "--detach", repo, "HEAD"], check=True, stdout=subprocess.DEVNULL, stderr=subprocess.DEVNULL)
        subprocess.run(["git", "-C", repo, "apply", patch], check=True)
    try:
        env = dict(os.environ, VERIF_REPO=repo, VERIF_COQCHK="0")
        caught, viol, p = False, [], None
        for cp in meta.get("checked_by", [prop]):     # a change may be visible only to another property's harness
            p = subprocess.run([os.path.join(V, "check"), cp, "--tier", tier], env=env, stdout=subprocess.PIPE, stderr=subprocess.STDOUT, text=True)
            viol = [l for l in p.stdout.split("\n") if l.startswith("VIOLATION")]
            caught = p.returncode == 1 and bool(viol)
            if caught:
                break
        results[sid] = {"property": prop, "caught": caught, "violation_lines": viol, "rc": p.returncode}
        print("%-28s %s %s %s" % (sid, prop, "CAUGHT" if caught else "MISSED", viol[0] if viol else p.stdout.strip().split("\n")[-1][:200]))
        if caught and viol:
            rp = viol[0].split("replay=")[1].split()[0]
            if os.path.exists(rp):
                shutil.copy(rp, os.path.join(d, "replay_found.json"))
    finally:
        if in_repo:
            subprocess.run(["git", "-C", "/repo", "checkout", "--", "."], check=True)
        else:
            subprocess.run(["git", "-C", "/repo", "worktree", "remove", "--force", repo])
import fcntl
rp = os.path.join(sd, "RESULTS.json")
with open(rp + ".lock", "w") as lk:
    fcntl.flock(lk, fcntl.LOCK_EX)
    allres = json.load(open(rp)) if os.path.exists(rp) else {}
    allres.update(results)
    json.dump(allres, open(rp, "w"), indent=1, sort_keys=True)
# evidence of the unchanged tree must be regenerated after this (evidence files were overwritten)
print("(runs against scratch worktrees write their evidence under build/, not evidence/)")
