#!/usr/bin/env python3
"""usage: lib/import_neutral.py Cxx — imports /tmp/neu_Cxx_out/<k>/ as neutral/Cxx_h<k>/ (patch.diff, README.md, meta.json)."""
import json, os, re, shutil, sys
V = os.path.dirname(os.path.dirname(os.path.abspath(__file__)))
pid = sys.argv[1]
rnd = sys.argv[2] if len(sys.argv) > 2 else ""
off = 3 if rnd else 0
root = "/tmp/neu%s_%s_out" % (rnd, pid)
for k in sorted(os.listdir(root)):
    src = os.path.join(root, k)
    if not os.path.isdir(src) or not os.path.exists(os.path.join(src, "patch.diff")):
        continue
    dst = os.path.join(V, "neutral", "%s_h%d" % (pid, int(k) + off))
    os.makedirs(dst, exist_ok=True)
    for f in ("patch.diff", "README.md"):
        if os.path.exists(os.path.join(src, f)):
            shutil.copy(os.path.join(src, f), dst)
    readme = open(os.path.join(dst, "README.md")).read() if os.path.exists(os.path.join(dst, "README.md")) else ""
    files = re.findall(r"^\+\+\+ b/(\S+)", open(os.path.join(dst, "patch.diff")).read(), re.M)
    json.dump({"property": pid, "touches": files, "description": readme[:1500], "expect": "quiet",
               "source": "independent sub-agent given only the property text and a scratch worktree (neutral round %s)" % (rnd or "1") + ""},
              open(os.path.join(dst, "meta.json"), "w"), indent=1)
    print(os.path.basename(dst), files)
