"""Prompt generator for the NEUTRAL round: independently written behaviour-visible but property-preserving rewrites, used
to measure false alarms.  usage: python3 lib/mkneutral.py Cxx  (creates /tmp/neu_Cxx worktree, prints the prompt)"""
import json,sys,subprocess,os
pid=sys.argv[1]
rnd=sys.argv[2] if len(sys.argv)>2 else ''
for l in open('/verif/properties.jsonl'):
    p=json.loads(l)
    if p['id']==pid: break
wt='/tmp/neu%s_%s'%(rnd,pid)
subprocess.run(['git','-C','/repo','worktree','remove','--force',wt],stdout=subprocess.DEVNULL,stderr=subprocess.DEVNULL)
subprocess.run(['git','-C','/repo','worktree','add','--detach',wt,'HEAD'],check=True,stdout=subprocess.DEVNULL,stderr=subprocess.DEVNULL)
os.makedirs('/tmp/neu%s_%s_out'%(rnd,pid),exist_ok=True)
OUT='/tmp/neu%s_%s_out'%(rnd,pid)
EXTRA='' if not rnd else """ This is the SECOND round of such changes for this property. The first round already used: changed error/log texts and sentinels, random or different start values of identifiers and counters, different allocation / iteration order, helpers extracted or inlined, loops restructured, table lookups, unreachable defensive checks, rejecting malformed input earlier. Be different this time; think of: batching or coalescing of work, caching or memoisation with correct invalidation, lazy instead of eager initialisation (or the reverse), a different-but-equivalent wire or storage encoding where the property allows one (option order the property does not fix, padding, optional fields, an extra backward-compatible field in a persisted record), different timer / retry / capacity constants inside the bounds the property states, a different internal key or id format, a different lock granularity that still serialises what must be serialised, moving a validation to a different (still early enough) place, performing two independent side effects in the other order, returning a more specific error class, making an operation idempotent where it previously returned an error the property does not require."""
print(f"""You are helping to measure the FALSE-ALARM rate of a verification suite for a Go repository (veesix-networks/osvbng, an open-source virtual Broadband Network Gateway). You have your own scratch git worktree of the repository at {wt} (work ONLY there and in {OUT}; never touch /repo or /verif, and do not read anything under /verif).

The semantic property the suite checks:

TITLE: {p['title']}
STATEMENT: {p['statement']}
QUANTIFIED OVER: {p['quantifier']['text']}
CODE IT IS ANCHORED IN (paths relative to the repository root): {', '.join(p['anchors']['files'])}

Task: produce THREE different, independent, realistic changes to the repository's non-test Go code IN OR NEXT TO the anchored code, each of which a maintainer could legitimately merge and each of which KEEPS THIS PROPERTY TRUE, while the repository still compiles and ALL existing tests still pass. They must not be no-ops: each must really change how the code works or what it does in some respect the property does not constrain. Aim for the kinds of change that a naive or over-fitted checker would wrongly flag:
  1. an INTERNAL rewrite with identical external behaviour: a different data structure or algorithm (map instead of slice, precomputed table, loop restructured, helper extracted/inlined, early-return reordering of independent checks, lock taken through defer instead of explicit unlock, a fast path for a common case);
  2. a change of a CHOICE THE PROPERTY LEAVES FREE: which of several admissible answers is returned (e.g. allocation order, which free slot/id is picked, iteration order, tie-breaking the property does not fix, the text of an error or log message, a default that the property does not mention, extra diagnostics/counters, timing constants the property does not depend on);
  3. a STRENGTHENING or hardening: an additional validation that rejects only inputs the property already says must be rejected (or that can never occur), an extra defensive check, an extra invariant assertion that cannot fire, tightening that stays inside what the property allows.
Produce one change of each kind if the anchored code allows it.{EXTRA} Keep the signatures of existing functions, methods, types and struct fields (exported and unexported) unchanged unless the change genuinely needs otherwise — adding new helpers/fields is fine. Each change should be a few to a few dozen lines.

For each change k in {{1,2,3}} write into {OUT}/k/ :
  - patch.diff : `git diff` of the change against the worktree's HEAD (only non-test source files; must apply cleanly with `git apply`)
  - README.md : what the change does, which kind (1/2/3) it is, what observable or internal behaviour differs from before, and a careful ARGUMENT, clause by clause of the property statement, why the property still holds for every input/history/schedule it quantifies over. If you are not sure the property is preserved, do not submit that change — pick another.

You must verify yourself in the worktree: with the patch applied `cd {wt} && GOPROXY=off go build ./... ` succeeds and `GOPROXY=off go test -vet=off -count=1 ./...` passes (about 1-2 minutes; two packages have a flaky test each — pkg/component TestStateFileWriterAtomicWriteIntegrity and pkg/ppp TestTimeWheelCallback — re-run a package once if only one of those fails). Environment: run go with GOPROXY=off and do not set GOFLAGS, GOSUMDB or GOTOOLCHAIN; there is no network. Leave the worktree with NO patch applied when you finish (git -C {wt} checkout -- .).

Reply with a short summary (under 250 words): for each change, the file/function touched, its kind, what differs, and the one-line reason the property is preserved.""")
