#!/bin/bash
# "Check it as a stranger would": clean full rebuild of every .vo, forbidden-token grep, per-theorem
# Print Assumptions summary, and (with --coqchk) coqchk -o over every property's closure.
set -u
cd "$(dirname "$(readlink -f "$0")")/.."
echo "== forbidden tokens (outside comments are what matters; raw grep shown) =="
grep -rnE 'Admitted|admit\b|Axiom|Parameter|Conjecture|Unset Guard|bypass_check|native_compute|type-in-type|impredicative-set|Admit Obligations' coq/theories --include='*.v' || echo "none"
echo "== clean rebuild =="
find coq -name '*.vo' -o -name '*.vos' -o -name '*.vok' -o -name '*.glob' | xargs rm -f
time lib/coqbuild.sh > build/audit_build.log 2>&1; echo "build rc=$?"
grep -c "Closed under the global context" build/audit_build.log
grep -n "^Axioms:" -A3 build/audit_build.log | head -40
if [ "${1:-}" = "--coqchk" ]; then
  for d in $(ls coq/theories | grep -E '^C[0-9]+$'); do
    echo "== coqchk $d =="
    (cd coq && time timeout 3000 coqchk -silent -o -Q theories OV OV.$d.Properties 2>&1 | tail -15)
  done
fi
