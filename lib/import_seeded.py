#!/usr/bin/env python3
"""usage: lib/import_seeded.py <Cxx> <k> <demo package dir> <breaks> <needs>  — copies /tmp/mut_Cxx_out/k into seeded/Cxx_mk"""
import json, os, shutil, sys
V = os.path.dirname(os.path.dirname(os.path.abspath(__file__)))
pid, k, pkg, breaks, needs = sys.argv[1:6]
src = "/tmp/mut_%s_out/%s" % (pid, k)
dst = os.path.join(V, "seeded", "%s_m%s" % (pid, k))
os.makedirs(dst, exist_ok=True)
for f in os.listdir(src):
    if f == "patch.diff" or f.endswith("_test.go") or f == "README.md" or f.endswith(".go"):
        shutil.copy(os.path.join(src, f), dst)
json.dump({"property": pid, "breaks": breaks, "needs": needs, "demo": "*_test.go in " + pkg, "demo_pkg": pkg,
           "source": "independent sub-agent given only the property text and a scratch worktree"},
          open(os.path.join(dst, "meta.json"), "w"), indent=1)
print(dst, os.listdir(dst))
