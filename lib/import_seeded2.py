#!/usr/bin/env python3
"""usage: lib/import_seeded2.py <Cxx> [round-prefix=mut2] — imports every /tmp/<prefix>_Cxx_out/<k>/ as seeded/Cxx_n<k>.
meta.json gets the property, the demo package (inferred from the demo's package clause + README paths) and the
README's text as description."""
import json, os, re, shutil, sys
V = os.path.dirname(os.path.dirname(os.path.abspath(__file__)))
pid = sys.argv[1]
prefix = sys.argv[2] if len(sys.argv) > 2 else "mut2"
tag = {"mut": "m", "mut2": "n", "mut3": "q", "mut4": "r"}.get(prefix, prefix)
root = "/tmp/%s_%s_out" % (prefix, pid)
for k in sorted(os.listdir(root)):
    src = os.path.join(root, k)
    if not os.path.isdir(src) or not os.path.exists(os.path.join(src, "patch.diff")):
        continue
    dst = os.path.join(V, "seeded", "%s_%s%s" % (pid, tag, k))
    os.makedirs(dst, exist_ok=True)
    demos = []
    for f in os.listdir(src):
        if f == "patch.diff" or f == "README.md" or f.endswith(".go"):
            shutil.copy(os.path.join(src, f), dst)
            if f.endswith("_test.go"):
                demos.append(f)
    readme = open(os.path.join(src, "README.md")).read() if os.path.exists(os.path.join(src, "README.md")) else ""
    pkgname = None
    for d in demos:
        m = re.search(r"^package\s+(\w+)", open(os.path.join(src, d)).read(), re.M)
        if m:
            pkgname = m.group(1)
    cands = re.findall(r"((?:pkg|internal|plugins|cmd)/[\w/\-]+)", readme + " " + " ".join(open(os.path.join(src, d)).read()[:600] for d in demos))
    pkgdir = None
    base = (pkgname or "").replace("_test", "")
    for c in cands:
        c = c.rstrip("/")
        if os.path.isdir(os.path.join("/repo", c)) and os.path.basename(c) == base:
            pkgdir = c
            break
    if not pkgdir:
        for c in cands:
            c = c.rstrip("/")
            if os.path.isdir(os.path.join("/repo", c)):
                pkgdir = c
                break
    files = re.findall(r"^\+\+\+ b/(\S+)", open(os.path.join(src, "patch.diff")).read(), re.M)
    json.dump({"property": pid, "touches": files, "description": readme[:1800], "demo_pkg": pkgdir, "demo": demos,
               "source": "independent sub-agent given only the property text and a scratch worktree (round %s)" % prefix},
              open(os.path.join(dst, "meta.json"), "w"), indent=1)
    print(os.path.basename(dst), "demo_pkg=%s" % pkgdir, "touches=%s" % files)
