#!/usr/bin/env python3
"""usage: lib/markfixed.py <property> <signature> <commit>  — turns a known: line into fixed: in KNOWN_FINDINGS.txt"""
import re, sys
pid, sig, commit = sys.argv[1:4]
p = '/verif/KNOWN_FINDINGS.txt'
out, n = [], 0
for l in open(p):
    m = re.match(r"^known: property=%s signature=%s (.*)$" % (re.escape(pid), re.escape(sig)), l.rstrip("\n"))
    if m:
        out.append("fixed: property=%s %s signature=%s %s\n" % (pid, commit, sig, m.group(1)))
        n += 1
    else:
        out.append(l)
open(p, 'w').writelines(out)
print("marked", n)
