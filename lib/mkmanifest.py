#!/usr/bin/env python3
"""Regenerates MANIFEST.json from props/*.py (claimed) and properties.jsonl (everything else -> not_applicable)."""
import importlib, json, os, sys
V = os.path.dirname(os.path.dirname(os.path.abspath(__file__)))
sys.path.insert(0, os.path.join(V, "props"))
props = [json.loads(l) for l in open(os.path.join(V, "properties.jsonl"))]
checks, na = [], []
for p in props:
    pid = p["id"]
    if os.path.exists(os.path.join(V, "props", pid + ".py")) and os.path.exists(os.path.join(V, "coq/theories", pid, "Properties.v")):
        mod = importlib.import_module(pid)
        checks.append({
            "property_id": pid,
            "quick_cmd": "./check %s --tier quick" % pid,
            "thorough_cmd": "./check %s --tier thorough" % pid,
            "evidence_file": "evidence/%s.json" % pid,
            "replay_cmd_template": "./check %s --replay {path}" % pid,
            "engine": "coq+correspondence",
            "level_claimed": {"category": "proof",
                              "text": getattr(mod, "LEVEL_TEXT", "Coq theorems over a hand-written Gallina model for all inputs/histories; model tied to /repo on every run by differential execution (Go harness vs extracted model)."),
                              "design_ref": "DESIGN.md section 5, %s" % pid},
            "level_note": getattr(mod, "LEVEL_NOTE", "Trusted: Coq kernel, ExtrOcamlBasic extraction, OCaml driver, Go harness; the model is hand-written and tied to the code only on the cases the correspondence check explores."),
            "technique": getattr(mod, "TECHNIQUE", "Coq proof over Gallina model + differential correspondence against the Go code"),
        })
    else:
        na.append({"property_id": pid, "reason": "not claimed yet: the Coq model and correspondence harness for this property are not built in this revision (technique applies; work in progress, see DESIGN.md section 5)"})
m = {
    "version": 1,
    "setup_cmd": "./setup.sh",
    "hooks": {"guard": "verif", "enable": "go test -tags verif -overlay <json> (harness files live in /verif/harness and are injected at build time; /repo is not written)",
              "baseline_off_cmd": "cd /repo && go test -vet=off -count=1 -timeout 25m ./...",
              "source_commits": [], "add_only": True},
    "engines": [{"name": "coq+correspondence", "path": "lib/vlib.py", "serves_properties": [c["property_id"] for c in checks],
                 "kind_free_text": "Coq 8.16 theorems (coq/theories/Cxx) + extracted OCaml model (ocaml/Cxx_run.ml) compared with Go harness output (harness/Cxx) on generated cases"}],
    "checks": checks,
    "notes": "All checks: ./check <id> --tier quick|thorough. VERIF_SEED seeds generators; VERIF_REPO overrides /repo.",
    "not_applicable": na,
}
json.dump(m, open(os.path.join(V, "MANIFEST.json"), "w"), indent=1)
print("claimed:", [c["property_id"] for c in checks])
