#!/usr/bin/env python3
"""Compile (not run) every harness package once so the quick checks start from a warm Go build cache."""
import importlib, json, os, subprocess, sys
sys.path.insert(0, os.path.dirname(os.path.abspath(__file__)))
import vlib
sys.path.insert(0, os.path.join(vlib.VERIF, "props"))
for f in sorted(os.listdir(os.path.join(vlib.VERIF, "props"))):
    if not (f.startswith("C") and f.endswith(".py")):
        continue
    if len(sys.argv) > 1 and f[:-3] not in sys.argv[1:]:
        continue
    mod = importlib.import_module(f[:-3])
    for h in mod.HARNESSES:
        ov = os.path.join(vlib.BUILD, "tmp", "warm_%s_%s.json" % (mod.ID, h["name"]))
        os.makedirs(os.path.dirname(ov), exist_ok=True)
        json.dump({"Replace": {os.path.join(vlib.REPO, d): os.path.join(vlib.VERIF, s) for d, s in h["files"]}}, open(ov, "w"))
        cmd = ["go", "test", "-tags", "verif", "-overlay", ov, "-run", "^$", "-count=1"] + (["-race"] if h.get("race") else []) + [h["pkg"]]
        subprocess.run(cmd, cwd=vlib.REPO, env=vlib.goenv())
