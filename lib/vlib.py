#!/usr/bin/env python3
"""Shared driver for the per-property checks (see DESIGN.md sections 2 and 3).

A property module props/Cxx.py provides:

  ID            "C14"
  THEOREM_FILE  (optional) defaults to coq/theories/<ID>/Properties.v
  HARNESSES     list of dicts {name, pkg, files:[(path under repo, path under /verif)], test,
                               timeout (s, optional), race (bool, optional)}
  route(case)   (optional) -> harness name for a case line (default: first harness)
  VARIANTS      (optional) list of model variants, first one is the one for which the full
                theorems are proved ("repaired"); later ones reproduce recorded defects.
  gen_cases(rng, tier, budget) -> list[str]      one case per line, no newlines
  nontrivial(case, impl_line) -> bool            (optional) default True
  classify(case, impl_line, model_line) -> (kind, text)
                kind 'P': the difference is itself a counter-example to the property
                          (the model's answer is the one the theorems pin down)
                kind 'G': glue / correspondence only
  signature(case, impl_line, model_lines_by_variant) -> str   (optional) for known findings
  shrink(case) -> iterable[str]                  (optional) smaller variants of a case
  describe(case) -> json-able                    (optional) for samples
  RULE          text: how cases are generated and what non-trivial means
  TRUSTED       extra trusted-base strings
  ASSUMPTIONS   list[str]
  MODEL_NEEDS_IMPL  bool: model driver receives the implementation's output as 2nd file
"""
import hashlib
import importlib
import json
import os
import random
import re
import subprocess
import sys
import time

VERIF = os.path.dirname(os.path.dirname(os.path.abspath(__file__)))
REPO = os.environ.get("VERIF_REPO", "/repo")
BUILD = os.path.join(VERIF, "build")
RUNSFX = "" if REPO == "/repo" else "_" + hashlib.md5(REPO.encode()).hexdigest()[:6]
EVDIR = os.environ.get("VERIF_EVIDENCE_DIR") or (os.path.join(VERIF, "evidence") if REPO == "/repo" else os.path.join(BUILD, "evidence" + RUNSFX))

ALLOWED_AXIOMS = {
    # axioms declared by the Coq standard library itself; named in DESIGN.md section 4
    "functional_extensionality_dep", "FunctionalExtensionality.functional_extensionality_dep",
    "Eqdep.Eq_rect_eq.eq_rect_eq", "eq_rect_eq", "classic", "Classical_Prop.classic",
    "proof_irrelevance", "ProofIrrelevance.proof_irrelevance", "JMeq_eq", "JMeq.JMeq_eq",
    "propositional_extensionality", "PropExtensionality.propositional_extensionality",
}

FORBIDDEN = re.compile(
    r"\b(Admitted|admit|Axiom|Axioms|Parameter|Parameters|Conjecture|Conjectures|Admit\s+Obligations|"
    r"bypass_check|Unset\s+Guard\s+Checking|Unset\s+Positivity\s+Checking|Unset\s+Universe\s+Checking|"
    r"type-in-type|impredicative-set|native_compute)\b")


def goenv():
    e = dict(os.environ)
    e["GOPROXY"] = "off"
    e.setdefault("GOFLAGS", "")
    e.pop("GOSUMDB", None) if e.get("GOSUMDB") == "off" else None
    if e.get("GOTOOLCHAIN") == "local":
        e.pop("GOTOOLCHAIN")
    return e


def strip_comments(src):
    out, depth, i = [], 0, 0
    while i < len(src):
        if src.startswith("(*", i):
            depth += 1
            i += 2
        elif src.startswith("*)", i) and depth:
            depth -= 1
            i += 2
        else:
            if depth == 0:
                out.append(src[i])
            i += 1
    return "".join(out)


# ---------------------------------------------------------------- proof stage
def proof_stage(pid, thorough=False):
    """Build the property's Coq closure, re-check Properties.v capturing Print Assumptions."""
    res = {"obligations": 0, "discharged": 0, "theorems": [], "axioms": {}, "errors": [],
           "checker_cmd": "", "failed_theorem": None}
    tdir = os.path.join(VERIF, "coq", "theories")
    pfile = os.path.join(tdir, pid, "Properties.v")
    src = open(pfile).read()
    code = strip_comments(src)
    thms = re.findall(r"^\s*(?:Theorem|Lemma|Corollary|Example|Fact|Proposition)\s+([A-Za-z0-9_']+)", code, re.M)
    res["theorems"] = thms
    res["obligations"] = len(thms)
    # source gate over Common and this property's directory
    for d in ("Common", pid):
        for root, _, files in os.walk(os.path.join(tdir, d)):
            for f in files:
                if f.endswith(".v"):
                    m = FORBIDDEN.search(strip_comments(open(os.path.join(root, f)).read()))
                    if m:
                        res["errors"].append("forbidden token %r in %s" % (m.group(0), os.path.join(d, f)))
    for t in thms:
        if not re.search(r"Print\s+Assumptions\s+%s\s*\." % re.escape(t), code):
            res["errors"].append("theorem %s has no Print Assumptions" % t)
    targets = [pid]
    cmd = [os.path.join(VERIF, "lib", "coqbuild.sh")] + targets
    res["checker_cmd"] = "lib/coqbuild.sh %s && coqc -Q theories OV build/tmp/%s_pa.v (Print Assumptions of every theorem)" % (" ".join(targets), pid)
    p = subprocess.run(cmd, stdout=subprocess.PIPE, stderr=subprocess.STDOUT, text=True)
    if p.returncode != 0:
        res["errors"].append("coq build failed:\n" + p.stdout[-3000:])
        m = re.search(r"theories/%s/Properties\.v\", line (\d+)" % pid, p.stdout)
        if m:
            res["failed_theorem"] = theorem_at_line(src, int(m.group(1)))
        return res
    os.makedirs(os.path.join(BUILD, "tmp"), exist_ok=True)
    pa = os.path.join(BUILD, "tmp", "%s_pa.v" % pid)
    with open(pa, "w") as f:
        f.write("Require Import Coq.Strings.String.\nFrom OV Require %s.Properties.\n" % pid)
        for t in thms:
            f.write('Check "@@%s"%%string.\nPrint Assumptions OV.%s.Properties.%s.\n' % (t, pid, t))
    p = subprocess.run(["timeout", "900", "coqc", "-Q", "theories", "OV", "-w", "none", pa],
                       cwd=os.path.join(VERIF, "coq"), stdout=subprocess.PIPE, stderr=subprocess.STDOUT, text=True)
    if p.returncode != 0:
        res["errors"].append("Print Assumptions pass failed:\n" + p.stdout[-3000:])
        return res
    blocks = parse_assumptions(p.stdout, thms)
    if len(blocks) != len(thms):
        res["errors"].append("expected %d Print Assumptions blocks, got %d" % (len(thms), len(blocks)))
    ok = 0
    for t, b in zip(thms, blocks):
        bad = [a for a in b if a.split(".")[-1] not in {x.split(".")[-1] for x in ALLOWED_AXIOMS}]
        res["axioms"][t] = b
        if bad:
            res["errors"].append("theorem %s depends on non-library axioms %s" % (t, bad))
        else:
            ok += 1
    if not res["errors"] or all("depends on" in e for e in res["errors"]):
        res["discharged"] = ok
    if thorough and not res["errors"] and os.environ.get("VERIF_COQCHK", "1") == "1":
        t0 = time.time()
        c = subprocess.run(["timeout", "3000", "coqchk", "-silent", "-o", "-Q", "theories", "OV",
                            "OV.%s.Properties" % pid], cwd=os.path.join(VERIF, "coq"),
                           stdout=subprocess.PIPE, stderr=subprocess.STDOUT, text=True)
        res["coqchk_rc"] = c.returncode
        res["coqchk_s"] = round(time.time() - t0, 1)
        res["coqchk_tail"] = c.stdout[-1500:]
        res["checker_cmd"] += " && coqchk -silent -o -Q theories OV OV.%s.Properties" % pid
        if c.returncode != 0:
            res["errors"].append("coqchk failed: " + c.stdout[-1500:])
            res["discharged"] = 0
    return res


def theorem_at_line(src, line):
    name = None
    for i, l in enumerate(src.split("\n"), 1):
        m = re.match(r"\s*(?:Theorem|Lemma|Corollary|Example|Fact|Proposition)\s+([A-Za-z0-9_']+)", l)
        if m:
            name = m.group(1)
        if i >= line:
            break
    return name


def parse_assumptions(out, thms):
    """One list of axiom names per theorem, in order (markers are printed by the generated file)."""
    chunks = re.split(r'"@@([A-Za-z0-9_\']+)"%string\s*\n\s*: string\n?', out)
    got = {}
    for i in range(1, len(chunks) - 1, 2):
        name, body = chunks[i], chunks[i + 1]
        if "Closed under the global context" in body:
            got[name] = []
            continue
        ax = []
        for l in body.split("\n"):
            m = re.match(r"^([A-Za-z_][\w.']*)\s*(:.*)?$", l)
            if m and not l.startswith(("Axioms:", "Section Variables:")):
                ax.append(m.group(1))
        got[name] = ax if ax else ["UNPARSED"]
    return [got[t] for t in thms if t in got]


# ---------------------------------------------------------------- running both sides
def build_model(pid):
    p = subprocess.run([os.path.join(VERIF, "lib", "mlbuild.sh"), pid], stdout=subprocess.PIPE,
                       stderr=subprocess.STDOUT, text=True)
    if p.returncode != 0:
        raise RuntimeError("model driver build failed:\n" + p.stdout[-3000:])


def run_model(pid, cases, impl_lines=None, variant=None, tag="m"):
    wd = os.path.join(BUILD, "run", pid + RUNSFX)
    os.makedirs(wd, exist_ok=True)
    cf = os.path.join(wd, "%s_cases.txt" % tag)
    with open(cf, "w") as f:
        f.write("\n".join(cases) + ("\n" if cases else ""))
    args = [os.path.join(BUILD, "bin", "%s_run" % pid), cf]
    if impl_lines is not None:
        inf = os.path.join(wd, "%s_impl.txt" % tag)
        with open(inf, "w") as f:
            f.write("\n".join(impl_lines) + ("\n" if impl_lines else ""))
        args.append(inf)
    else:
        args.append("-")
    if variant:
        args.append(variant)
    p = subprocess.run(args, stdout=subprocess.PIPE, stderr=subprocess.PIPE, text=True)
    lines = p.stdout.split("\n")
    if lines and lines[-1] == "":
        lines.pop()
    if p.returncode != 0 or len(lines) != len(cases):
        raise RuntimeError("model driver failed rc=%s lines=%d cases=%d stderr=%s" %
                           (p.returncode, len(lines), len(cases), p.stderr[-2000:]))
    return lines


class HarnessFailure(Exception):
    pass


def run_impl(mod, cases, tag="i"):
    """Run the Go harness(es) from REPO's working tree; returns one output line per case."""
    pid = mod.ID
    wd = os.path.join(BUILD, "run", pid + RUNSFX)
    os.makedirs(wd, exist_ok=True)
    hs = mod.HARNESSES
    route = getattr(mod, "route", None)
    out = [None] * len(cases)
    groups = {}
    for i, c in enumerate(cases):
        h = route(c) if route else hs[0]["name"]
        groups.setdefault(h, []).append(i)
    for h in hs:
        idxs = groups.get(h["name"], [])
        if not idxs:
            continue
        overlay = {"Replace": {os.path.join(REPO, dst): os.path.join(VERIF, src) for dst, src in h["files"]}}
        ov = os.path.join(wd, "overlay_%s.json" % h["name"])
        json.dump(overlay, open(ov, "w"))
        cf = os.path.join(wd, "%s_%s_cases.txt" % (tag, h["name"]))
        of = os.path.join(wd, "%s_%s_out.txt" % (tag, h["name"]))
        with open(cf, "w") as f:
            f.write("\n".join(cases[i] for i in idxs) + "\n")
        if os.path.exists(of):
            os.remove(of)
        env = goenv()
        env["VERIF_CASES"] = cf
        env["VERIF_OUT"] = of
        env["VERIF_SEED"] = str(os.environ.get("VERIF_SEED", "1"))
        cmd = ["go", "test", "-tags", "verif", "-overlay", ov, "-run", "^%s$" % h["test"], "-count=1",
               "-timeout", "%ds" % h.get("timeout", 600)]
        if h.get("race"):
            cmd.append("-race")
        cmd.append(h["pkg"])
        p = subprocess.run(cmd, cwd=REPO, env=env, stdout=subprocess.PIPE, stderr=subprocess.STDOUT, text=True)
        lines = []
        if os.path.exists(of):
            lines = open(of).read().split("\n")
            if lines and lines[-1] == "":
                lines.pop()
        if p.returncode != 0 or len(lines) != len(idxs):
            raise HarnessFailure("harness %s failed rc=%d (%d/%d lines)\n%s" %
                                 (h["name"], p.returncode, len(lines), len(idxs), p.stdout[-4000:]), lines, idxs)
        for i, l in zip(idxs, lines):
            out[i] = l
    return out


# ---------------------------------------------------------------- known findings
def load_findings(pid):
    """KNOWN_FINDINGS.txt lines:
         known: property=C10 signature=<sig> <what fails>
         fixed: property=C01 <commit> signature=<sig> <what failed>
       Only 'known' entries suppress anything; the file is never written at run time."""
    path = os.path.join(VERIF, "KNOWN_FINDINGS.txt")
    known, fixed = {}, {}
    if os.path.exists(path):
        for l in open(path):
            l = l.strip()
            m = re.match(r"^(known|fixed): property=(\S+) (?:(\S+) )?signature=(\S+) (.*)$", l)
            if not m or m.group(2) != pid:
                continue
            e = {"what": m.group(5), "commit": m.group(3), "signature": m.group(4)}
            (known if m.group(1) == "known" else fixed)[m.group(4)] = e
    return known, fixed


# ---------------------------------------------------------------- main flow
def write_replay(pid, name, obj):
    d = os.path.join(VERIF, "replay", pid + RUNSFX)
    os.makedirs(d, exist_ok=True)
    path = os.path.join(d, name)
    json.dump(obj, open(path, "w"), indent=1)
    return path


def compare(mod, cases, impl, models):
    """models: dict variant -> lines.  Returns (mismatch idx list vs first variant)."""
    v0 = variants(mod)[0]
    return [i for i in range(len(cases)) if impl[i] != models[v0][i]]


def variants(mod):
    return getattr(mod, "VARIANTS", ["model"])


def eval_cases(mod, cases, tag="x"):
    impl = run_impl(mod, cases, tag=tag)
    models = {}
    needs = getattr(mod, "MODEL_NEEDS_IMPL", False)
    for v in variants(mod):
        models[v] = run_model(mod.ID, cases, impl if needs else None, v if len(variants(mod)) > 1 else None, tag=tag + v)
    return impl, models


def shrink_case(mod, case, still_bad, max_rounds=40):
    """Greedy shrinking with the module's shrink() candidates, evaluated in batches."""
    sh = getattr(mod, "shrink", None)
    if not sh:
        return case
    cur = case
    for _ in range(max_rounds):
        cands = []
        seen = set()
        for c in sh(cur):
            if c != cur and c not in seen:
                seen.add(c)
                cands.append(c)
            if len(cands) >= 200:
                break
        if not cands:
            break
        try:
            impl, models = eval_cases(mod, cands, tag="s")
        except Exception:
            break
        nxt = None
        for i, c in enumerate(cands):
            if still_bad(c, impl[i], {v: models[v][i] for v in models}):
                nxt = c
                break
        if nxt is None:
            break
        cur = nxt
    return cur


def main(pid):
    import argparse
    ap = argparse.ArgumentParser()
    ap.add_argument("--tier", default=os.environ.get("VERIF_TIER", "quick"))
    ap.add_argument("--replay")
    ap.add_argument("--budget", type=int, default=0)
    a = ap.parse_args(sys.argv[2:])
    sys.path.insert(0, os.path.join(VERIF, "props"))
    mod = importlib.import_module(pid)
    seed = int(os.environ.get("VERIF_SEED", "1") or 1)
    tier = a.tier if a.tier in ("quick", "thorough") else "quick"
    # two runs of one property against the same repo share build/run/<id>: serialise them
    import fcntl
    os.makedirs(os.path.join(BUILD, "run"), exist_ok=True)
    _lk = open(os.path.join(BUILD, "run", ".%s%s.lock" % (pid, RUNSFX)), "w")
    fcntl.flock(_lk, fcntl.LOCK_EX)
    t0 = time.time()
    if a.replay:
        return do_replay(mod, a.replay)
    violations = []      # (replay path, suffix)
    known_lines = []
    pr = proof_stage(pid, thorough=(tier == "thorough"))
    proof_ok = (not pr["errors"]) and pr["obligations"] > 0 and pr["discharged"] == pr["obligations"]
    cov = {"obligations": pr["obligations"], "discharged": pr["discharged"], "checker_cmd": pr["checker_cmd"],
           "theorems": pr["theorems"], "axioms_per_theorem": pr["axioms"],
           "trusted_base": trusted_base(mod, pr)}
    if "coqchk_rc" in pr:
        cov["coqchk"] = {"rc": pr["coqchk_rc"], "seconds": pr["coqchk_s"], "tail": pr.get("coqchk_tail", "")[-400:]}
    corr_ok = True
    corr_err = None
    mism = []
    cases, impl, models = [], [], {}
    try:
        build_model(pid)
        rng = random.Random(seed)
        corpus = load_corpus(pid)
        gen = mod.gen_cases(rng, tier, a.budget)
        cases = corpus + gen
        impl, models = eval_cases(mod, cases, tag="c")
        mism = compare(mod, cases, impl, models)
    except HarnessFailure as e:
        corr_ok = False
        corr_err = str(e.args[0])
    except Exception as e:  # model build / driver failure
        corr_ok = False
        corr_err = "%s: %s" % (type(e).__name__, e)
    vs = variants(mod)
    known, fixed = load_findings(pid)
    reported_known = set()
    unexplained = []
    for i in mism:
        sig = None
        if len(vs) > 1 and any(impl[i] == models[v][i] for v in vs[1:]):
            sigf = getattr(mod, "signature", None)
            sig = sigf(cases[i], impl[i], {v: models[v][i] for v in vs}) if sigf else None
        if sig and sig in known:
            if sig not in reported_known:
                reported_known.add(sig)
                known_lines.append("KNOWN-FINDING: property=%s %s [%s] e.g. case: %s" %
                                   (pid, known[sig]["what"], sig, cases[i][:300]))
        else:
            unexplained.append(i)
    # decide
    if unexplained:
        by_kind = {"P": [], "G": []}
        for i in unexplained:
            k, txt = mod.classify(cases[i], impl[i], models[vs[0]][i])
            by_kind.setdefault(k, []).append((i, txt))
        pick = by_kind["P"] or by_kind["G"]
        kind = "P" if by_kind["P"] else "G"
        # smallest case first, then shrink
        pick.sort(key=lambda t: len(cases[t[0]]))
        i, txt = pick[0]

        def still_bad(c, il, ml):
            if il == ml[vs[0]]:
                return False
            if any(il == ml[v] for v in vs[1:]):
                return False
            return mod.classify(c, il, ml[vs[0]])[0] == kind
        small = shrink_case(mod, cases[i], still_bad)
        try:
            si, sm = eval_cases(mod, [small], tag="r")
            s_impl, s_model = si[0], sm[vs[0]][0]
            if s_impl == s_model:   # non-deterministic (concurrent) case did not re-fail: keep the observed one
                raise RuntimeError("shrunk case did not re-fail")
        except Exception:
            small, s_impl, s_model = cases[i], impl[i], models[vs[0]][i]
        obj = {"property": pid, "kind": "failing-input" if kind == "P" else "correspondence-broken",
               "what": mod.classify(small, s_impl, s_model)[1], "case": small, "implementation": s_impl,
               "model": s_model, "unshrunk_case": cases[i], "n_mismatching_cases": len(unexplained),
               "theorems": pr["theorems"], "seed": seed,
               "replay_cmd": "./check %s --replay <this file>" % pid}
        path = write_replay(pid, "violation_%s_%d.json" % (tier, seed), obj)
        violations.append((path, "" if kind == "P" else " no-failing-input-found"))
    elif not corr_ok:
        obj = {"property": pid, "kind": "correspondence-broken", "what": "harness or model driver could not run",
               "error": corr_err, "partial_output": "see error"}
        path = write_replay(pid, "violation_%s_%d.json" % (tier, seed), obj)
        violations.append((path, " no-failing-input-found"))
    if not proof_ok:
        obj = {"property": pid, "kind": "proof-broken", "failed_theorem": pr["failed_theorem"],
               "errors": pr["errors"], "obligations": pr["obligations"], "discharged": pr["discharged"]}
        path = write_replay(pid, "proof_%s_%d.json" % (tier, seed), obj)
        if not violations:
            violations.append((path, " no-failing-input-found"))
    # evidence
    nontriv = getattr(mod, "nontrivial", lambda c, o: True)
    distinct = set()
    for c, o in zip(cases, impl):
        if o is not None and nontriv(c, o):
            distinct.add(hashlib.sha1(c.encode()).hexdigest())
    desc = getattr(mod, "describe", lambda c, o, m: {"case": c[:400], "implementation": o[:400], "model": m[:400]})
    samples = []
    if cases and impl and models:
        step = max(1, len(cases) // 4)
        for i in list(range(0, len(cases), step))[:4]:
            samples.append(desc(cases[i], impl[i] or "", models[vs[0]][i]))
    samples.append({"obligations": pr["theorems"]})
    cov.update({"evaluations": len(cases), "distinct_nontrivial": len(distinct),
                "rule": getattr(mod, "RULE", ""), "samples": samples,
                "traces_validated_against_impl": len(cases) - len(mism) if corr_ok else 0,
                "mismatches": len(mism), "known_finding_cases": len(mism) - len(unexplained),
                "corpus_cases": len(load_corpus(pid)), "model_variants": vs,
                "correspondence_ran": corr_ok})
    dist = getattr(mod, "distribution", None)
    if dist and cases and impl:
        try:
            cov["distribution"] = dist(cases, impl)
        except Exception as e:
            cov["distribution"] = {"error": str(e)}
    if corr_err:
        cov["correspondence_error"] = corr_err[-1500:]
    if pr["errors"]:
        cov["proof_errors"] = [e[-800:] for e in pr["errors"]]
    ev = {"property_id": pid, "tier": tier, "seed": seed, "level": "proof", "coverage": cov,
          "assumptions": getattr(mod, "ASSUMPTIONS", []), "wall_s": round(time.time() - t0, 2),
          "violations": len(violations), "known_findings_reported": sorted(reported_known)}
    os.makedirs(EVDIR, exist_ok=True)
    json.dump(ev, open(os.path.join(EVDIR, "%s.json" % pid), "w"), indent=1)
    for l in known_lines:
        print(l)
    print("%s tier=%s seed=%d proofs=%d/%d cases=%d mismatches=%d known=%d wall=%.1fs" %
          (pid, tier, seed, pr["discharged"], pr["obligations"], len(cases), len(mism),
           len(mism) - len(unexplained), time.time() - t0))
    if violations:
        for path, suffix in violations:
            print("VIOLATION property=%s replay=%s%s" % (pid, path, suffix))
        return 1
    return 0


def trusted_base(mod, pr):
    tb = ["Coq 8.16.1 kernel (coqc; vm_compute where a proof says so; no native_compute)",
          "axioms per theorem as printed by Print Assumptions: " +
          ("none (all closed under the global context)" if not any(pr["axioms"].values()) else json.dumps(pr["axioms"])),
          "hand-written Gallina model coq/theories/%s/Model.v tied to /repo by the correspondence check only" % mod.ID,
          "extraction: ExtrOcamlBasic only (no Extract Constant of our own); OCaml driver ocaml/%s_run.ml + ocaml/conv.ml.inc" % mod.ID,
          "Go harness files under harness/%s (build tag verif, injected with go test -overlay)" % mod.ID]
    return tb + list(getattr(mod, "TRUSTED", []))


def load_corpus(pid):
    d = os.path.join(VERIF, "corpus", pid)
    out = []
    if os.path.isdir(d):
        for f in sorted(os.listdir(d)):
            if f.endswith(".case"):
                for l in open(os.path.join(d, f)):
                    l = l.rstrip("\n")
                    if l and not l.startswith("#"):
                        out.append(l)
    return out


def do_replay(mod, path):
    obj = json.load(open(path))
    case = obj.get("case")
    if not case:
        print("replay file has no case (kind=%s): %s" % (obj.get("kind"), json.dumps(obj)[:600]))
        return 1
    build_model(mod.ID)
    impl, models = eval_cases(mod, [case], tag="p")
    vs = variants(mod)
    print("case:          ", case)
    print("implementation:", impl[0])
    for v in vs:
        print("model[%s]: %s" % (v, models[v][0]))
    if impl[0] != models[vs[0]][0]:
        print("VIOLATION property=%s replay=%s" % (mod.ID, path))
        return 1
    print("no longer fails")
    return 0


if __name__ == "__main__":
    sys.exit(main(sys.argv[1]))
