#!/bin/bash
# usage: lib/coqbuild.sh [make targets, relative to coq/, e.g. theories/C14/Properties.vo]
# Regenerates coq/Makefile.coq when the set of .v files changed, then runs a full
# .vo build (never -vos) of the requested targets (default: everything) under a lock.
set -u
cd "$(dirname "$0")/../coq" || exit 2
mkdir -p ../build
exec 9>../build/.coq.lock
flock 9
{ cat _CoqProject; find theories -name '*.v' | LC_ALL=C sort; } > _CoqProject.full
if ! cmp -s _CoqProject.full _CoqProject.last 2>/dev/null || [ ! -f Makefile.coq ]; then
  coq_makefile -f _CoqProject.full -o Makefile.coq >/dev/null || exit 2
  cp _CoqProject.full _CoqProject.last
fi
if [ $# -eq 0 ]; then
  timeout 3000 make -f Makefile.coq -j"${VERIF_JOBS:-16}" 2>&1
else
  timeout 3000 make -f Makefile.coq -j"${VERIF_JOBS:-16}" "$@" 2>&1
fi
