#!/bin/bash
# Offline setup: full Coq build (.vo, all proofs checked), extraction, OCaml model drivers for every
# property claimed in MANIFEST.json, and a warm Go build cache for the harness packages.
set -u
cd "$(dirname "$(readlink -f "$0")")"
mkdir -p build/bin build/tmp evidence replay
PROPS=$(python3 -c "import json;print(' '.join(c['property_id'] for c in json.load(open('MANIFEST.json'))['checks']))")
rc=0
lib/coqbuild.sh Common > build/coq_build.log 2>&1 || rc=1
echo $PROPS | tr ' ' '\n' | xargs -P 6 -I{} sh -c 'lib/coqbuild.sh {} > build/coq_build_{}.log 2>&1 || { echo "coq build of {} failed (build/coq_build_{}.log)"; tail -20 build/coq_build_{}.log; exit 1; }' || rc=1
for p in $PROPS; do
  lib/mlbuild.sh "$p" || { echo "model driver $p failed"; rc=1; }
done
python3 lib/warm.py $PROPS >/dev/null 2>&1 || true
echo "setup done rc=$rc"
exit $rc
