#!/bin/bash
# Offline setup: full Coq build (.vo, all proofs checked), extraction, OCaml model drivers.
set -u
cd "$(dirname "$0")"
mkdir -p build/bin build/tmp evidence replay
lib/coqbuild.sh > build/coq_build.log 2>&1
rc=$?
tail -5 build/coq_build.log
if [ $rc -ne 0 ]; then echo "coq build failed (see build/coq_build.log)"; fi
for f in ocaml/C*_run.ml; do
  p=$(basename "$f" _run.ml)
  lib/mlbuild.sh "$p" || { echo "model driver $p failed"; rc=1; }
done
# warm the Go build cache for the harness packages (best effort)
python3 lib/warm.py >/dev/null 2>&1 || true
exit $rc
