"""C07 — hostile or malformed packets never crash or wedge the control plane.

One case = one call of one packet-parsing entry point:   <entry> <n1,n2,..|-> <hex|-> [<hex|-> ...]
The Go harnesses (one per package, injected with -overlay) run the call under recover() and a watchdog and print
the projected parse result; the extracted Coq model prints its result for the same bytes; lines must be equal.
Entries whose name starts with "fz" are third-party decoders / whole-session paths that are fuzzed for crashes
only (supporting validation, no model, no theorem) — except fzsess, for which the model still predicts the
dispatcher's panic.
"""
import hashlib
import hmac as _hmac
import itertools
import struct

ID = "C07"
MODEL_NEEDS_IMPL = True    # only to accept either admissible outcome where the model marks an input "may ignore"
# single model variant: both recorded findings are fixed in /repo (7065ffb, 890d5a0); a regression to the old panics is a VIOLATION

_H = "harness/C07/"


def _h(name, pkg, suffix):
    return dict(name=name, pkg=pkg, test="TestVerifC07", timeout=900,
                files=[(pkg.lstrip("./") + "zz_verif_c07_common_test.go", _H + "zz_verif_c07_common_%s_test.go" % suffix),
                       (pkg.lstrip("./") + "zz_verif_c07_test.go", _H + "zz_verif_c07_%s_test.go" % suffix)])


HARNESSES = [
    _h("disp", "./internal/ppp/", "disp"),
    _h("ppp", "./pkg/ppp/", "ppp"),
    _h("tags", "./pkg/pppoe/", "tags"),
    _h("l2tp", "./pkg/l2tp/", "l2tp"),
    _h("dhcp6", "./pkg/dhcp6/", "dhcp6"),
    _h("relay", "./pkg/dhcp/relay/", "relay"),
    _h("dhcp", "./pkg/dhcp/", "dhcp"),
    _h("dhcp4", "./pkg/dhcp4/", "dhcp4"),
    _h("ipoe", "./internal/ipoe/", "ipoe"),
    _h("sess", "./internal/pppoe/", "sess"),
    _h("radius", "./plugins/auth/radius/", "radius"),
    _h("shm", "./pkg/dataplane/shm/", "shm"),
    _h("local", "./plugins/dhcp4/local/", "local"),
    _h("il2tp", "./internal/l2tp/", "il2tp"),
]
ROUTE = {
    "disp": "disp",
    "ppphdr": "ppp", "pppopts": "ppp", "papreq": "ppp", "papmsg": "ppp", "chapchal": "ppp", "chapresp": "ppp", "echo": "ppp",
    "rtopts": "ppp", "papbld": "ppp", "chapbld": "ppp",
    "tags": "tags", "bldtags": "tags", "cookie": "tags", "chalresp": "l2tp", "bldavp": "l2tp", "bldl2": "l2tp", "bldrelay": "relay", "bld82": "relay", "bldd6": "dhcp6", "bldd4": "local",
    "l2hdr": "l2tp", "l2avp": "l2tp", "l2v3": "l2tp",
    "d6msg": "dhcp6", "d6relay": "dhcp6", "d6reply": "dhcp6",
    "o82ins": "relay", "o82strip": "relay", "setopt": "relay", "getopt": "relay", "v6unwrap": "relay", "v6txid": "relay",
    "v6duid": "relay", "v6repl": "relay", "v6life": "relay", "gihops": "relay",
    "d4parse": "dhcp", "sub82p": "dhcp",
    "d4msg": "dhcp4",
    "sub82": "ipoe",
    "sesspap": "sess", "sesschap": "sess", "fzsess": "sess", "fzseq": "sess", "bkdhcp6": "sess", "bkrakick": "sess", "bkevd6": "sess", "bkevra": "sess", "bkevl2": "ipoe", "bkpadr": "sess",
    "bkl2gw": "ipoe",
    "attr80": "radius", "fzrad": "radius", "radreply": "radius", "radreqauth": "radius", "radma": "radius", "coaattrs": "radius", "radex": "radius", "radparse": "radius",
    "ipoeopts": "ipoe", "l2ppp": "il2tp", "fzipoe": "ipoe", "l2dg": "il2tp", "l2seq": "il2tp",
    "fzgopkt": "shm",
}
MODELLED = sorted(k for k in ROUTE if not k.startswith("fz") and not k.startswith("bk") and not (k.startswith("bld") and k not in ("papbld", "chapbld")) and k != "radex")
BUILDERS = sorted(k for k in ROUTE if k.startswith("bld"))
SCENARIOS = sorted(k for k in ROUTE if k.startswith("bk"))
FUZZ_ONLY = sorted(k for k in ROUTE if k.startswith("fz"))


def route(case):
    return ROUTE.get(case.split(" ", 1)[0], "disp")


RULE = ("backlog scenarios (bkdhcp6/bkrakick/bkl2gw): bursts of N = 1..40 well-formed frames against each bounded worker pool / "
        "hand-off queue of internal/pppoe and internal/ipoe while its consumer is held, every handler call under a 1.5 s "
        "watchdog, then LCP echo, then release and drain; compared with the pool automaton.  Per entry point (%d modelled + %d crash-fuzz-only): (1) every byte string of length <= 1 and every length-2 string "
        "over 20 boundary bytes (thorough: all 65536 length-2 strings for the small PPP/L2TP/tag parsers); (2) structurally valid "
        "messages built by an independent Python encoder, then for every length/offset field of the message every value "
        "0..255 of a 1-byte field and {0..len+6, 255,256,1023,1024,0x7fff,0x8000,0xfffe,0xffff} (thorough: all 65536) of a 2-byte "
        "field; (3) truncation of each valid message at every length; (4) random mutation streams (bit flips, byte "
        "overwrite with boundary values, insert, delete, splice two messages, length-field skew) and pure random strings up "
        "to 1500 bytes; (5) for the PPP dispatcher every (protocol, phase, FSM-installed, IPv6CP-open) combination and every "
        "declared length 0..len+3 on every protocol.  Non-trivial = the call got past the first length check (not the "
        "'too short' error); distinct by case text." % (len(MODELLED), len(FUZZ_ONLY)))
TRUSTED = ["byte strings are handed to Go as slices with len == cap, the strictest setting for slice expressions",
           "third-party decoders (gopacket, layeh radius.Parse) and the whole-session path (fzsess/fzgopkt/fzrad) are only "
           "fuzzed for crashes: not modelled, no theorem",
           "CHAP MD5 digests enter the model as an oracle argument computed by Python's hashlib"]
ASSUMPTIONS = ["Go slices presented to the parsers have no spare capacity beyond len (worst case for panics)",
               "deliveries into the LCP/IPCP/IPv6CP automata are not observable at the dispatcher; only callbacks are compared"]

BOUND = [0, 1, 2, 3, 4, 5, 6, 7, 8, 9, 12, 13, 16, 18, 25, 26, 37, 80, 82, 254, 255]
B16 = [255, 256, 1023, 1024, 0x7fff, 0x8000, 0xfffe, 0xffff]


def hx(b):
    return bytes(b).hex() if len(b) else "-"


def case(entry, nums, *bs):
    return " ".join([entry, ",".join(str(x) for x in nums) if nums else "-"] + [hx(b) for b in bs])


def be16(n):
    return struct.pack(">H", n & 0xffff)


def be32(n):
    return struct.pack(">I", n & 0xffffffff)


# ---------------------------------------------------------------- independent encoders (return bytes, length-field list)
# a length field is (offset, width)
def tlv8(items, lenincl=0):
    """type(1) len(1) value; lenincl=2 for PPP options (length counts the header)."""
    out, lf = b"", []
    for t, v in items:
        lf.append((len(out) + 1, 1))
        out += bytes([t, (len(v) + lenincl) & 0xff]) + v
    return out, lf


def tlv16(items):
    out, lf = b"", []
    for t, v in items:
        lf.append((len(out) + 2, 2))
        out += be16(t) + be16(len(v)) + v
    return out, lf


def shift(lf, k):
    return [(o + k, w) for o, w in lf]


def rb(rng, n):
    return bytes(rng.randrange(256) for _ in range(n))


def ppp_frame(code, ident, data):
    return bytes([code, ident]) + be16(4 + len(data)) + data, [(2, 2)]


def gen_ppp_opts(rng):
    items = []
    for _ in range(rng.randint(0, 5)):
        items.append((rng.choice([1, 2, 3, 5, 7, 8, 129, 131, rng.randrange(256)]), rb(rng, rng.choice([0, 1, 2, 3, 4, 8, rng.randint(0, 40)]))))
    return tlv8(items, 2)


def gen_pap(rng):
    u, p = rb(rng, rng.choice([0, 1, 5, 8, rng.randint(0, 60)])), rb(rng, rng.choice([0, 1, 6, rng.randint(0, 60)]))
    return bytes([len(u)]) + u + bytes([len(p)]) + p + rb(rng, rng.choice([0, 0, 3])), [(0, 1), (1 + len(u), 1)]


def gen_chap(rng, n=None):
    v = rb(rng, rng.choice([0, 1, 16, 16, 16, rng.randint(0, 49)]) if n is None else n)
    return bytes([len(v)]) + v + rb(rng, rng.choice([0, 1, 4, 9])), [(0, 1)]


def gen_tags(rng):
    items = []
    for _ in range(rng.randint(0, 6)):
        t = rng.choice([0x0101, 0x0102, 0x0103, 0x0104, 0x0105, 0x0110, 0x0120, 0x0201, 0x0202, 0x0203, 0x0000, 0x0106, rng.randrange(65536)])
        if t == 0x0120:
            v = rng.choice([be16(1492), be16(1500), be16(1491), be16(0xffff), b"\x05", b"\x05\xd4\x00", b""])
        elif t == 0x0105:
            sub, _ = tlv8([(rng.choice([1, 2, 3, 0x81]), rb(rng, rng.randint(0, 12))) for _ in range(rng.randint(0, 4))])
            v = rng.choice([be32(0xde9), be32(9), be32(0xde9), be32(rng.randrange(1 << 32)), b"\x00\x00\x0d"]) + sub
            if rng.random() < 0.2:
                v = v[:rng.randint(0, len(v))]
        else:
            v = rb(rng, rng.choice([0, 1, 2, 8, 12, rng.randint(0, 64)]))
        items.append((t, v))
    b, lf = tlv16(items)
    # sub-option length fields inside vendor tags are 1-byte fields as well
    off = 0
    for t, v in items:
        if t == 0x0105 and len(v) > 5:
            lf.append((off + 4 + 5, 1))
        off += 4 + len(v)
    return b, lf


def gen_l2hdr(rng):
    T, L, S, O, P = [rng.random() < p for p in (0.6, 0.6, 0.6, 0.3, 0.2)]
    ver = rng.choice([2, 2, 2, 3, 0, 15])
    flags = (T << 15) | (L << 14) | (S << 11) | (O << 9) | (P << 8) | ver
    if rng.random() < 0.05:
        flags |= rng.choice([0x2000, 0x1000, 0x0400, 0x0080, 0x0010])
    body = rb(rng, rng.choice([0, 0, 1, 8, 20, rng.randint(0, 80)]))
    pad = rb(rng, rng.choice([0, 0, 1, 2, 7])) if O else b""
    n = 2 + (2 if L else 0) + 4 + (4 if S else 0) + ((2 + len(pad)) if O else 0) + len(body)
    out, lf = be16(flags), [(0, 2)]
    if L:
        lf.append((len(out), 2))
        out += be16(n + rng.choice([0, 0, 0, 0, -1, 1, -len(body)]))
    out += rb(rng, 4)
    if S:
        out += rb(rng, 4)
    if O:
        lf.append((len(out), 2))
        out += be16(len(pad)) + pad
    return out + body, lf


def gen_avps(rng):
    out, lf = b"", []
    for i in range(rng.randint(0, 6)):
        v = rb(rng, rng.choice([0, 2, 2, 4, 16, rng.randint(0, 40)]))
        m, h = rng.random() < 0.5, rng.random() < 0.15
        vid, ty = rng.choice([0, 0, 0, 9, 3561]), rng.choice([0, 1, 2, 3, 7, 9, 36, 36, 14, rng.randrange(65536)])
        fl = (m << 15) | (h << 14) | (6 + len(v))
        if rng.random() < 0.04:
            fl |= rng.choice([0x2000, 0x1000, 0x0800, 0x0400])
        lf.append((len(out), 2))
        out += be16(fl) + be16(vid) + be16(ty) + v
    return out, lf


def gen_ia(rng, pd):
    subs = []
    for _ in range(rng.randint(0, 3)):
        if pd:
            t = rng.choice([26, 26, 5, 13])
            v = rb(rng, rng.choice([25, 25, 24, 26, 29, 0, 12]))
        else:
            t = rng.choice([5, 5, 26, 13])
            v = rb(rng, rng.choice([24, 24, 23, 25, 28, 0, 12]))
        subs.append((t, v))
    sb, lf = tlv16(subs)
    head = rb(rng, rng.choice([12, 12, 12, 11, 4, 0]))
    return head + (sb if len(head) == 12 else b""), (shift(lf, 12) if len(head) == 12 else [])


def gen_d6opts(rng):
    items, inner_lf = [], []
    for _ in range(rng.randint(0, 7)):
        c = rng.choice([1, 2, 3, 25, 23, 18, 37, 79, 14, 13, 6, 8, rng.randrange(65536)])
        sub_lf = []
        if c == 3:
            v, sub_lf = gen_ia(rng, False)
        elif c == 25:
            v, sub_lf = gen_ia(rng, True)
        elif c == 23:
            v = rb(rng, rng.choice([16, 32, 15, 17, 0, 48]))
        elif c == 37:
            v = rb(rng, rng.choice([0, 3, 4, 5, 12]))
        elif c == 13:
            v = rb(rng, rng.choice([0, 1, 2, 3, 10]))
        elif c == 14:
            v = rb(rng, rng.choice([0, 0, 1]))
        else:
            v = rb(rng, rng.choice([0, 1, 6, 10, 14, rng.randint(0, 40)]))
        items.append((c, v, sub_lf))
    out, lf = b"", []
    for c, v, sub_lf in items:
        lf.append((len(out) + 2, 2))
        lf += shift(sub_lf, len(out) + 4 + 0)
        out += be16(c) + be16(len(v)) + v
    return out, lf


def gen_d6msg(rng, mt=None):
    o, lf = gen_d6opts(rng)
    mt = rng.choice([1, 2, 3, 5, 7, 11]) if mt is None else mt
    return bytes([mt]) + rb(rng, 3) + o, shift(lf, 4)


def gen_d6relay(rng, mtype, depth=None):
    depth = rng.choice([1, 1, 2, 3, 6]) if depth is None else depth
    if depth == 0:
        return gen_d6msg(rng) if rng.random() < 0.9 else (rb(rng, rng.randint(0, 3)), [])
    inner, ilf = gen_d6relay(rng, mtype, depth - 1)
    pre = []
    for _ in range(rng.randint(0, 2)):
        c = rng.choice([18, 37, 79, 38, 1])
        pre.append((c, rb(rng, rng.choice([0, 4, 5, 8]))))
    post = [(rng.choice([18, 37, 9]), rb(rng, rng.choice([0, 4, 6])))] if rng.random() < 0.2 else []
    pb, plf = tlv16(pre)
    qb, qlf = tlv16(post)
    head = bytes([mtype, rng.randrange(33)]) + rb(rng, 32)
    if rng.random() < 0.1:
        out = head + pb + qb
        return out, shift(plf, 34) + shift(qlf, 34 + len(pb))
    rm = be16(9) + be16(len(inner)) + inner
    out = head + pb + rm + qb
    lf = shift(plf, 34) + [(34 + len(pb) + 2, 2)] + shift(ilf, 34 + len(pb) + 4) + shift(qlf, 34 + len(pb) + len(rm))
    return out, lf


def gen_dhcp4(rng, opts=None, magic=True):
    hl = rng.choice([6, 6, 6, 0, 16, 17, 255])
    head = bytes([rng.choice([1, 2]), 1, hl, rng.randrange(4)]) + rb(rng, 4) + rb(rng, 2) + rng.choice([b"\x00\x00", b"\x80\x00"]) + rb(rng, 16) + rb(rng, 16) + bytes(64) + bytes(128)
    assert len(head) == 236
    if opts is None:
        items = []
        for _ in range(rng.randint(0, 8)):
            c = rng.choice([53, 54, 50, 12, 61, 51, 1, 3, 6, 82, 82, 55, 58, 59, 0, 255, rng.randrange(256)])
            if c == 0:
                items.append((0, None))
                continue
            if c == 255:
                items.append((255, None))
                continue
            if c == 82:
                v, _ = tlv8([(rng.choice([1, 2, 10, 9]), rb(rng, rng.randint(0, 10))) for _ in range(rng.randint(0, 3))])
                if rng.random() < 0.2:
                    v = v[:rng.randint(0, len(v))]
            elif c == 6:
                v = rb(rng, rng.choice([4, 8, 12, 3, 5, 0]))
            else:
                v = rb(rng, rng.choice([4, 4, 1, 0, 3, 5, 7, rng.randint(0, 30)]))
            items.append((c, v))
        ob, lf = b"", []
        for c, v in items:
            if v is None:
                ob += bytes([c])
            else:
                lf.append((len(ob) + 1, 1))
                ob += bytes([c, len(v)]) + v
        if rng.random() < 0.7:
            ob += b"\xff"
        if rng.random() < 0.3:
            ob += bytes(rng.randint(1, 6))
    else:
        ob, lf = opts
    mg = b"\x63\x82\x53\x63" if magic else rb(rng, 4)
    return head + mg + ob, [(2, 1)] + shift(lf, 240)


def gen_radius(rng):
    items = []
    for _ in range(rng.randint(0, 6)):
        t = rng.choice([1, 4, 8, 31, 44, 80, 80, 6, 55, 26, 33, 101, rng.randrange(256)])
        if t == 80:
            v = rb(rng, rng.choice([16, 16, 16, 15, 17, 0]))
        elif t in (6, 55, 8):
            v = rb(rng, rng.choice([4, 4, 3, 5]))
        else:
            v = rb(rng, rng.choice([0, 1, 4, 6, 16, rng.randint(0, 40)]))
        items.append((t, v))
    ab, lf = tlv8(items, 2)
    code = rng.choice([43, 40, 2, 3, 1, 11])
    n = 20 + len(ab)
    return bytes([code, rng.randrange(256)]) + be16(n + rng.choice([0, 0, 0, 0, 1, -1])) + rb(rng, 16) + ab, [(2, 2)] + shift(lf, 20)


SECRET = b"secret"


def py_attr80(raw):
    """independent re-implementation of the Message-Authenticator search (offset of the value or None)"""
    if len(raw) < 20:
        return None
    i = 20
    while i + 2 <= len(raw):
        t, l = raw[i], raw[i + 1]
        if l < 2 or i + l > len(raw):
            return None
        if t == 80 and l == 18:
            return i + 2
        i += l
    return None


def rad_reply_oracles(raw, reqauth):
    """digests isAuthenticReply compares with: (MD5 response authenticator, HMAC-MD5 message authenticator)"""
    if len(raw) < 20:
        return b"", b""
    length = (raw[2] << 8) | raw[3]
    if length < 20 or length > len(raw):
        return b"", b""
    r = raw[:length]
    d1 = hashlib.md5(r[:4] + reqauth + r[20:] + SECRET).digest()
    off = py_attr80(r)
    d2 = b""
    if off is not None:
        tmp = bytearray(r)
        tmp[4:20] = reqauth
        tmp[off:off + 16] = bytes(16)
        d2 = _hmac.new(SECRET, bytes(tmp), hashlib.md5).digest()
    return d1, d2


def rad_sign_reply(raw, reqauth, rng):
    """make a structurally valid reply authentic (most of the time)"""
    if len(raw) < 20:
        return raw
    raw = bytearray(raw)
    raw[2:4] = be16(len(raw))
    off = py_attr80(bytes(raw))
    if off is not None:
        tmp = bytearray(raw)
        tmp[4:20] = reqauth
        tmp[off:off + 16] = bytes(16)
        raw[off:off + 16] = _hmac.new(SECRET, bytes(tmp), hashlib.md5).digest()
    raw[4:20] = hashlib.md5(bytes(raw[:4]) + reqauth + bytes(raw[20:]) + SECRET).digest()
    return bytes(raw)


def rad_coa_oracles(raw):
    d_req = hashlib.md5(raw[:4] + bytes(16) + raw[20:] + SECRET).digest() if len(raw) >= 20 else b""
    off = py_attr80(raw)
    d_ma = b""
    if off is not None:
        tmp = bytearray(raw)
        tmp[4:20] = bytes(16)
        tmp[off:off + 16] = bytes(16)
        d_ma = _hmac.new(SECRET, bytes(tmp), hashlib.md5).digest()
    return d_req, d_ma


def rad_sign_coa(raw):
    if len(raw) < 20:
        return raw
    raw = bytearray(raw)
    raw[2:4] = be16(len(raw))
    off = py_attr80(bytes(raw))
    if off is not None:
        tmp = bytearray(raw)
        tmp[4:20] = bytes(16)
        tmp[off:off + 16] = bytes(16)
        raw[off:off + 16] = _hmac.new(SECRET, bytes(tmp), hashlib.md5).digest()
    raw[4:20] = hashlib.md5(bytes(raw[:4]) + bytes(16) + bytes(raw[20:]) + SECRET).digest()
    return bytes(raw)


def eth_frames(rng):
    """a few well-formed frames for the gopacket fuzz (supporting validation only)."""
    mac = b"\xaa\x42\xa1\x0a\x54\x97\x52\x54\x00\x11\x22\x33"
    q = b"\x81\x00\x00\x64"
    d4, _ = gen_dhcp4(rng)
    udp = be16(68) + be16(67) + be16(8 + len(d4)) + b"\x00\x00" + d4
    ip = b"\x45\x00" + be16(20 + len(udp)) + b"\x00\x00\x00\x00\x40\x11\x00\x00" + bytes(4) + b"\xff\xff\xff\xff" + udp
    f1 = mac + q + b"\x08\x00" + ip
    tg, _ = gen_tags(rng)
    f2 = mac + q + b"\x88\x63" + b"\x11\x09\x00\x00" + be16(len(tg)) + tg
    pp, _ = ppp_frame(1, 1, gen_ppp_opts(rng)[0])
    f3 = mac + q + b"\x88\x64" + b"\x11\x00\x00\x01" + be16(2 + len(pp)) + b"\xc0\x21" + pp
    d6, _ = gen_d6msg(rng)
    udp6 = be16(546) + be16(547) + be16(8 + len(d6)) + b"\x00\x00" + d6
    ip6 = b"\x60\x00\x00\x00" + be16(len(udp6)) + b"\x11\x40" + b"\xfe\x80" + bytes(14) + b"\xff\x02" + bytes(11) + b"\x01\x00\x02" + udp6
    f4 = mac + q + b"\x86\xdd" + ip6
    arp = mac + q + b"\x08\x06" + b"\x00\x01\x08\x00\x06\x04\x00\x01" + rb(rng, 20)
    return [(1, f1), (4, f2), (5, f3), (2, f4), (3, arp), (6, f4), (7, f1)]


# ---------------------------------------------------------------- mutation machinery
def field_values(width, msglen, tier):
    if width == 1:
        return range(256)
    if tier == "thorough_all":
        return range(65536)
    return sorted(set(list(range(0, min(msglen + 7, 65536))) + B16))


def set_field(b, off, width, val):
    if off + width > len(b):
        return None
    return b[:off] + (bytes([val & 0xff]) if width == 1 else be16(val)) + b[off + width:]


def mutate(rng, b, lf, pool):
    b = bytearray(b)
    for _ in range(rng.choice([1, 1, 1, 2, 3, 6])):
        k = rng.randrange(8)
        if k == 0 and b:
            i = rng.randrange(len(b))
            b[i] ^= 1 << rng.randrange(8)
        elif k == 1 and b:
            b[rng.randrange(len(b))] = rng.choice(BOUND)
        elif k == 2:
            i = rng.randint(0, len(b))
            b[i:i] = rb(rng, rng.choice([1, 1, 2, 4]))
        elif k == 3 and b:
            i = rng.randrange(len(b))
            del b[i:i + rng.choice([1, 1, 2, 4])]
        elif k == 4 and lf:
            o, w = rng.choice(lf)
            if o + w <= len(b):
                cur = b[o] if w == 1 else (b[o] << 8) | b[o + 1]
                nv = (cur + rng.choice([-5, -4, -3, -2, -1, 1, 2, 3, 4, 5, 16, 255])) % (256 if w == 1 else 65536)
                b[o:o + w] = bytes([nv]) if w == 1 else be16(nv)
        elif k == 5 and pool:
            o = rng.choice(pool)
            i, j = rng.randint(0, len(b)), rng.randint(0, len(o))
            b = bytearray(bytes(b[:i]) + o[j:])
        elif k == 6 and b:
            b = b[:rng.randint(0, len(b))]
        elif k == 7 and lf:
            o, w = rng.choice(lf)
            if o + w <= len(b):
                b[o:o + w] = rng.choice([b"\x00", b"\xff", b"\x01", b"\x02", b"\x03"]) if w == 1 else be16(rng.choice(B16 + [0, 1, 2, 3, 4, 5, 6]))
    return bytes(b)


def family(rng, tier, gen, n_valid, n_mut, emit, all16=False, nsweep_quick=3):
    """emit(bytes) for: valid messages, every value of every length field, every truncation, mutation stream."""
    pool = []
    msgs = [gen(rng) for _ in range(n_valid)]
    for b, lf in msgs:
        pool.append(b)
        emit(b)
    # field sweeps and truncations on the first few (smallest first to keep the volume bounded)
    sweep = sorted(msgs, key=lambda m: len(m[0]))
    nsweep = nsweep_quick if tier == "quick" else 10
    step = max(1, len(sweep) // nsweep)
    for b, lf in sweep[::step][:nsweep]:
        for o, w in lf[: (6 if tier == "quick" else 40)]:
            for v in field_values(w, len(b), "thorough_all" if (all16 and tier != "quick") else tier):
                m = set_field(b, o, w, v)
                if m is not None:
                    emit(m)
        for k in range(len(b)):
            emit(b[:k])
    for _ in range(n_mut):
        b, lf = rng.choice(msgs)
        emit(mutate(rng, b, lf, pool))


def short_strings(tier, full2):
    yield b""
    for a in range(256):
        yield bytes([a])
    alpha = range(256) if (full2 and tier != "quick") else BOUND
    for a in alpha:
        for b in alpha:
            yield bytes([a, b])


def chap_expected(ident, challenge, response_ok, rng):
    d = hashlib.md5(bytes([ident]) + b"s3cret" + challenge).digest()
    return d


# ---------------------------------------------------------------- the generator
def gen_cases(rng, tier, budget):
    q = tier == "quick"
    scale = 1 if q else 12
    if budget:
        scale = max(1, budget // 1000)
    out = []
    add = out.append
    nv, nm = 30 * scale, 350 * scale

    # --- PPP dispatcher -------------------------------------------------------------------------------------------
    protos = [0xc021, 0xc023, 0xc223, 0x8021, 0x8057, 0x0057, 0x0021, 0xc025, 0x0000, 0xffff]
    # every ppp.Phase value (0 Authenticate, 1 Network, 2 Open, 3 no PhaseFn, 4 Dead, 5 Establish, 6 Terminate, 7 LAC pending,
    # 8 LAC tunneled) x automata absent / fresh / Opened x IPv6CP open
    cfgs = [(ph, v6, fsm) for ph in range(9) for (v6, fsm) in ((0, 0), (0, 1), (1, 1), (1, 2))]
    bodies = [b"", b"\x01", b"\x00\x21", b"\xc0\x21\x00", b"\x01\x04\x05\xdc", bytes(range(8)), b"\x05\x06\x01\x02\x03\x04\x03\x05\xc2\x23\x05"]
    for p in protos:
        for (net, v6, fsm) in cfgs:
            for code in ([1, 2, 3, 4, 5, 6, 7, 8, 9, 10, 11, 12, 0, 255] if p == 0xc021 else [1, 2, 3, 4, 0]):
                body = bodies[(code + net) % len(bodies)]
                fr, _ = ppp_frame(code, 7, body)
                add(case("disp", [p, net, v6, fsm], fr))
        # every declared length 0..len+3 (and the 16-bit boundary values) for several payload lengths
        for body in bodies:
            for code in (1, 9, 8):
                fr, _ = ppp_frame(code, 1, body)
                for L in list(range(0, len(fr) + 4)) + B16:
                    add(case("disp", [p, 1, 1 if p == 0x57 else 0, 1], fr[:2] + be16(L) + fr[4:]))
                for k in range(len(fr)):
                    add(case("disp", [p, 1, 0, 0], fr[:k]))
    # DETERMINISTIC block (no rng): the class "a host callback receives a short payload".
    # (a) PPP-IPv6 (0x0057) in every dispatcher state, in particular wherever the callback is reachable (network / open phase or
    #     no PhaseFn, IPv6CP installed and Opened): every payload length 0..41, 60, 200 x version nibble {0,4,6,15} x
    #     {prefix of a well-formed IPv6/UDP/DHCPv6 datagram, filler bytes}.  Well-formed datagrams (len >= 40, nibble 6) have
    #     exactly one admissible outcome; the others may be dropped by a stricter dispatcher but must never crash it.
    wf6 = (b"\x60\x00\x00\x00" + be16(160) + b"\x11\x40" + b"\xfe\x80" + bytes(14) + b"\xff\x02" + bytes(11) + b"\x01\x00\x02"
           + be16(546) + be16(547) + be16(160) + b"\x00\x00" + b"\x01\x0a\x0b\x0c" + be16(1) + be16(10) + bytes(range(10)) + bytes(range(134)))
    assert len(wf6) == 200
    v6states = [(1, 1, 1), (2, 1, 1), (3, 1, 1), (1, 1, 2), (2, 1, 2), (0, 1, 1), (1, 0, 1), (1, 0, 0), (3, 0, 0),
                (4, 1, 1), (5, 1, 1), (6, 1, 1), (7, 1, 1), (8, 1, 2)]
    for n in list(range(0, 42)) + [60, 200]:
        for nib in (0, 4, 6, 15):
            for body in (wf6[:n], bytes((7 * i + 3) & 0xff for i in range(n))):
                pl = (bytes([(nib << 4) | (body[0] & 0x0f)]) + body[1:]) if n else b""
                for st in v6states:
                    add(case("disp", [0x57] + list(st), pl))
                add(case("fzsess", [0x57, 9], pl))                 # the session's real handleIPv6Packet, IPv6CP Opened
                add(case("l2ppp", [1, 1, 1], b"\x00\x57" + pl))
    # (b) every other protocol the dispatcher hands to a host callback: IPv4 0x0021 and an unassigned protocol (Protocol-Reject
    #     callback gets the whole payload), PAP, CHAP, LCP Echo-Request / Echo-Reply / Protocol-Reject, with every data length
    #     0..12 and the declared length equal to, below and above what is present
    for proto, codes in ((0x0021, (1,)), (0x1234, (1,)), (0xc023, (1, 2, 3)), (0xc223, (1, 2, 3, 4)), (0xc021, (8, 9, 10))):
        for code in codes:
            for n in range(0, 13):
                data = bytes((5 * i + 1) & 0xff for i in range(n))
                for decl in sorted({4 + n, 4, max(0, 3 + n), 5 + n, 0}):
                    fr = bytes([code, 7]) + be16(decl) + data
                    for st in ((1, 0, 0), (0, 0, 1), (2, 1, 2), (6, 1, 2), (7, 0, 1)):
                        add(case("disp", [proto] + list(st), fr))
                    add(case("fzsess", [proto, 3], fr))
                    add(case("fzsess", [proto, 9], fr))
                for k in range(0, 4):                               # shorter than the 4-byte header
                    add(case("disp", [proto, 1, 0, 1], (bytes([code, 7]) + be16(4 + n))[:k]))
    for s in short_strings(tier, True):
        add(case("l2ppp", [1, 0, 0], s))
        add(case("l2ppp", [1, 0, 1], b"\xff\x03" + s))
        add(case("disp", [0xc021, 1, 0, 0], s))
        if len(s) < 2 or q:
            add(case("disp", [0xc223, 0, 0, 1], s))
    if not q:
        for L in range(65536):
            add(case("disp", [0xc021, 1, 0, 1], b"\x01\x01" + be16(L) + b"\x01\x04\x05\xdc"))

    def disp_emit(b):
        add(case("disp", [rng.choice(protos), rng.randrange(9), 0, rng.choice([0, 1, 2])], b))
        pre = rng.choice([b"", b"\xff\x03", b"\xff", b"\xff\x03\xff\x03"])
        add(case("l2ppp", [rng.randrange(2), rng.randrange(2), rng.randrange(2)], pre + be16(rng.choice(protos)) + b))
        add(case("fzsess", [rng.choice(protos[:6]), rng.choice([1, 2, 3, 4])], b))
    family(rng, tier, lambda r: ppp_frame(r.choice([1, 2, 3, 4, 5, 6, 7, 8, 9, 10, 11, 13]), r.randrange(256), gen_ppp_opts(r)[0] if r.random() < 0.7 else rb(r, r.randint(0, 12))),
           nv, nm, disp_emit)
    # whole-session path with the session's own PAP/CHAP/echo/protocol-reject handlers (crash check)
    for p, ph in itertools.product([0xc021, 0xc023, 0xc223, 0x8021, 0x8057, 0x0057, 0x1234], [1, 2, 3, 4]):
        for code in range(0, 14):
            for body in (b"", b"\x00", b"\x05user1\x04pass", b"\x10" + bytes(16) + b"name", b"\x80\x21", b"\xff" * 5):
                fr, _ = ppp_frame(code, 3, body)
                add(case("fzsess", [p, ph], fr))
                add(case("fzsess", [p, ph], fr[:2] + be16(len(fr) - 1 if len(fr) > 4 else len(fr)) + fr[4:]))

    # --- SEQUENCES: one session driven through its phases by valid frames, then mutated frames in every phase -------
    def lcp_req(i):
        return b"\x00\xc0\x21" + ppp_frame(1, i, b"\x01\x04\x05\xd4\x05\x06" + rb(rng, 4))[0]
    def ncp_req(proto, i):
        body = b"\x03\x06\x00\x00\x00\x00" if proto == 0x8021 else b"\x01\x0a" + rb(rng, 8)
        return b"\x00" + be16(proto) + ppp_frame(1, i, body)[0]
    def hostile(k):
        """mutated / malformed frames for any phase"""
        out = []
        for _ in range(k):
            p = rng.choice([0xc021, 0xc021, 0xc023, 0xc223, 0x8021, 0x8057, 0x0057, 0x1234])
            fr, lf = ppp_frame(rng.choice([1, 2, 3, 4, 5, 6, 7, 8, 9, 10, 11, 12, 0]), rng.randrange(256),
                               rng.choice([gen_ppp_opts(rng)[0], gen_pap(rng)[0], gen_chap(rng)[0], rb(rng, rng.randint(0, 40)), b""]))
            if rng.random() < 0.6:
                fr = mutate(rng, fr, lf, [])
            if p == 0x0057:
                d6 = gen_d6msg(rng)[0]
                udp6 = be16(546) + be16(547) + be16(8 + len(d6)) + b"\x00\x00" + d6
                fr = b"\x60\x00\x00\x00" + be16(len(udp6)) + b"\x11\x40" + b"\xfe\x80" + bytes(14) + b"\xff\x02" + bytes(11) + b"\x01\x00\x02" + udp6
                if rng.random() < 0.5:
                    fr = mutate(rng, fr, [(4, 2), (44, 2)], [])
            out.append(b"\x00" + be16(p) + fr)
        return out
    for _ in range(250 * scale):
        steps = []
        steps += hostile(rng.randint(0, 2))                                  # Establish
        steps += [lcp_req(1), b"\x01\xc0\x21"] if rng.random() < 0.85 else [b"\x02\xc0\x21", lcp_req(2)]
        steps += hostile(rng.randint(0, 3))                                  # Authenticate (CHAP challenge outstanding)
        r = rng.random()
        if r < 0.6:
            steps += [b"\x03" + rb(rng, 16) + b"user@isp"]
        elif r < 0.8:
            steps += [b"\x00\xc0\x23" + ppp_frame(1, 9, gen_pap(rng)[0])[0]]
        steps += hostile(rng.randint(0, 2))
        steps += [b"\x05" + bytes([rng.choice([1, 1, 1, 0])])]             # AAA verdict
        steps += [b"\x04\x03", b"\x06"] if rng.random() < 0.8 else []    # Network, NCPs started
        steps += hostile(rng.randint(0, 2))
        steps += [ncp_req(0x8021, 1), b"\x01\x80\x21", ncp_req(0x8057, 1), b"\x01\x80\x57"][:rng.choice([0, 2, 4, 4])]
        steps += hostile(rng.randint(0, 3))                                  # Open
        steps += [b"\x00\xc0\x21" + ppp_frame(9, 5, rb(rng, rng.choice([0, 3, 4, 12])))[0]]
        steps += [b"\x00\xc0\x21" + ppp_frame(5, 6, b"")[0]] if rng.random() < 0.5 else [b"\x04\x05"]   # Terminate
        steps += hostile(rng.randint(0, 3))
        steps += [b"\x07"] if rng.random() < 0.5 else []
        steps += hostile(rng.randint(0, 2))
        add(case("fzseq", [rng.choice([1, 1, 1, 0, 2])], *steps))
    # IPoE: DISCOVER .. ACK, then mutated RELEASE / INFORM / DECLINE / relay-server frames on the same component
    def d4(mt, xid, mac, extra=b"", op=1):
        o = bytes([53, 1, mt]) + extra + b"\xff"
        return bytes([op, 1, 6, 0]) + xid + bytes(4) + bytes(16) + mac + bytes(10) + bytes(192) + b"\x63\x82\x53\x63" + o
    for _ in range(120 * scale):
        mac, xid = b"\xaa\xbb\xcc" + rb(rng, 3), rb(rng, 4)
        o82x = b"\x52\x0a\x01\x03abc\x02\x03xyz" if rng.random() < 0.4 else b""
        host = bytes([12, 4]) + b"cpe1" if rng.random() < 0.5 else b""
        steps = [d4(1, xid, mac, host + o82x)]
        steps += [d4(2, xid, mac, bytes([54, 4, 10, 0, 0, 1, 51, 4, 0, 0, 14, 16]), op=2)] if rng.random() < 0.6 else []
        steps += [d4(3, xid, mac, bytes([50, 4, 10, 0, 0, 9, 54, 4, 10, 0, 0, 1]) + o82x)]
        steps += [d4(5, xid, mac, bytes([54, 4, 10, 0, 0, 1, 51, 4, 0, 0, 14, 16]), op=2)] if rng.random() < 0.6 else []
        tail = []
        for _ in range(rng.randint(1, 5)):
            m = d4(rng.choice([7, 8, 4, 3, 1, 6, 5, 2, 0, 9]), rng.choice([xid, rb(rng, 4)]), rng.choice([mac, rb(rng, 6)]),
                   rng.choice([b"", o82x, host, bytes([50, 4]) + rb(rng, 4), bytes([82, 3, 1, 9, 1])]), op=rng.choice([1, 1, 2]))
            if rng.random() < 0.6:
                m = mutate(rng, m, [(2, 1), (241, 1), (244, 1)], [])
            tail.append(m)
        steps += tail
        add(case("fzipoe", [rng.randrange(2)], *steps))
    # --- pkg/ppp ---------------------------------------------------------------------------------------------------
    for which in (0, 1, 2):
        for s in short_strings(tier, which == 0):
            add(case("ppphdr", [which], s))
        for body in bodies:
            fr, _ = ppp_frame(1, 1, body)
            for L in list(range(0, len(fr) + 4)) + B16:
                add(case("ppphdr", [which], fr[:2] + be16(L) + fr[4:]))
            for k in range(len(fr)):
                add(case("ppphdr", [which], fr[:k]))
    if not q:
        for L in range(65536):
            add(case("ppphdr", [L % 3], b"\x01\x01" + be16(L) + b"\xaa\xbb"))
    family(rng, tier, lambda r: ppp_frame(r.randrange(16), r.randrange(256), rb(r, r.randint(0, 20))), nv, nm,
           lambda b: add(case("ppphdr", [rng.randrange(3)], b)))
    for s in short_strings(tier, True):
        add(case("pppopts", [], s))
        add(case("papreq", [1], s))
        add(case("papmsg", [len(s) % 2], s))
        add(case("chapchal", [len(s)], s))
        add(case("echo", [], s))
        add(case("sub82", [], s))
        add(case("sub82p", [], s))
    for a, b, c in itertools.product(BOUND[:12], repeat=3):
        add(case("pppopts", [], bytes([a, b, c])))
        add(case("papreq", [1], bytes([a, b, c])))
        add(case("sub82", [], bytes([a, b, c])))
    family(rng, tier, gen_ppp_opts, nv, nm, lambda b: (add(case("pppopts", [], b)), add(case("rtopts", [], b))))
    for _ in range(40 * scale):
        add(case("papbld", [], rb(rng, rng.choice([0, 1, 8, 255, 100])), rb(rng, rng.choice([0, 1, 8, 255, 30]))))
        add(case("chapbld", [], rb(rng, rng.choice([0, 1, 16, 255, 49])), rb(rng, rng.choice([0, 3, 9]))))
    family(rng, tier, gen_pap, nv, nm, lambda b: (add(case("papreq", [rng.randrange(256)], b)), add(case("sesspap", [rng.randrange(256)], b))))
    family(rng, tier, lambda r: (lambda m: (bytes([len(m)]) + m + rb(r, r.choice([0, 0, 2])), [(0, 1)]))(rb(r, r.choice([0, 1, 10, 30]))),
           nv, nm // 2, lambda b: add(case("papmsg", [rng.randrange(2)], b)))
    family(rng, tier, gen_chap, nv, nm // 2, lambda b: add(case("chapchal", [rng.randrange(256)], b)))
    family(rng, tier, lambda r: (rb(r, r.choice([0, 3, 4, 5, 12])), []), nv // 2, nm // 4, lambda b: add(case("echo", [], b)))

    def chapresp_emit(b):
        ident, chal = rng.randrange(256), rb(rng, 16)
        exp = hashlib.md5(bytes([ident]) + b"s3cret" + chal).digest()
        if rng.random() < 0.5 and len(b) >= 17 and b[0] == 16:
            b = b[:1] + exp + b[17:]          # a correct response
        add(case("chapresp", [ident], b, exp, chal))
        add(case("sesschap", [ident], b, exp))
    family(rng, tier, lambda r: gen_chap(r, r.choice([16, 16, 16, 15, 17, 0])), nv, nm, chapresp_emit)
    for s in short_strings("quick", False):
        chapresp_emit(s)

    # --- PPPoE tags --------------------------------------------------------------------------------------------------
    for s in short_strings(tier, False):
        add(case("tags", [], s))
    for ty in (0x0101, 0x0105, 0x0120, 0x0000, 0x0203):
        for L in list(range(0, 12)) + B16:
            for n in (0, 1, 2, 6, 10):
                add(case("tags", [], be16(ty) + be16(L) + b"\x00\x00\x0d\xe9\x01\x02ab\x02\x09"[:n]))
    # vendor-specific sub-option lengths: every (declared, actual) combination around the end of the tag
    for vid in (0xde9, 9, 0xdea):
        for st in (1, 2, 3):
            for actual in range(0, 8):
                for declared in list(range(0, actual + 4)) + [254, 255]:
                    v = be32(vid) + bytes([st, declared]) + bytes(range(0x61, 0x61 + actual))
                    add(case("tags", [], be16(0x0105) + be16(len(v)) + v))
                    add(case("tags", [], be16(0x0105) + be16(len(v)) + v + be16(0x0101) + be16(1) + b"x"))
                    v2 = be32(vid) + b"\x01\x02ab" + bytes([st, declared]) + bytes(range(0x61, 0x61 + actual))
                    add(case("tags", [], be16(0x0105) + be16(len(v2)) + v2))
    family(rng, tier, gen_tags, nv, 2 * nm, lambda b: add(case("tags", [], b)))

    # AC-Cookie validation: right / wrong length, stale / fresh timestamp, right / flipped HMAC (timestamps are fixed far in
    # the past / future so that the case list is the same on every run)
    # The key covers MAC (6 bytes), S-VLAN and C-VLAN: the presented (mac, svlan, cvlan) differs from the one the cookie was
    # issued for in exactly one component, each byte of the MAC and each VLAN in turn, plus matching ones.
    ck_key = b"c07-cookie-secret"
    def ck_sig(mac, sv, cv, tsb):
        return _hmac.new(ck_key, mac + be16(sv) + be16(cv) + tsb, hashlib.sha256).digest()
    def ck_case(ts, n=36, flip=None, good=True, issued=(b"\xaa\xbb\xcc\x00\x00\x01", 100, 0), shown=None):
        shown = shown or issued
        tsb = be32(ts)
        c = bytearray((ck_sig(issued[0], issued[1], issued[2], tsb) if good else rb(rng, 32)) + tsb)
        if flip is not None:
            c[flip] ^= 1
        c = bytes(c)[:n] if n <= 36 else bytes(c) + rb(rng, n - 36)
        d = ck_sig(shown[0], shown[1], shown[2], c[32:36]) if len(c) == 36 else b""
        fresh = 1 if len(c) == 36 and int.from_bytes(c[32:36], "big") >= 4000000000 else 0
        add(case("cookie", [fresh, shown[1], shown[2]], c, d, shown[0]))
    for ts in (4102444800, 4294967295, 1000, 0):
        ck_case(ts)
        ck_case(ts, good=False)
        for n in (0, 1, 31, 32, 35, 37, 40):
            ck_case(ts, n=n)
        for fl in (0, 17, 31):
            ck_case(ts, flip=fl)
    base_key = (b"\x02\x11\x22\x33\x44\x55", 0x0123, 0x0456)
    for keyv in (base_key, (b"\xfe\xdc\xba\x98\x76\x54", 4094, 4094), (b"\x00" * 6, 1, 0)):
        ck_case(4102444800, issued=keyv)
        for i in range(6):
            m2 = bytearray(keyv[0]); m2[i] ^= 0x01
            ck_case(4102444800, issued=keyv, shown=(bytes(m2), keyv[1], keyv[2]))
        for dv in (1, 0x100):
            ck_case(4102444800, issued=keyv, shown=(keyv[0], keyv[1] ^ dv, keyv[2]))
            ck_case(4102444800, issued=keyv, shown=(keyv[0], keyv[1], keyv[2] ^ dv))
        ck_case(4102444800, issued=keyv, shown=(keyv[0], keyv[2], keyv[1]))      # VLANs swapped
    for s2 in short_strings("quick", False):
        add(case("cookie", [0, 100, 0], s2, b"", b"\xaa\xbb\xcc\x00\x00\x01"))
    # L2TP challenge response: lengths around 16, right / wrong digest, trailing bytes
    cr_exp = hashlib.md5(bytes([3]) + b"secret" + b"0123456789abcdef").digest()
    for n in range(0, 20):
        add(case("chalresp", [], cr_exp[:n] + bytes(max(0, n - 16)), cr_exp))
        add(case("chalresp", [], rb(rng, n), cr_exp))
    add(case("chalresp", [], cr_exp + b"trailing", cr_exp))
    # --- L2TP ----------------------------------------------------------------------------------------------------------
    for s in short_strings(tier, True):
        add(case("l2v3", [], s))
        add(case("l2hdr", [], s))
        add(case("l2avp", [], s))
    for fl in range(0, 65536, 1 if not q else 257):
        add(case("l2hdr", [], be16(fl) + b"\x00\x0c\x00\x01\x00\x02\x00\x03\x00\x04\x00\x02\xaa\xbb\xcc\xdd"))
    for fl in list(range(0, 1100, 1 if not q else 7)) + [0x8006, 0x4006, 0xc008, 0x0400, 0x3c00, 0x8007]:
        add(case("l2avp", [], be16(fl) + b"\x00\x00\x00\x24" + bytes(6)))
        add(case("l2avp", [], b"\x80\x08\x00\x00\x00\x24\x01\x02" + be16(fl) + b"\x00\x00\x00\x07\x61\x62"))
    family(rng, tier, gen_l2hdr, nv, 2 * nm, lambda b: (add(case("l2hdr", [], b)), add(case("l2v3", [], b[:rng.randint(0, 4)]))), all16=True)
    family(rng, tier, gen_avps, nv, 2 * nm, lambda b: add(case("l2avp", [], b)), all16=True)

    # --- one L2TP datagram through internal/l2tp Dispatch: SCCRQ extraction, control routing, data path to a PPP session ---
    def l2avp(ty, v, m=1, vid=0):
        return be16((m << 15) | (6 + len(v))) + be16(vid) + be16(ty) + v
    def l2ctl(avps, tid=0, sid=0, ns=0, nr=0, ver=2, flags=0xc800):
        body = b"".join(avps)
        return be16(flags | ver) + be16(12 + len(body)) + be16(tid) + be16(sid) + be16(ns) + be16(nr) + body
    def l2data(tid, sid, payload, hdlc=False, withlen=False):
        h = be16((0x4000 if withlen else 0) | 2) + (be16(6 + 2 + len(payload) + (2 if hdlc else 0)) if withlen else b"") + be16(tid) + be16(sid)
        return h + (b"\xff\x03" if hdlc else b"") + payload
    AUTH = b"lac1"
    def l2dg_emit(b):
        add(case("l2dg", [], b, AUTH))
    for host in (AUTH, b"other", b"", b"lac1x"):
        for asg in (be16(4242), be16(0), b"\x07", b"", b"\x00\x01\x02", None):
            for extra in ([], [l2avp(11, rb(rng, 16))], [l2avp(10, be16(8))], [l2avp(10, b"\x08")], [l2avp(2, b"\x01\x00"), l2avp(8, b"vendor")]):
                avps = [l2avp(0, be16(1)), l2avp(7, host)] + ([l2avp(9, asg)] if asg is not None else []) + extra
                l2dg_emit(l2ctl(avps))
    for mt in list(range(0, 17)) + [0xffff]:
        l2dg_emit(l2ctl([l2avp(0, be16(mt)), l2avp(7, AUTH), l2avp(9, be16(5))]))
        l2dg_emit(l2ctl([l2avp(0, be16(mt)[:1]), l2avp(7, AUTH), l2avp(9, be16(5))]))
        l2dg_emit(l2ctl([l2avp(7, AUTH), l2avp(0, be16(mt)), l2avp(9, be16(5))]))
    l2dg_emit(l2ctl([]))                                             # ZLB
    l2dg_emit(l2ctl([l2avp(0, be16(1)), l2avp(7, AUTH), l2avp(9, be16(5))], ver=3))
    for (tid, sid) in ((7, 9), (7, 8), (6, 9), (0, 0)):
        for hd in (False, True):
            for wl in (False, True):
                for proto, fr in ((0xc021, ppp_frame(9, 1, b"\x01\x02\x03\x04")[0]), (0xc023, ppp_frame(1, 2, gen_pap(rng)[0])[0]),
                                  (0xc223, ppp_frame(2, 3, gen_chap(rng)[0])[0]), (0x0021, rb(rng, 20)), (0x1234, ppp_frame(1, 1, b"")[0]),
                                  (0xc021, b"\x01\x01\x00\x02")):
                    l2dg_emit(l2data(tid, sid, be16(proto) + fr, hd, wl))
    family(rng, tier, lambda r: (l2ctl([l2avp(0, be16(r.choice([1, 1, 2, 6, 10]))), l2avp(7, r.choice([AUTH, b"x"])), l2avp(9, rb(r, r.choice([2, 2, 1, 0])))] +
                                       [l2avp(r.choice([2, 3, 10, 11, 8]), rb(r, r.choice([0, 2, 4])))] * r.randrange(2)),
                                 [(2, 2), (12, 2), (20, 2)]),
           nv // 2, nm, l2dg_emit, nsweep_quick=2)
    family(rng, tier, lambda r: (l2data(7, 9, be16(r.choice([0xc021, 0xc023, 0xc223, 0x8021])) + ppp_frame(r.choice([1, 2, 8, 9, 10]), 1, rb(r, r.randint(0, 12)))[0],
                                        r.random() < 0.5, r.random() < 0.5), [(0, 2)]),
           nv // 2, nm // 2, l2dg_emit, nsweep_quick=2)
    for s2 in short_strings("quick", False):
        l2dg_emit(s2)
    # sequences against ONE LNS: tunnel bring-up, sessions, teardown, with hostile / out-of-role / malformed control messages
    def l2msg(mt, tid=0, sid=0, extra=(), first=None):
        return l2ctl([first if first is not None else l2avp(0, be16(mt))] + list(extra), tid=tid, sid=sid)
    def l2hostile(ntun):
        tid = rng.choice(list(range(0, ntun + 2)))
        sid = rng.choice([0, 1, 2, 3])
        k = rng.randrange(9)
        if k == 0:
            return l2msg(rng.choice([2, 11, 6, 5, 7, 9, 13, 15, 16, 0xffff]), tid, sid)           # wrong role / hello / unsupported
        if k == 1:
            return l2msg(10, tid, sid, [l2avp(14, rng.choice([b"", b"\x01", be16(7), b"\x00\x07\x09"]))])   # ICRQ, assigned id lengths
        if k == 2:
            return l2msg(rng.choice([3, 12, 14, 4]), tid, sid)                                     # SCCCN / ICCN / CDN / StopCCN out of order
        if k == 3:
            return l2ctl([], tid=tid, sid=sid)                                                     # ZLB
        if k == 4:
            return l2msg(1, 0, 0, [l2avp(7, rng.choice([AUTH, b"evil"])), l2avp(9, rng.choice([be16(rng.choice([4242, 7, 8])), b"\x01", b""]))])
        if k == 5:
            return mutate(rng, l2msg(rng.choice([1, 3, 10, 12]), tid, sid, [l2avp(7, AUTH), l2avp(9, be16(9)), l2avp(14, be16(3))]), [(2, 2), (12, 2)], [])
        if k == 6:
            return l2msg(3, tid, sid, first=l2avp(0, b"\x03"))                                    # message type AVP too short
        if k == 7:
            return l2data(tid, sid, be16(rng.choice([0xc021, 0xc023, 0xc223])) + ppp_frame(rng.choice([1, 9, 5]), 1, rb(rng, rng.randint(0, 8)))[0], rng.random() < 0.5)
        return rb(rng, rng.choice([1, 6, 12, 20]))
    for _ in range(60 * scale):
        steps, ntun = [], 0
        for _ in range(rng.randint(1, 3)):
            steps += [l2hostile(ntun) for _ in range(rng.randint(0, 2))]
            ptid = rng.choice([4242, 7, 8, 9])
            steps.append(l2msg(1, 0, 0, [l2avp(7, AUTH), l2avp(9, be16(ptid))] + ([l2avp(10, be16(4))] if rng.random() < 0.5 else [])))
            ntun += 1
            t = rng.randint(1, ntun)
            steps += [l2hostile(ntun) for _ in range(rng.randint(0, 2))]
            if rng.random() < 0.85:
                steps.append(l2msg(3, t))
            for _ in range(rng.randint(0, 3)):
                steps.append(l2msg(10, t, 0, [l2avp(14, be16(rng.randrange(1, 60000)))]))
                steps += [l2hostile(ntun) for _ in range(rng.randint(0, 1))]
                sidl = rng.choice([1, 1, 2, 3])
                if rng.random() < 0.8:
                    steps.append(l2msg(12, t, sidl))
                    steps.append(l2data(t, sidl, be16(0xc021) + ppp_frame(1, 1, b"\x01\x04\x05\xd4")[0]))
                if rng.random() < 0.4:
                    steps.append(l2msg(14, t, sidl))
            steps += [l2hostile(ntun) for _ in range(rng.randint(0, 2))]
            if rng.random() < 0.4:
                steps.append(l2msg(4, t))
                steps.append(l2msg(1, 0, 0, [l2avp(7, AUTH), l2avp(9, be16(ptid))]))               # delayed duplicate SCCRQ after teardown
        add(case("l2seq", [], AUTH, *steps))
    # --- DHCPv6 ----------------------------------------------------------------------------------------------------------
    for s in short_strings(tier, False):
        add(case("d6msg", [], s))
        add(case("d6msg", [], b"\x01\x00\x00\x01" + s))
    # IA_NA / IA_PD sub-options: every declared length around the minimum (24 / 25), as the last sub-option,
    # followed by more data, and truncated
    for code, sc in ((3, 5), (25, 26), (3, 26), (25, 5), (3, 13)):
        for sn in range(0, 34):
            for extra in (0, 1, 5):
                sub = be16(sc) + be16(sn) + bytes(range(1, sn + 1))
                for head in (12, 11, 13):
                    v = bytes(head) + sub + bytes(extra)
                    add(case("d6msg", [], b"\x03\x00\x00\x01" + be16(code) + be16(len(v)) + v))
                v = bytes(12) + sub
                add(case("d6msg", [], b"\x03\x00\x00\x01" + be16(code) + be16(len(v)) + v + be16(14) + be16(0)))
    for code in (23, 37, 13, 1, 18, 79, 14):
        for n in range(0, 36):
            add(case("d6msg", [], b"\x01\x00\x00\x01" + be16(code) + be16(n) + bytes(range(n))))
            add(case("d6msg", [], b"\x01\x00\x00\x01" + be16(code) + be16(n + 1) + bytes(range(n))))
    def d6_emit(b):
        add(case("d6msg", [], b))
        add(case("v6duid", [], b))
        add(case("v6repl", [], b, rng.choice([b"", rb(rng, 10), rb(rng, 14), rb(rng, 1)])))
        add(case("v6life", [rng.choice([0, 1, 3600, 0xffffffff]), rng.choice([0, 7200, 0xffffffff])], b))
    family(rng, tier, gen_d6msg, nv, 2 * nm, d6_emit)
    # nested IA options (IA inside IA inside IA ...) up to the MTU, server-id option lengths, short messages
    def ia_nest(depth, code):
        inner = ia_nest(depth - 1, code) if depth else be16(5) + be16(24) + bytes(24)
        v = bytes(12) + inner
        return be16(code) + be16(len(v)) + v
    for depth in (1, 2, 5, 20, 80):
        for code in (3, 25):
            m = b"\x07\x00\x00\x01" + ia_nest(depth, code)
            add(case("v6life", [3600, 7200], m[:1500]))
            add(case("v6life", [3600, 7200], m))
            add(case("d6msg", [], m))
    # every length field rewriteV6Options reads, at every value round its bounds (IA body 12, IAAddr 24, IAPrefix 8), the
    # sub-option at top level and inside IA_NA / IA_PD, declared length = actual and declared = actual + 1
    pat = bytes((7 * i + 3) & 0xff for i in range(64))
    for sub in (5, 26, 3, 25):
        for n in range(0, 31):
            o = be16(sub) + be16(n) + pat[:n]
            for outer in (None, 3, 25):
                body = o if outer is None else be16(outer) + be16(12 + len(o)) + pat[:12] + o
                add(case("v6life", [3600, 7200], b"\x07\x00\x00\x01" + body))
                add(case("v6life", [0xffffffff, 1], b"\x07\x00\x00\x01" + body[:-1]))
                add(case("d6msg", [], b"\x07\x00\x00\x01" + body))      # the same boundaries through dhcp6.ParseMessage
                add(case("d6msg", [], b"\x07\x00\x00\x01" + body[:-1]))
                if outer is not None:       # the outer IA declares one byte less / more than the sub-option needs
                    add(case("v6life", [5, 6], b"\x07\x00\x00\x01" + be16(outer) + be16(11 + len(o)) + pat[:12] + o))
                    add(case("v6life", [5, 6], b"\x07\x00\x00\x01" + be16(outer) + be16(13 + len(o)) + pat[:12] + o + b"\x00"))
    for n in range(0, 30):
        m = b"\x07\x00\x00\x01" + be16(2) + be16(n) + bytes(range(n))
        add(case("v6duid", [], m)); add(case("v6duid", [], m[:-1])); add(case("v6repl", [], m, bytes(10))); add(case("v6repl", [], m, bytes(n)))
    for n in range(0, 9):
        add(case("v6duid", [], bytes(n))); add(case("v6repl", [], bytes(n), b"x")); add(case("v6life", [1, 2], bytes(n)))
    family(rng, tier, lambda r: gen_d6relay(r, 12), nv, 2 * nm, lambda b: add(case("d6relay", [], b)))
    family(rng, tier, lambda r: gen_d6relay(r, 13), nv, 2 * nm,
           lambda b: (add(case("d6reply", [], b)), add(case("v6unwrap", [], b)), add(case("v6txid", [], b))))
    family(rng, tier, lambda r: gen_d6relay(r, 12), nv // 2, nm // 2, lambda b: add(case("v6txid", [], b)))
    # deep nesting (self-similar relay chains up to the MTU)
    for d in (10, 20, 38):
        b, _ = gen_d6relay(rng, 12, d)
        add(case("d6relay", [], b[:1500]))
        add(case("d6relay", [], b))
        b, _ = gen_d6relay(rng, 13, d)
        add(case("d6reply", [], b))
        add(case("v6unwrap", [], b))
    for s in short_strings("quick", False):
        add(case("d6relay", [], b"\x0c\x00" + bytes(32) + s))
        add(case("d6reply", [], b"\x0d\x00" + bytes(32) + s))
        add(case("v6unwrap", [], b"\x0d\x00" + bytes(32) + s))

    # --- DHCPv4 option rewriting and parsing ---------------------------------------------------------------------
    o82 = b"\x52\x0a\x01\x03abc\x02\x03xyz"
    d4n = [0]
    def d4_emit(b):
        d4n[0] += 1
        code = rng.choice([51, 54, 58, 59, 82, 0, 255, 53, rng.randrange(256)])
        o82arg = rng.choice([o82, b"", b"\x52\x00", o82[:5]])
        pol = rng.randrange(3)
        val = rb(rng, 4)
        if not q or d4n[0] % 2 == 0:          # quick tier: the two halves of the entry points alternate
            add(case("o82ins", [pol], b, o82arg))
            add(case("setopt", [code], b, val))
            add(case("d4parse", [], b))
        if not q or d4n[0] % 2 == 1:
            add(case("o82strip", [], b))
            add(case("getopt", [code], b))
            add(case("d4msg", [], b))
    family(rng, tier, gen_dhcp4, nv, nm // 2 if q else nm, d4_emit, nsweep_quick=1)
    family(rng, tier, lambda r: gen_dhcp4(r, magic=False), 3, 20, d4_emit)
    for n in (0, 1, 2, 3, 4, 5, 23, 24, 27, 28, 29, 240):
        for hops in (0, 1, 254, 255):
            pk = bytes([1, 1, 6, hops][:n]) + bytes((3 * i + 1) & 0xff for i in range(max(0, n - 4)))
            for ip in (b"\x0a\x00\x00\x01", bytes(10) + b"\xff\xff\xc0\xa8\x01\x02", bytes(16), b"", b"\x01\x02\x03"):
                add(case("gihops", [], pk, ip))
    for n in (0, 1, 27, 28, 235, 236, 237, 239, 240, 241, 242):
        d4_emit(bytes(n))
        d4_emit(b"\x01" * n)
    base = gen_dhcp4(rng, opts=(b"", []))[0]
    for s in short_strings(tier, False):
        d4_emit(base + s)
    for a, b2, c in itertools.product([0, 1, 2, 4, 51, 82, 255] if q else [0, 1, 2, 3, 4, 51, 82, 255], repeat=3):
        d4_emit(base + bytes([a, b2, c]))
        if not q or c in (0, 4):
            d4_emit(base + bytes([a, b2, c, 4, 1, 2, 3, 4, 255]))
    # several option 82 / several instances of the rewritten option (right and wrong lengths), with and without End
    for combo in itertools.product([b"", b"\x52\x02ab", b"\x52\x00", b"\x33\x04\x00\x00\x0e\x10", b"\x33\x02\x01\x02",
                                    b"\x33\x06\x01\x02\x03\x04\x05\x06", b"\x00", b"\x35\x01\x05"], repeat=(2 if q else 3)):
        for tail in (b"", b"\xff", b"\xff\x00\x52\x01a", b"\x52", b"\x33\x04\x01"):
            d4_emit(base + b"".join(combo) + tail)
    family(rng, tier, lambda r: tlv8([(r.choice([1, 2, 10, 0, 255]), rb(r, r.randint(0, 12))) for _ in range(r.randint(0, 4))]),
           nv, nm, lambda b: (add(case("sub82", [], b)), add(case("sub82p", [], b))))

    # --- RADIUS ------------------------------------------------------------------------------------------------------
    for s in short_strings("quick", False):
        add(case("attr80", [], bytes(20) + s))
        add(case("attr80", [], s))
    for L in range(256):
        add(case("attr80", [], b"\x2b\x01\x00\x26" + bytes(16) + bytes([80, L]) + bytes(16)))
        add(case("attr80", [], b"\x2b\x01\x00\x26" + bytes(16) + bytes([1, L]) + bytes(3) + b"\x50\x12" + bytes(16)))
    def rad_emit(b):
        add(case("attr80", [], b))
        add(case("fzrad", [], b))
        add(case("radparse", [], b))
        if rng.random() < 0.5:
            add(case("radparse", [], rad_sign_coa(b)))
        ra = rb(rng, 16)
        r = rad_sign_reply(b, ra, rng) if rng.random() < 0.6 else b
        if rng.random() < 0.3:
            r = r + rb(rng, rng.choice([1, 4]))          # padding beyond the declared length
        d1, d2 = rad_reply_oracles(r, ra)
        add(case("radreply", [], r, d1, d2, ra))
        c = rad_sign_coa(b) if rng.random() < 0.6 else b
        dq, dm = rad_coa_oracles(c)
        add(case("radreqauth", [], c, dq))
        add(case("radma", [], c, dm))
    family(rng, tier, gen_radius, nv, 2 * nm, rad_emit)
    # exchange histories: hostile datagrams from the server's address BEFORE (and after) the genuine reply; every history
    # ends with an authentic sentinel reply so that the exchange never has to time out on a correct implementation
    def rad_reply(ident, reqauth, msg, secret=SECRET, code=2):
        attrs = bytes([18, 2 + len(msg)]) + msg
        head = bytes([code, ident]) + be16(20 + len(attrs))
        return head + hashlib.md5(head + reqauth + attrs + secret).digest() + attrs
    def radex_case(kinds):
        ra = rb(rng, 16)
        ds = []
        for k in kinds:
            if k == 0:
                ds.append(bytes([3, 1, 0, 20]) + bytes(16))
            elif k == 1:
                ds.append(bytes([3, 2, 0, 20]) + bytes(16))
            elif k == 2:
                ds.append(rng.choice([b"\xff\x01\x00\x02\x01", rb(rng, 7), bytes([2, 1, 0, 19]) + bytes(16), bytes([2, 1, 0, 30]) + bytes(16)]))
            elif k == 3:
                ds.append(rad_reply(1, ra, b"evil", secret=b"other"))
            elif k == 4:
                ds.append(rad_reply(1, rb(rng, 16), b"stale"))
            elif k == 5:
                ds.append(rad_reply(1, ra, b"welcome")[:-3])
            elif k == 6:
                ds += [bytes([3, i, 0, 20]) + bytes(16) for i in range(0, 64)]
            elif k == 7:
                g = bytearray(rad_reply(1, ra, b"flip"))
                g[rng.randrange(len(g))] ^= 1 << rng.randrange(8)
                ds.append(bytes(g))
            elif k == 9:
                ds.append(rad_reply(1, ra, b"welcome"))
        ds.append(rad_reply(1, ra, b"sentinel"))
        args = [ra]
        for d in ds:
            d1, d2 = rad_reply_oracles(d, ra)
            args += [d, d1, d2]
        add(case("radex", [], *args))
    for k in (0, 1, 2, 3, 4, 5, 6, 7):
        radex_case([k, 9])
        radex_case([9, k])
        radex_case([k])
    radex_case([9])
    radex_case([])
    radex_case([0, 1, 2, 3, 4, 5, 6, 7, 9, 0])
    radex_case([6, 6, 9])
    for _ in range(10 if q else 300):
        h = [rng.choice([0, 0, 1, 2, 3, 4, 5, 6, 7]) for _ in range(rng.randint(1, 6))]
        if rng.random() < 0.7:
            h.insert(rng.randint(0, len(h)), 9)
        radex_case(h)
    for n in range(0, 24):
        rad_emit(bytes(n))
        rad_emit(b"\x02\x01" + be16(n) + bytes(20))
    for _ in range(150 * scale):
        k = rng.randint(0, 6)
        tys = [rng.choice([1, 6, 8, 32, 33, 44, 55, 80, 168, 4, 26, 101, rng.randrange(256)]) for _ in range(k)]
        vals = []
        for t in tys:
            if t in (6, 55, 8):
                vals.append(rng.choice([be32(8), be32(rng.randrange(1 << 32)), rb(rng, 3), rb(rng, 5), b""]))
            elif t == 168:
                vals.append(rb(rng, rng.choice([16, 16, 15, 0])))
            else:
                vals.append(rb(rng, rng.choice([0, 0, 1, 3, 8])))
        nas = rng.choice([b"", b"nas", vals[tys.index(32)] if 32 in tys else b"x"])
        add(case("coaattrs", tys, nas, *vals))
        k = rng.randint(0, 6)
        tys = [rng.choice([53, 53, 12, 61, 82, 51, 50, 0, 255, rng.randrange(256)]) for _ in range(k)]
        vals = [rb(rng, rng.choice([1, 1, 0, 2, 4, 7])) for _ in tys]
        add(case("ipoeopts", [rng.choice([12, 61, 82, 51, 53, 7])] + tys, *vals))

    # --- build -> parse: Go builder output fed to the Go parser, against model builder + model parser -----
    for _ in range(120 * scale):
        k = rng.randint(0, 5)
        tys = [rng.choice([0x0101, 0x0102, 0x0103, 0x0104, 0x0105, 0x0110, 0x0120, 0x0201, 0x0203, 0x0106, rng.randrange(1, 65536)]) for _ in range(k)]
        vals = []
        for t in tys:
            if t == 0x0120:
                vals.append(be16(rng.choice([1492, 1500, 1491, 65535])))
            elif t == 0x0105:
                sub, _ = tlv8([(rng.choice([1, 2, 3]), rb(rng, rng.randint(0, 12))) for _ in range(rng.randint(0, 3))])
                vals.append(be32(rng.choice([0xde9, 9, 0xde9, 77])) + sub)
            else:
                vals.append(rb(rng, rng.choice([0, 1, 8, 40, 300])))
        add(case("bldtags", tys, *vals))
        k = rng.randint(0, 5)
        nums, vals = [], []
        for _ in range(k):
            nums += [rng.randrange(2), rng.choice([0, 0, 9, 3561, 65535]), rng.choice([0, 1, 7, 36, 14, 65535, rng.randrange(65536)])]
            vals.append(rb(rng, rng.choice([0, 2, 16, 100, 1017])))
        add(case("bldavp", nums, *vals))
        S, O = rng.randrange(2), rng.randrange(2)
        add(case("bldl2", [rng.randrange(2), rng.randrange(2), S, O, rng.randrange(2), rng.choice([2, 2, 3, 0, 15]),
                           rng.randrange(65536), rng.randrange(65536), rng.randrange(65536) * S, rng.randrange(65536) * S,
                           rng.choice([0, 1, 5, 40]) * O], rb(rng, rng.choice([0, 1, 12, 200]))))
        msg = gen_d6msg(rng)[0]
        add(case("bldrelay", [rng.randrange(33), rng.randrange(1 << 32), rng.choice([1, 1, 2, 3, 8])], rb(rng, 16), rb(rng, 16),
                 rb(rng, rng.choice([0, 4, 9])), rb(rng, rng.choice([0, 1, 6])), rb(rng, rng.choice([0, 0, 5])), msg))
        hasna, haspd, hasst = rng.randrange(2), rng.randrange(2), rng.randrange(2)
        nd = rng.choice([0, 0, 1, 2, 3])
        excodes = [rng.choice([6, 7, 8, 24, 31, 56, 82, 1000, 65535]) for _ in range(rng.randint(0, 3))]
        nums = [rng.choice([2, 7]), hasna] + [rng.randrange(1 << 32) for _ in range(5)] + [haspd] + \
               [rng.randrange(1 << 32) for _ in range(5)] + [rng.choice([48, 56, 64, 0, 128]), hasst, rng.choice([0, 2, 6, 65535]), nd] + excodes
        bs = [rb(rng, 3), rb(rng, rng.choice([0, 10, 14])), rb(rng, rng.choice([0, 10, 14])), rb(rng, 16), rb(rng, 16),
              rb(rng, rng.choice([0, 5, 30]))] + [rb(rng, 16) for _ in range(nd)] + [rb(rng, rng.choice([0, 1, 9])) for _ in excodes]
        add(case("bldd6", nums, *bs))
        codes = [rng.choice([54, 51, 1, 3, 6, 6, 12, 61, 82, 50, 121, 43, rng.randrange(1, 255)]) for _ in range(rng.randint(0, 6))]
        vals = [rb(rng, rng.choice([4, 4, 8, 1, 0, 12, 255, 256, 300, 600] if rng.random() < 0.2 else [4, 4, 8, 1, 0, 12])) for _ in codes]
        add(case("bldd4", [rng.randrange(1 << 32), rng.choice([2, 5, 6])] + codes, rb(rng, 4), rb(rng, 4), rb(rng, 4),
                 rb(rng, rng.choice([6, 6, 6, 16, 0])), *vals))
        nob = lambda n: bytes(x for x in rb(rng, n) if x != 0x7b) or b"x"
        add(case("bld82", [rng.randrange(2), rng.randrange(2)], nob(rng.choice([1, 5, 30, 100])), nob(rng.choice([1, 6, 17, 100]))))
    # --- backlog / wedge scenarios: bursts against the bounded worker pools and hand-off queues -------------
    # bkdhcp6 N,sessions,msgtype (pool of 16 under the session lock); bkrakick N,K; bkl2gw N,K
    ns = [1, 2, 15, 16, 17, 18, 32, 33, 40] if q else list(range(1, 41)) + [64, 100]
    for n in ns:
        for sessions, mt in ((1, 3), (3, 5)) if q else ((1, 3), (1, 1), (2, 6), (3, 5), (5, 8), (17, 3)):
            add(case("bkdhcp6", [n, sessions, mt]))
    for n in ns:
        for k in ((1, 16) if q else (0, 1, 2, 16, 39)):
            add(case("bkrakick", [n, k]))
            add(case("bkl2gw", [n, k]))
    # arbitrary arrive (A) / finish (F) histories; the harness reads len(chan) of the real semaphore / queue after every step
    for _ in range(40 if q else 300):
        n = rng.choice([5, 20, 40, 60])
        pa = rng.choice([0.5, 0.7, 0.9, 1.0])
        ev = bytes(0x41 if rng.random() < pa else 0x46 for _ in range(n))
        add(case("bkevd6", [rng.choice([16, 16, 16, 3, 1])], ev))
        add(case("bkevra", [rng.choice([16, 2, 0, 5])], ev))
        add(case("bkevl2", [rng.choice([16, 2, 0, 5])], ev))
    add(case("bkevd6", [16], b"A" * 20 + b"F" * 20 + b"A" * 3))
    # PPPoE discovery with the session-id space exhausted: refused PADR, ids freed (F) or sessions ended by PADT (T), PADR again
    for free, ev in ((0, b"RRFR"), (0, b"RFRTR"), (1, b"RRFRR"), (2, b"RRRTTRR"), (0, b"R"), (0, b"FRTRR")):
        add(case("bkpadr", [free], ev))
    for _ in range(4 if q else 60):
        add(case("bkpadr", [rng.choice([0, 0, 1, 3])], bytes(rng.choice(b"RRRFT") for _ in range(rng.randint(2, 10)))))
    # --- gopacket decode through the shm ingress (supporting validation only) --------------------------------
    frames = eth_frames(rng) + eth_frames(rng)
    pool = [f for _, f in frames]
    for proto, fr in frames:
        add(case("fzgopkt", [proto], fr))
        for k in range(0, len(fr), 1 if not q else 3):
            add(case("fzgopkt", [proto], fr[:k]))
        for _ in range(60 * scale):
            add(case("fzgopkt", [proto], mutate(rng, fr, [(16, 2), (20, 2), (24, 2), (38, 2), (42, 2)], pool)))
    for n in (300, 700, 1200, 1500):
        for _ in range(2 * scale):
            add(case("fzsess", [rng.choice(protos[:6]), rng.choice([1, 2, 3, 4])], ppp_frame(rng.choice([1, 2, 9, 13]), 1, rb(rng, n - 4))[0]))
            r = bytes([rng.choice([2, 3, 43, 40]), 1]) + be16(n) + rb(rng, 16) + tlv8([(rng.randrange(256), rb(rng, 200)) for _ in range((n - 20) // 202)], 2)[0]
            add(case("fzrad", [], r))
            add(case("radparse", [], r))
            add(case("radparse", [], r[:2] + be16(len(r)) + r[4:]))
    # --- pure random strings up to the MTU on every modelled entry -------------------------------------------
    for e in MODELLED:
        for _ in range(6 * scale):
            n = rng.choice([3, 5, 9, 17, 33, 60, 120, 241, 300, 700, 1500])
            b = rb(rng, n)
            if e in ("chapresp", "sesschap"):
                add(case(e, [1], b, bytes(16), bytes(16)))
            elif e == "o82ins":
                add(case(e, [rng.randrange(3)], b, o82))
            elif e == "setopt":
                add(case(e, [rng.randrange(256)], b, rb(rng, 4)))
            elif e == "disp":
                add(case(e, [rng.choice(protos), 1, 0, 1], b))
            else:
                add(case(e, [rng.randrange(3)] if e in ("ppphdr", "papmsg", "getopt", "papreq", "sesspap", "chapchal") else [], b))
    # dedupe, keep order
    seen, res = set(), []
    for c in out:
        if c not in seen:
            seen.add(c)
            res.append(c)
    return res


# ---------------------------------------------------------------- verdict helpers
def _payload(case_line):
    t = case_line.split()
    return bytes.fromhex(t[2]) if len(t) > 2 and t[2] != "-" else b""


def nontrivial(case_line, impl):
    if impl in ("err", "nocrash", "ok 0", "ok nil", "ok -") and not case_line.startswith("fz"):
        return False
    return True


def classify(case_line, impl, model):
    e = case_line.split(" ", 1)[0]
    if e == "radex" and impl != model:
        if impl.startswith("skipped"):
            return "G", "radex: not run, the harness stopped after three exchanges that got no reply"
        return "P", ("radex: with this history of datagrams from the server's address the RADIUS exchange %s "
                     "(a hostile datagram must be ignored: the first authentic reply has to reach the requester)" %
                     ("got no reply at all although authentic replies were sent" if impl == "ok 0" else "returned %r, expected %r" % (impl, model)))
    if e.startswith("bk") and impl.startswith("ok ") and model.startswith("ok ") and impl != model:
        it, mt = impl.split(), model.split()
        n = case_line.split()[1].split(",")[0]
        if False:
            pass
        if e.startswith("bkpadr"):
            k = next((i for i, (a, b) in enumerate(zip(it, mt)) if a != b), min(len(it), len(mt)))
            return "P", ("bkpadr: at step %d of the discovery history (R = PADR, F = id freed, T = PADT) the handler outcome / free ids are %r, "
                         "expected %r (3 = the PADR handler did not return: discovery is wedged)" %
                         ((k - 1) // 2 + 1, " ".join(it[k - (k + 1) % 2:][:2]), " ".join(mt[k - (k + 1) % 2:][:2])))
        if e.startswith("bkev"):
            k = next((i for i, (a, b) in enumerate(zip(it, mt)) if a != b), min(len(it), len(mt)))
            return "P", ("%s: at step %d of the arrive/finish history the real queue (occupancy, outcome) is %r, the pool model says %r"
                         " (3 = handler call did not return)" % (e, (k - 1) // 2 + 1, " ".join(it[k - (k + 1) % 2:][:2]), " ".join(mt[k - (k + 1) % 2:][:2])))
        if it[1] != mt[1]:
            return "P", ("%s: receive handler call #%d of a burst of %s well-formed frames did not return within 3 s while the "
                         "workers were held (handler wedged; session still answers afterwards: %s, pool drained after release: %s)"
                         % (e, int(it[1]) + 1, n, it[3], it[4]))
        if it[3] != "1":
            return "P", "%s: after a burst of %s frames the session no longer answers an LCP Echo-Request" % (e, n)
        if it[4] != "1":
            return "P", "%s: workers did not drain after the provider answered (burst of %s)" % (e, n)
        return "P", "%s: %s requests dispatched, the bounded pool admits %s" % (e, it[2], mt[2])
    if impl.startswith("lockleak"):
        return "P", "%s: a handler returned while still holding a lock (%s)" % (e, impl)
    if impl in ("panic", "hang"):
        return "P", "%s: the call %s on this input (model: %s)" % (e, "panicked" if impl == "panic" else "did not return within 5 s", model[:120])
    if impl.startswith("skipped"):
        return "G", "%s: not run, the harness stopped after three hung calls" % e
    if impl == "badline" or model == "badline":
        return "G", "harness/driver does not know entry %s" % e
    if model in ("panic", "oof"):
        return "G", "%s: the model predicts %s but the implementation returned %r" % (e, model, impl[:120])
    if impl.split(" ", 1)[0] != model.split(" ", 1)[0]:
        return "P", "%s: accepted/rejected differently: implementation %r, model %r" % (e, impl[:160], model[:160])

    it, mt = impl.split(), model.split()
    k = next((i for i, (a, b) in enumerate(zip(it, mt)) if a != b), min(len(it), len(mt)))
    return "P", "%s: parsed value differs from the proved model at token %d: implementation %r, model %r" % (
        e, k, " ".join(it[max(0, k - 1):k + 3]), " ".join(mt[max(0, k - 1):k + 3]))


def shrink(case_line):
    t = case_line.split()
    if t[0] in ("l2seq", "fzseq", "fzipoe", "radex"):
        keep = 3 if t[0] == "l2seq" else (2 if t[0] != "radex" else 3)
        steps = t[keep:]
        step = 3 if t[0] == "radex" else 1
        for i in range(len(steps) - step, -1, -step):
            yield " ".join(t[:keep] + steps[:i] + steps[i + step:])
        return
    if t[0].startswith("bkev") or t[0] == "bkpadr":
        b = _payload(case_line)
        for i in range(len(b) - 1, -1, -1):
            yield " ".join(t[:2] + [hx(b[:i] + b[i + 1:])])
        return
    if t[0].startswith("bk"):
        a = [int(x) for x in t[1].split(",")]
        for n in sorted(set([a[0] // 2, a[0] - 1, 17, 16]) - {a[0]}):
            if 0 < n < a[0]:
                yield " ".join([t[0], ",".join(str(x) for x in [n] + a[1:])])
        if len(a) > 2 and a[1] > 1:
            yield " ".join([t[0], ",".join(str(x) for x in [a[0], 1] + a[2:])])
        return
    if len(t) < 3:
        return
    b = _payload(case_line)
    rest = t[3:]
    def mk(nb):
        return " ".join(t[:2] + [hx(nb)] + rest)
    n = len(b)
    if n > 8:
        yield mk(b[:n // 2])
        yield mk(b[n // 2:])
        yield mk(b[:n - n // 4])
        yield mk(b[n // 4:])
    for i in range(n - 1, -1, -1):
        yield mk(b[:i] + b[i + 1:])
        if n > 64 and i < n - 40:
            break
    for i in range(min(n, 48)):
        if b[i] != 0:
            yield mk(b[:i] + b"\x00" + b[i + 1:])


def describe(case_line, impl, model):
    return {"case": case_line[:300], "implementation": impl[:300], "model": model[:300]}


def distribution(cases, impl):
    d = {}
    for c, o in zip(cases, impl):
        e = c.split(" ", 1)[0]
        r = d.setdefault(e, {"cases": 0, "ok": 0, "err": 0, "panic": 0, "hang": 0, "nocrash": 0, "max_len": 0, "len_le_2": 0})
        r["cases"] += 1
        k = (o or "").split(" ", 1)[0]
        r[k if k in r else "err"] += 1
        n = len(_payload(c))
        r["max_len"] = max(r["max_len"], n)
        r["len_le_2"] += n <= 2
    l2 = {"data_to_session": 0, "sccrq_resolved": 0, "sccrq_tunnel_created": 0, "rejected_or_ignored": 0}
    for c, o in zip(cases, impl):
        if c.startswith("l2dg "):
            t = (o or "").split()
            if t[:2] == ["ok", "30"]:
                l2["data_to_session"] += 1
            elif t[:2] == ["ok", "20"]:
                l2["sccrq_resolved"] += 1
                l2["sccrq_tunnel_created"] += t[-1] != "0"
            else:
                l2["rejected_or_ignored"] += 1
    d["_l2dg_outcomes"] = l2
    sq = {"sequences": 0, "datagrams": 0, "max_tunnels": 0, "max_sessions_in_a_tunnel": 0, "tunnel_established": 0, "session_established": 0}
    for c, o in zip(cases, impl):
        if c.startswith("l2seq ") and o and o.startswith("ok"):
            sq["sequences"] += 1
            t = o.split()[1:]
            i = 0
            try:
                while i < len(t) and t[i] == "255":
                    sq["datagrams"] += 1
                    nt = int(t[i + 1]); i += 2
                    sq["max_tunnels"] = max(sq["max_tunnels"], nt)
                    for _ in range(nt):
                        state, ns = int(t[i + 2]), int(t[i + 3])
                        sq["tunnel_established"] += state == 3
                        sq["max_sessions_in_a_tunnel"] = max(sq["max_sessions_in_a_tunnel"], ns)
                        for k in range(ns):
                            sq["session_established"] += int(t[i + 4 + 3 * k + 2]) == 2
                        i += 4 + 3 * ns
            except (IndexError, ValueError):
                pass
    d["_l2seq"] = sq
    d["_modelled_entries"] = MODELLED
    d["_backlog_scenarios"] = SCENARIOS
    d["_builder_entries"] = BUILDERS
    d["_fuzz_only_entries"] = FUZZ_ONLY
    return d
