"""C02 — no two live subscribers are ever given the same address (stage A: function level).

One case = one history over one shared allocator registry, driven through
  PPPoE   SessionState.onAuthResult -> startNCP, IPCP Configure-Request (handlePPP), terminate
  IPoE    allocator.NewContext, dhcp.ResolveV4/ResolveV6, the real local DHCPv4 provider, and the registry
          release sequences of handleRelease/cleanupSessions (IR) and handleSubscriberTerminate (IT)
(harness/C02/zz_verif_c02_test.go, injected into internal/pppoe; accessors injected into pkg/allocator and
plugins/dhcp4/local print the complete registry and lease table after every op)."""

ID = "C02"
def _fasttick_session_go():
    """The reaper (internal/ipoe/session.go cleanupSessions) has no clock seam: its body sits in a loop behind
    time.NewTicker(5 * time.Minute).  So that the stage-B harness can RUN the real function, the file is injected with
    the same -overlay mechanism as the harness files, as a copy of the CURRENT file of the repository under test in
    which nothing but the ticker period inside cleanupSessions is rewritten (to 2 ms).  Generated at every run from
    VERIF_REPO; a file in which the ticker cannot be found makes the check fail loudly."""
    import os, re, hashlib
    repo = os.environ.get("VERIF_REPO", "/repo")
    verif = os.path.dirname(os.path.dirname(os.path.abspath(__file__)))
    src = open(os.path.join(repo, "internal/ipoe/session.go")).read()
    m = re.search(r"func \(c \*Component\) cleanupSessions\(\) \{", src)
    if not m:
        raise RuntimeError("C02: cleanupSessions not found in internal/ipoe/session.go")
    head, body = src[:m.end()], src[m.end():]
    body, n = re.subn(r"time\.NewTicker\([^\n]*\)", "time.NewTicker(2 * time.Millisecond)", body, count=1)
    if n != 1:
        raise RuntimeError("C02: no time.NewTicker in cleanupSessions (clock seam changed: adapt props/C02.py)")
    rel = os.path.join("build", "gen", "C02_" + hashlib.md5(repo.encode()).hexdigest()[:6])
    os.makedirs(os.path.join(verif, rel), exist_ok=True)
    out = os.path.join(rel, "ipoe_session_fasttick.go")
    tmp = os.path.join(verif, out) + ".%d" % os.getpid()
    open(tmp, "w").write(head + body)
    os.replace(tmp, os.path.join(verif, out))
    return out


HARNESSES = [dict(name="pppoe", pkg="./internal/pppoe/", test="TestVerifC02", timeout=900,
                  files=[("internal/pppoe/zz_verif_c02_test.go", "harness/C02/zz_verif_c02_test.go"),
                         ("pkg/allocator/zz_verif_c02_snap.go", "harness/C02/zz_verif_c02_alloc_snap.go"),
                         ("plugins/dhcp4/local/zz_verif_c02_snap.go", "harness/C02/zz_verif_c02_dhcp4_snap.go"),
                         ("plugins/dhcp6/local/zz_verif_c02_snap.go", "harness/C02/zz_verif_c02_dhcp6_snap.go")]),
             # stage B: the real ipoe.Component driven with fakes (cases starting with "B ")
             dict(name="ipoe", pkg="./internal/ipoe/", test="TestVerifC02IPoE", timeout=900,
                  files=[("internal/ipoe/zz_verif_c02_ipoe_test.go", "harness/C02/zz_verif_c02_ipoe_test.go"),
                         ("pkg/allocator/zz_verif_c02_snap.go", "harness/C02/zz_verif_c02_alloc_snap.go"),
                         ("plugins/dhcp4/local/zz_verif_c02_snap.go", "harness/C02/zz_verif_c02_dhcp4_snap.go"),
                         ("plugins/dhcp6/local/zz_verif_c02_snap.go", "harness/C02/zz_verif_c02_dhcp6_snap.go"),
                         ("pkg/opdb/zz_verif_c02_idle.go", "harness/C02/zz_verif_c02_opdb_idle.go"),
                         ("internal/ipoe/session.go", _fasttick_session_go())])]


def route(case):
    return "ipoe" if case.startswith("B ") else "pppoe"
def _v(fixed):
    return "v" + "".join("0" if i in fixed else "1" for i in range(1, 11))


# Defect flags 1..9 (see Model.v).  Fixed in /repo HEAD (flag off everywhere, a regression is a VIOLATION):
# 1 constant fall-back (24c9504), 3 expiry take-over (58e16d0), 4 unresolved answers (d5fadd1), 6 pending ACK
# (b04c868), 7 nil pool (d114f02), 10 AAA prefix overlapping a delegation pool (23daa44).  Still `known:` - 2 unchecked release, 5 untracked out-of-pool statics, 8 restore
# keeps a conflicting address, 9 VRF-blind containment walk / pool override, 10 AAA prefix of a length other than the
# pool's delegated length accepted although it overlaps the pool network.
# Variants tried, in order: repaired (no defect); head (= Model.Head, the four open findings); head with one of the
# open findings fixed (so that fixing them one at a time keeps the check green).
FIXED = {1, 3, 4, 6, 7, 10}
VARIANTS = ["repaired", _v(FIXED)] + [_v(FIXED | {i}) for i in (2, 5, 8, 9)]
MODEL_NEEDS_IMPL = True
RULE = ("stage A (function level, PPPoE SessionState + IPoE resolve/provider path): random configurations of 1-3 "
        "IPv4 pools (0-3 addresses, exclusions, two profiles, VRFs 0/1, disjoint per VRF, sometimes the same subnet "
        "in the other VRF, sometimes one containing 100.64.0.1), 0-2 IA_NA pools, 0-2 PD pools (/63 or /62 -> /64); "
        "2-5 subscribers (PPPoE / IPoE, sometimes sharing a MAC); 5-16 ops (AAA accept and re-authentication with "
        "static v4/v6/PD inside/outside/duplicate, pool overrides existing/missing/foreign, IPCP requests with "
        "told/other/0/no address, terminate incl. double, DISCOVER/REQUEST, ResolveV6, release, admin terminate, "
        "lease expiry); churn family (release order unsorts the free list, statics afterwards); re-authentication "
        "family (one profile with the same range in VRF 0 and 1, re-auth, terminate, new subscribers). "
        "Stage B (real ipoe.Component with fakes): life-cycle scripts of 2-4 dual-stack subscribers with queued / "
        "reversed southbound completions, lease expiry, partial releases and restarts. "
        "Non-trivial: at least two sessions were told an address and at least one release happened. "
        "Distinct: by case text.")
TRUSTED = ["stage A drives IPoE at function level: the release sequences of internal/ipoe handleRelease/"
           "handleDHCPv6Release/handleSubscriberTerminate are re-stated by that harness; stage B drives the "
           "component's own handlers",
           "lease expiry is produced by setting Lease.ExpireTime into the past through an injected accessor",
           "stage B: the mapping from component events to model ops (gates: approved / in flight / created / "
           "pending) lives in ocaml/C02_run.ml, not in Gallina; a wrong mapping shows as a mismatch",
           "stage B fakes: event bus, config, cache, southbound, in-memory opdb",
           "lease expiry: the REAL cleanupSessions runs; internal/ipoe/session.go is injected as a copy of the current "
           "file with only the ticker period inside cleanupSessions rewritten (5 min -> 2 ms), generated at every run"]
ASSUMPTIONS = ["theorems assume pools of one family and one VRF have pairwise disjoint ranges and, for PD pools, a "
               "well-formed geometry (C02_config_pools_wf discharges pool_wf/resettable from it)",
               "each handler runs atomically (goroutine-per-packet interleavings inside one handler are not modelled)"]

FALLBACK = 1681915905  # 100.64.0.1
V4BASE = 167772160     # 10.0.0.0
V6BASE = 0x20010DB8 << 96


def gen_one(rng):
    toks = []
    pools4, pools6, poolsd = [], [], []
    key = 1
    n4 = rng.choice([1, 1, 2, 2, 3])
    for i in range(n4):
        prof = rng.choice([0, 0, 1])
        vrf = rng.choice([0, 0, 1])
        if rng.random() < 0.12:
            lo = FALLBACK - rng.randint(0, 1)
        elif pools4 and rng.random() < 0.25 and pools4[-1][2] != vrf and pools4[-1][4] >= pools4[-1][3]:
            lo = pools4[-1][3]          # the same subnet in another VRF (legitimate multi-VRF deployment)
        else:
            lo = V4BASE + 256 * (i + 1) + rng.choice([1, 1, 254])
        size = rng.choice([0, 1, 1, 2, 2, 3])
        hi = lo + size - 1
        ex = "-"
        if size >= 2 and rng.random() < 0.3:
            ex = str(rng.randint(lo, hi))
        toks += ["P4", str(key), str(prof), str(vrf), str(lo), str(hi), ex]
        pools4.append((key, prof, vrf, lo, hi))
        key += 1
    for i in range(rng.choice([0, 1, 1, 2])):
        prof = rng.choice([0, 0, 1])
        vrf = rng.choice([0, 0, 1])
        lo = V6BASE + ((i + 1) << 64) + rng.choice([1, 0xFFFFFFFFFFFFFFFE])
        size = rng.choice([0, 1, 2, 2])
        hi = lo + size - 1
        toks += ["P6", str(key), str(prof), str(vrf), str(lo), str(hi)]
        pools6.append((key, prof, vrf, lo, hi))
        key += 1
    for i in range(rng.choice([0, 0, 1, 1, 2])):
        prof = rng.choice([0, 0, 1])
        vrf = rng.choice([0, 0, 1])
        nb = rng.choice([62, 63, 63])
        base = V6BASE + ((0x100 + 4 * i) << 64)
        toks += ["PD", str(key), str(prof), str(vrf), str(base), str(nb), "64"]
        poolsd.append((key, prof, vrf, base, nb))
        key += 1
    # a share of configurations that Config.Validate must refuse: a second pool of the same family that shares an
    # address / lies inside the network of an existing pool of the SAME VRF (in the other profile or the same one)
    if rng.random() < 0.05:
        c = rng.random()
        if c < 0.5 and pools4:
            q = rng.choice(pools4)
            if q[4] >= q[3]:
                toks += ["P4", str(key), str(rng.choice([0, 1])), str(q[2]), str(q[4]), str(q[4] + rng.choice([0, 1])), "-"]
                key += 1
        elif c < 0.75 and pools6:
            q = rng.choice(pools6)
            if q[4] >= q[3]:
                toks += ["P6", str(key), str(rng.choice([0, 1])), str(q[2]), str(q[3]), str(q[3])]
                key += 1
        elif poolsd:
            q = rng.choice(poolsd)
            toks += ["PD", str(key), str(rng.choice([0, 1])), str(q[2]), str(q[3]), "63", "64"]
            key += 1
    groups = [(0, "0", "0"), (1, "1", "1"), (2, "0", "-"), (3, "-", "0")]
    for g, a, b in groups:
        toks += ["G", str(g), a, b]
    ns = rng.randint(2, 5)
    sess = []
    for i in range(1, ns + 1):
        proto = rng.choice(["P", "P", "I", "I"])
        g = rng.choice([0, 0, 0, 1, 2, 3])
        mac = i if rng.random() > 0.2 else rng.randint(1, ns)
        toks += ["S", str(i), proto, str(g), str(mac)]
        sess.append((i, proto))

    def a4():
        r = rng.random()
        if r < 0.55 or not pools4:
            return "-"
        if r < 0.85:
            p = rng.choice(pools4)
            return str(rng.randint(p[3] - 1, max(p[3], p[4]) + 1))
        if r < 0.93:
            return str(V4BASE + 0x090909)  # 10.9.9.9: outside every pool
        return str(FALLBACK)

    def a6():
        r = rng.random()
        if r < 0.7 or not pools6:
            return "-"
        if r < 0.92:
            p = rng.choice(pools6)
            return str(rng.randint(p[3], max(p[3], p[4]) + 1))
        return str(V6BASE + (0x99 << 64) + 9)

    def apd():
        r = rng.random()
        if r < 0.7 or not poolsd:
            return "-"
        if r < 0.88:
            p = rng.choice(poolsd)
            return "%d/64" % (p[3] + (rng.randint(0, (1 << (64 - p[4]))) << 64))
        if r < 0.95:
            # a prefix of another length that covers (/56, /60) or lies inside (/72) the pool network
            p = rng.choice(poolsd)
            l = rng.choice([56, 60, 72])
            a = p[3] if l < 64 else p[3] + (rng.randint(0, 1) << 64) + (1 << 56)
            return "%d/%d" % (a >> (128 - l) << (128 - l), l)   # canonical (ParseCIDR masks the host bits)
        return "%d/64" % (V6BASE + (0x999 << 64))

    def ov(pl):
        r = rng.random()
        if r < 0.75 or not pl:
            return "-"
        if r < 0.95:
            return str(rng.choice(pl)[0])
        return "99"

    ops = []
    aaa = {}   # the AAA answer of a PPPoE subscriber is stable across re-authentications (statics, VRF)
    for _ in range(rng.randint(5, 16)):
        sid, proto = rng.choice(sess)
        vrf = str(rng.choice([0, 0, 1]))
        if proto == "P":
            k = rng.random()
            if k < 0.5:
                if sid not in aaa:
                    aaa[sid] = (vrf, a4(), a6(), apd())
                v0, x4, x6, xd = aaa[sid]
                ops.append("PA %d %s %s %s %s %s %s %s" % (sid, v0, x4, x6, xd, ov(pools4), ov(pools6), ov(poolsd)))
            elif k < 0.75:
                c = rng.random()
                if c < 0.5 and pools4:
                    p = rng.choice(pools4)
                    addr = str(rng.randint(p[3], max(p[3], p[4])))
                elif c < 0.7:
                    addr = str(FALLBACK)
                elif c < 0.76:
                    addr = "0"
                elif c < 0.92:
                    addr = "none"
                else:
                    addr = str(V4BASE + 0x090909)
                ops.append("PI %d %s" % (sid, addr))
            else:
                ops.append("PT %d" % sid)
        else:
            k = rng.random()
            if k < 0.3:
                ops.append("ID %d %s %s %s" % (sid, vrf, a4(), ov(pools4)))
            elif k < 0.55:
                ops.append("IQ %d %s %s %s" % (sid, vrf, a4(), ov(pools4)))
            elif k < 0.72:
                ops.append("%s %d %s %s %s %s %s" % (rng.choice(["IS", "IV", "IV"]), sid, vrf, a6(), apd(), ov(pools6), ov(poolsd)))
            elif k < 0.80:
                ops.append("IR %d" % sid)
            elif k < 0.84:
                ops.append("IL %d" % sid)
            elif k < 0.93:
                ops.append("IT %d" % sid)
            else:
                ops.append("IA %d" % sid)
    return " ".join(toks) + " ; " + " ; ".join(ops)


def gen_b(rng):
    """stage B: component-level history for the real ipoe.Component"""
    toks = ["B", "V", "queue" if rng.random() < 0.3 else "imm"]
    queue = toks[2] == "queue"
    pools = []
    for i in range(rng.choice([1, 1, 2])):
        lo = V4BASE + 256 * (i + 1) + 1
        size = rng.choice([1, 1, 2, 3])
        toks += ["P4", str(i + 1), str(rng.choice([0, 0, 1])), str(rng.choice([0, 0, 1])), str(lo), str(lo + size - 1), "-"]
        pools.append((i + 1, lo, lo + size - 1))
    if rng.random() < 0.04:
        k0, lo0, hi0 = pools[0]
        toks += ["P4", "6", "1", toks[toks.index("P4") + 3], str(hi0), str(hi0 + 1), "-"]   # rejected by Config.Validate
    # dual stack: profile q0 with a small IA_NA pool and a PD pool; group 2 = (p0, q0)
    dual = rng.random() < 0.6
    if dual:
        lo6 = V6BASE + (1 << 64) + 0x10
        toks += ["P6", "8", "0", "0", str(lo6), str(lo6 + rng.choice([0, 1, 2]))]
        # 4 prefixes for at most 4 subscribers: ResolveV6 never comes back empty, so the DHCPv6 provider's own
        # allocation path (Resolved == nil, not modelled) is not reached
        toks += ["PD", "9", "0", "0", str(V6BASE + (0x100 << 64)), "62", "64"]
    toks += ["G", "0", "0", "-", "G", "1", "1", "-", "G", "2", "0", "0"]
    ns = rng.randint(2, 4)
    grp = {}
    for k in range(1, ns + 1):
        grp[k] = rng.choice([2, 2, 0]) if dual else rng.choice([0, 0, 1])
        toks += ["S", str(k), "I", str(grp[k]), str(k)]
    def aaa(k):
        st = "-"
        c = rng.random()
        if c < 0.3:
            p = rng.choice(pools)
            st = str(rng.randint(p[1], p[2] + 1))
        elif c < 0.36:
            st = str(V4BASE + 200 * 256 + 200)  # in the provider's /16, in no pool
        ov = str(rng.choice(pools)[0]) if rng.random() < 0.15 else "-"
        if dual and grp[k] == 2:
            return "BA %d 0 %s %s - -" % (k, st, ov)
        return "BA %d %d %s %s" % (k, rng.choice([0, 0, 1]), st, ov)

    def ending(k):
        r = rng.random()
        pre = ["BC" if rng.random() < 0.7 else "BC rev"] if queue else []
        if r < 0.42:
            return pre + ["BR %d %s" % (k, "self" if rng.random() < 0.85 else str(V4BASE + 999))]
        if r < 0.68:
            return pre + ["BT %d" % k]
        if r < 0.82:
            return pre + ["BE %d" % k]       # lease expiry: the reaper takes the session
        if r < 0.9:
            return ["BX %d" % k]
        return []

    # one life-cycle script per subscriber (sometimes two: re-connect), randomly interleaved, plus noise events
    scripts = []
    for k in range(1, ns + 1):
        for _ in range(rng.choice([1, 1, 2])):
            sc = []
            first = rng.random()
            if first < 0.6:
                sc += ["BD %d" % k]
            elif first < 0.8:
                sc += ["BD %d" % k, "BQ %d" % k]     # REQUEST arrives before the AAA answer
            else:
                sc += ["BQ %d" % k]
            sc += ["BJ %d" % k] if rng.random() < 0.08 else [aaa(k)]
            if queue and rng.random() < 0.6:
                sc += ["BD %d" % k] if rng.random() < 0.4 else []
                sc += ["BC"]
            if rng.random() < 0.85:
                sc += ["BQ %d" % k]
            if rng.random() < 0.2:
                sc += ["BD %d" % k]
            if grp[k] == 2 and rng.random() < 0.8:
                sc += ["BS %d" % k] + (["BV %d" % k] if rng.random() < 0.85 else [])
                if rng.random() < 0.2:
                    sc += ["BW %d" % k]
                if rng.random() < 0.45:
                    # DHCPv6 RELEASE (partial for a bound IPv4 session); completions first, as for every release
                    sc += (["BC"] if queue else []) + ["BL %d" % k]
            sc += ending(k)
            scripts.append(sc)
    ops = []
    # scripts of one subscriber stay in order; different subscribers interleave
    bysub = {}
    for sc in scripts:
        bysub.setdefault(sc[0].split()[1], []).extend(sc)
    queues = list(bysub.values())
    while any(queues):
        q = rng.choice([x for x in queues if x])
        ops.append(q.pop(0))
        if rng.random() < 0.08:
            k = rng.randint(1, ns)
            ops.append(rng.choice(["BD %d" % k, "BQ %d" % k, "BX %d" % k, "BC", "BJ %d" % k, "BS %d" % k, "BV %d" % k]))
        if not queue and rng.random() < 0.06:
            ops.append("BZ")                    # the process dies and restores from opdb
    if not queue and rng.random() < 0.5:
        ops.append("BZ")
        k = rng.randint(1, ns)
        ops += ["BQ %d" % k, "BW %d" % k]
    return " ".join(toks) + " ; " + " ; ".join(ops)


def gen_churn(rng, stage_b):
    """churn pattern: n dynamic subscribers fill a pool, leave in a random order, then AAA-static subscribers
    reserve released addresses, then dynamic subscribers arrive again (free-list order after releases matters)."""
    n = rng.choice([2, 3, 3, 4])
    lo = V4BASE + 256 + 1
    ns = n + rng.choice([2, 3, 4])
    if stage_b:
        toks = ["B", "V", "imm", "P4", "1", "0", "0", str(lo), str(lo + n - 1), "-", "G", "0", "0", "-"]
        for k in range(1, ns + 1):
            toks += ["S", str(k), "I", "0", str(k)]
        ops = []
        first = list(range(1, n + 1))
        for k in first:
            ops += ["BD %d" % k, "BA %d 0 - -" % k, "BQ %d" % k]
        leave = first[:]
        rng.shuffle(leave)
        leave = leave[:rng.randint(max(1, n - 1), n)]
        for k in leave:
            ops.append(rng.choice(["BR %d self" % k, "BT %d" % k, "BR %d self" % k]))
        rest = list(range(n + 1, ns + 1))
        nstat = rng.randint(1, min(2, len(rest) - 1))
        for k in rest[:nstat]:
            ops += ["BD %d" % k, "BA %d 0 %d -" % (k, rng.randint(lo, lo + n - 1)), "BQ %d" % k]
        for k in rest[nstat:]:
            ops += ["BD %d" % k, "BA %d 0 - -" % k, "BQ %d" % k]
        return " ".join(toks) + " ; " + " ; ".join(ops)
    toks = ["P4", "1", "0", "0", str(lo), str(lo + n - 1), "-", "G", "0", "0", "-"]
    protos = {}
    for k in range(1, ns + 1):
        protos[k] = rng.choice(["P", "P", "I"])
        toks += ["S", str(k), protos[k], "0", str(k)]

    def arrive(k, static):
        st = str(static) if static is not None else "-"
        if protos[k] == "P":
            return ["PA %d 0 %s - - - - -" % (k, st)]
        return ["ID %d 0 %s -" % (k, st), "IQ %d 0 %s -" % (k, st)]

    def leave_op(k):
        if protos[k] == "P":
            return "PT %d" % k
        return rng.choice(["IR %d" % k, "IR %d" % k, "IT %d" % k])
    ops = []
    first = list(range(1, n + 1))
    for k in first:
        ops += arrive(k, None)
    leave = first[:]
    rng.shuffle(leave)
    leave = leave[:rng.randint(max(1, n - 1), n)]
    for k in leave:
        ops.append(leave_op(k))
    rest = list(range(n + 1, ns + 1))
    nstat = rng.randint(1, min(2, len(rest) - 1))
    for k in rest[:nstat]:
        ops += arrive(k, rng.randint(lo, lo + n - 1))
    for k in rest[nstat:]:
        ops += arrive(k, None)
    return " ".join(toks) + " ; " + " ; ".join(ops)


def gen_reauth(rng):
    """PPPoE re-authentication family: the same subnet in two VRFs (two pools of one profile), subscribers in both
    VRFs, LCP renegotiation + re-authentication (a second PA on a started session, possibly several), teardown,
    then new subscribers.  Teardown after the session state was rebuilt must still release only the session's own
    lease in its own pool."""
    n = rng.choice([1, 2, 2, 3])
    lo = V4BASE + 256 + 1
    toks = ["P4", "1", "0", "0", str(lo), str(lo + n - 1), "-", "P4", "2", "0", "1", str(lo), str(lo + n - 1), "-"]
    if rng.random() < 0.5:
        lo6 = V6BASE + (1 << 64) + 1
        toks += ["P6", "3", "0", "0", str(lo6), str(lo6 + n - 1), "P6", "4", "0", "1", str(lo6), str(lo6 + n - 1)]
    toks += ["G", "0", "0", "0"]
    ns = rng.randint(3, 5)
    for k in range(1, ns + 1):
        toks += ["S", str(k), "P", "0", str(k)]
    vrf = {k: rng.choice([0, 1]) for k in range(1, ns + 1)}
    st = {k: (str(rng.randint(lo, lo + n - 1)) if rng.random() < 0.15 else "-") for k in range(1, ns + 1)}

    def pa(k):
        return "PA %d %d %s - - - - -" % (k, vrf[k], st[k])
    ops = []
    first = list(range(1, ns))
    rng.shuffle(first)
    for k in first[:rng.randint(2, len(first))]:
        ops.append(pa(k))
        if rng.random() < 0.3:
            ops.append("PI %d %d" % (k, rng.randint(lo, lo + n - 1)))
    started = [int(o.split()[1]) for o in ops if o.startswith("PA")]
    for _ in range(rng.randint(1, 3)):
        k = rng.choice(started)
        ops.append(pa(k))                       # re-authentication
    leave = started[:]
    rng.shuffle(leave)
    for k in leave[:rng.randint(1, len(leave))]:
        ops.append("PT %d" % k)
    for k in range(1, ns + 1):
        if k not in started or rng.random() < 0.3:
            ops.append(pa(k))
    return " ".join(toks) + " ; " + " ; ".join(ops)


def gen_ipcp(rng):
    """IPCP family: several Configure-Request exchanges per authentication - a proposal that is Nak'ed (another
    subscriber's address, an address outside the pool) or rejected (0.0.0.0), then a request without an IP-Address
    option or with the assigned address; terminate; the next subscriber is given what was freed"""
    n = rng.choice([2, 3])
    lo = V4BASE + 256 * 7 + 1
    ns = rng.randint(3, 4)
    toks = ["P4", "1", "0", "0", str(lo), str(lo + n - 1), "-", "G", "0", "0", "-"]
    for k in range(1, ns + 1):
        toks += ["S", str(k), "P", "0", str(k)]
    ops = []
    order = list(range(1, ns + 1))
    rng.shuffle(order)
    up = []
    for k in order:
        st = str(rng.randint(lo, lo + n - 1)) if rng.random() < 0.2 else "-"
        ops.append("PA %d 0 %s - - - - -" % (k, st))
        up.append(k)
        for _ in range(rng.randint(1, 3)):
            c = rng.random()
            if c < 0.45:
                a = str(rng.randint(lo, lo + n - 1))     # very likely somebody else's address: Configure-Nak
            elif c < 0.55:
                a = str(V4BASE + 0x0a0a0a)
            elif c < 0.65:
                a = "0"
            else:
                a = "none"
            ops.append("PI %d %s" % (k, a))
        if rng.random() < 0.5 and up:
            ops.append("PT %d" % up.pop(rng.randrange(len(up))))
    for k in up:
        if rng.random() < 0.6:
            ops.append("PT %d" % k)
    ops.append("PA %d 0 - - - - - -" % order[0])
    return " ".join(toks) + " ; " + " ; ".join(ops)


def gen_ha(rng):
    """HA sync family: pools of the three families that SHARE registry keys (cfg token NS: IPv6 profiles are named like
    the IPv4 ones; the same pool key number in P4 / P6 / PD), every Reserve*InPool / Release*InPool entry point with the
    pool's own name, a name that exists only in another family, no name, for sessions of the peer node (ids >= 1000);
    interleaved with local subscribers that allocate from the same pools (the "after failover" part)"""
    a4 = V4BASE + 256 * 9 + 1
    a6 = V6BASE + (3 << 64) + 0x20
    pd = V6BASE + (0x200 << 64)
    n4, n6 = rng.choice([2, 3]), rng.choice([2, 3])
    k = rng.choice([1, 2])
    toks = ["NS", "P4", str(k), "0", "0", str(a4), str(a4 + n4 - 1), "-",
            "P6", str(k), "0", "0", str(a6), str(a6 + n6 - 1), "PD", str(k), "0", "0", str(pd), "62", "64"]
    has7 = rng.random() < 0.4
    if has7:
        toks += ["P4", "7", "0", "0", str(a4 + 512), str(a4 + 513), "-"]      # a key that exists in IPv4 only
    toks += ["G", "0", "0", "0", "S", "1", "I", "0", "1", "S", "2", "I", "0", "2", "S", "3", "P", "0", "3"]
    keys = [str(k), str(k), str(k), "-", "7", "9"]

    def item(fam):
        if fam == "4":
            return str(rng.randint(a4, a4 + n4 - 1))
        if fam == "6":
            return str(rng.randint(a6, a6 + n6 - 1))
        return "%d/64" % (pd + (rng.randint(0, 3) << 64))
    ops, held = [], []
    for _ in range(rng.randint(4, 9)):
        c = rng.random()
        if c < 0.5:
            fam = rng.choice(["4", "6", "6", "D"])
            key = rng.choice(keys)
            x = item(fam)
            if fam == "4" and key == "7":
                # an address outside the NAMED pool would be recorded there by PoolAllocator.Reserve (by design);
                # the model's pools only lease their own slots: stay inside the named pool
                x = str(a4 + 512 + rng.randint(0, 1)) if has7 else x
            h = (fam, key, x, str(1000 + rng.randint(0, 2)))
            ops.append("HR %s %s %s %s" % h)
            held.append(h)
        elif c < 0.65 and held:
            h = held.pop(rng.randrange(len(held)))
            ops.append("HL %s %s %s %s" % (h[0], rng.choice([h[1], "-"]), h[2], h[3]))
        elif c < 0.8:
            ops.append("%s %d 0 - - - -" % (rng.choice(["IS", "IV"]), rng.choice([1, 2])))
        elif c < 0.9:
            ops.append("IQ %d 0 - -" % rng.choice([1, 2]))
        else:
            ops.append("PA 3 0 - - - - - -")
    ops += ["IV 1 0 - - - -", "IV 2 0 - - - -", "PA 3 0 - - - - - -"]
    return " ".join(toks) + " ; " + " ; ".join(ops)


def gen_ppp6(rng):
    """PPPoE, DHCPv6 over PPP (internal/pppoe/dhcpv6.go): SOLICIT / REQUEST / RELEASE through handleDHCPv6 ->
    forwardDHCPv6 (ResolveV6 on the session's allocation context, local provider, bindDHCPv6 / unbindDHCPv6), PPP
    terminate followed by the component's releaseDHCPv6Lease, re-SOLICIT after a RELEASE (the context keeps its
    address), AAA static IPv6 addresses / prefixes, other subscribers connecting in between.
    The pools may be smaller than the number of subscribers and a RELEASE may come at any time, so ResolveV6 also fails
    (pool exhausted; the context's address / prefix meanwhile given to somebody else): such a SOLICIT / REQUEST is
    not answered and records nothing (/repo e76425b), a RELEASE is still handed to the provider."""
    ns = rng.randint(2, 3)
    a6 = V6BASE + (5 << 64) + 0x40
    pd = V6BASE + (0x300 << 64)
    n6 = rng.choice([1, 2, ns, ns + 2])
    toks = ["P6", "3", "0", "0", str(a6), str(a6 + n6 - 1), "PD", "4", "0", "0", str(pd), rng.choice(["62", "63"]), "64"]
    if rng.random() < 0.5:
        toks += ["P4", "1", "0", "0", str(V4BASE + 256 * 11 + 1), str(V4BASE + 256 * 11 + ns + 1), "-"]
        toks += ["G", "0", "0", "0"]
    else:
        toks += ["G", "0", "-", "0"]
    for k in range(1, ns + 1):
        toks += ["S", str(k), "P", "0", str(k)]
    ops, live, dead, have6 = [], [], [], set()
    order = list(range(1, ns + 1))
    rng.shuffle(order)
    pending = list(order)
    for _ in range(rng.randint(6, 14)):
        c = rng.random()
        if pending and (c < 0.3 or not live):
            k = pending.pop(0)
            st6 = str(a6 + n6 - 1) if rng.random() < 0.15 and k == order[0] else "-"
            ops.append("PA %d 0 - %s - - - -" % (k, st6))
            live.append(k)
        elif live and c < 0.55:
            k = rng.choice(live)
            ops.append("PS %d" % k)
            have6.add(k)
        elif live and c < 0.8:
            k = rng.choice(live)
            ops.append("PV %d" % k)
            have6.add(k)
        elif live and c < 0.9:
            ops.append("PR %d" % rng.choice(live))
        elif live and c >= 0.9:
            k = live.pop(rng.randrange(len(live)))
            ops += ["PT %d" % k, "PX %d" % k]
            dead.append(k)
    return " ".join(toks) + " ; " + " ; ".join(ops)


OVERLAP_SHAPES = [
    # (name, B's range relative to A = [a, a+9], Config.Validate must accept?)
    ("inside", 3, 5, False), ("single-inside", 4, 4, False), ("covering", -2, 12, False),
    ("partial-right", 5, 14, False), ("partial-left", -4, 3, False), ("same-start", 0, 3, False),
    ("same-end", 7, 9, False), ("touch-end", 9, 11, False), ("identical", 0, 9, False),
    ("adjacent-right", 10, 12, True), ("adjacent-left", -3, -1, True), ("apart", 40, 44, True),
]
PD_SHAPES = [
    # A = base/60 -> /64 (16 prefixes); B = (offset in /64 units, network bits)
    ("inside-62", 4, 62, False), ("inside-63-last", 14, 63, False), ("covering-56", 0, 56, False),
    ("same-base-62", 0, 62, False), ("identical", 0, 60, False),
    ("adjacent-62", 16, 62, True), ("apart-60", 64, 60, True),
]


def gen_overlap(rng, i):
    """deterministic block: two pools of one family in every relative position - B strictly inside A, covering it,
    overlapping on either side without a common end point, sharing exactly one end point, a single address inside,
    identical, adjacent (accepted), apart (accepted) - in the SAME VRF (Config.Validate decides as listed) or in two
    VRFs (always accepted); IPv4, IA_NA and PD networks (one inside another, different network lengths).  Accepted
    configurations then serve one subscriber per profile."""
    fam = ("4", "6", "D")[i % 3]
    same_vrf = (i // 3) % 4 != 3
    vb = "0" if same_vrf else "1"
    if fam == "D":
        name, off, nb, ok = PD_SHAPES[(i // 12) % len(PD_SHAPES)]
        base = V6BASE + (0x400 << 64)
        toks = ["P6", "3", "0", "0", str(V6BASE + (7 << 64) + 1), str(V6BASE + (7 << 64) + 4),
                "P6", "5", "1", vb, str(V6BASE + (8 << 64) + 1), str(V6BASE + (8 << 64) + 4),
                "PD", "1", "0", "0", str(base), "60", "64",
                "PD", "2", "1", vb, str((base + (off << 64)) >> (128 - nb) << (128 - nb)), str(nb), "64"]
    else:
        name, lo, hi, ok = OVERLAP_SHAPES[(i // 12) % len(OVERLAP_SHAPES)]
        a = (V4BASE + 256 * 13 + 20) if fam == "4" else (V6BASE + (9 << 64) + 0x100)
        toks = ["P" + fam, "1", "0", "0", str(a), str(a + 9)] + (["-"] if fam == "4" else [])
        toks += ["P" + fam, "2", "1", vb, str(a + lo), str(a + hi)] + (["-"] if fam == "4" else [])
    if fam == "4":
        toks += ["G", "0", "0", "-", "G", "1", "1", "-"]
    else:
        toks += ["G", "0", "-", "0", "G", "1", "-", "1"]
    toks += ["S", "1", "P", "0", "1", "S", "2", "P", "1", "2"]
    v2 = "0" if same_vrf else "1"
    ops = ["PA 1 0 - - - - - -", "PA 2 %s - - - - - -" % v2]
    if fam != "4":
        ops += ["PV 1", "PV 2"]
    ops += ["PT 1", "PX 1"]
    return " ".join(toks) + " ; " + " ; ".join(ops)


def gen_cases(rng, tier, budget):
    n = budget or (700 if tier == "quick" else 20000)
    return ([gen_one(rng) for _ in range(n)] + [gen_churn(rng, False) for _ in range(n // 5)] +
            [gen_b(rng) for _ in range(n // 2)] + [gen_churn(rng, True) for _ in range(n // 7)] +
            [gen_reauth(rng) for _ in range(n // 7)] + [gen_ipcp(rng) for _ in range(n // 10)] + [gen_ha(rng) for _ in range(n // 10)] + [gen_ppp6(rng) for _ in range(n // 10)] + [gen_overlap(rng, i) for i in range(max(n // 7, 150))])


# ------------------------------------------------------------------ parsing helpers
def segs(line):
    return line.split(" ; ")


def case_ops(case):
    return [s.split() for s in segs(case)[1:]]


def case_pools(case):
    t = segs(case)[0].split()
    out = []
    i = 0
    while i < len(t):
        if t[i] == "P4":
            out.append(("4", int(t[i + 4]), int(t[i + 5])))
            i += 7
        elif t[i] == "P6":
            out.append(("6", int(t[i + 4]), int(t[i + 5])))
            i += 6
        elif t[i] == "PD":
            i += 7
        elif t[i] == "G":
            i += 4
        elif t[i] == "S":
            i += 5
        elif t[i] == "V":
            i += 2
        else:
            i += 1
    return out


def leases_of(seg):
    """{(family, addr-or-slot string, pool): sid} from a segment's registry snapshot"""
    parts = seg.split(" | ")
    out = {}
    if len(parts) < 2:
        return out
    for ent in parts[1].split():
        try:
            fam, pool, rest = ent.split(":", 2)
            body = rest[rest.index("L[") + 2:rest.index("]F[")]
        except ValueError:
            continue
        for kv in body.split(","):
            if "=" in kv:
                a, s = kv.split("=")
                out[(fam, a, pool)] = s
    return out


def monitor(case, impl):
    """Property monitor on the implementation's own trace: returns text of the first violation or None.
    told[(sid)] = {fam: addr}; a release op or terminate ends the session."""
    isegs = segs(impl)
    ops = case_ops(case)
    pools = case_pools(case)
    told, vrf, live = {}, {}, {}
    for k, o in enumerate(ops, start=1):
        if k >= len(isegs):
            break
        seg = isegs[k]
        res = seg.split(" | ")[0].split()
        if not res or res[0] == "skip":
            continue
        sid = o[1]
        new = {}
        if o[0] in ("HR", "HL") and len(o) == 5:
            # a session of the HA peer (synced to this node) holds the address until its release is synced
            sid = "h" + o[4]
            if o[0] == "HL":
                told.get(sid, {}).pop(o[1], None)
                continue
            if res[:2] != ["ha", "ok"]:
                continue
            vrf.setdefault(sid, "0")
            live[sid] = True
            new[o[1]] = o[3]
            for fam, a in new.items():
                told.setdefault(sid, {})[fam] = a
                for other, d in told.items():
                    if other != sid and live.get(other) and vrf.get(other) == vrf.get(sid) and d.get(fam) == a and not (
                            other.startswith("h")):
                        return "peer session %s and s%s are both given %s address %s (op #%d %s)" % (
                            sid, other, fam, a, k, " ".join(o))
            continue
        if res[0] == "pa":
            vrf[sid] = o[2]
            live[sid] = True
            kv = dict(x.split("=") for x in res[1:])
            told[sid] = {}
            for fam, key in (("4", "told"), ("6", "v6"), ("D", "pd")):
                if kv.get(key, "nil") != "nil":
                    new[fam] = kv[key]
        elif res[0] == "pi" and res[1].startswith("ack:") and res[1] != "ack:none":
            new["4"] = res[1][4:]
        elif res[0] in ("id", "iq") and (res[1].startswith("offer:") or res[1].startswith("ack:")):
            vrf.setdefault(sid, o[2])
            live[sid] = True
            new["4"] = res[1].split(":")[1]
        elif res[0] in ("is", "iv") and (res[1].startswith("adv:") or res[1].startswith("rep:")):
            vrf.setdefault(sid, o[2])
            live[sid] = True
            _, a6, pd = res[1].split(":")
            if a6 != "nil":
                new["6"] = a6
            if pd != "nil":
                new["D"] = pd
        elif res[0] in ("pt", "it"):
            live[sid] = False
            continue
        elif res[0] in ("ir", "il"):
            # a release of one family: forget what was told for it (the session may live on with the other family)
            for fam in (("4",) if res[0] == "ir" else ("6", "D")):
                told.get(sid, {}).pop(fam, None)
            continue
        for fam, a in new.items():
            told.setdefault(sid, {})[fam] = a
            for other, d in told.items():
                if other != sid and live.get(other) and vrf.get(other) == vrf.get(sid) and d.get(fam) == a:
                    return "sessions s%s and s%s (VRF %s) are both told %s address %s (op #%d %s)" % (
                        other, sid, vrf.get(sid), fam, a, k, " ".join(o))
            # told address inside a pool range must be leased to this session
            if fam in ("4", "6"):
                inpool = any(f == fam and lo <= int(a) <= hi for f, lo, hi in pools)
                if inpool:
                    ls = leases_of(seg)
                    if not any(f == fam and x == a and s == "s" + sid for (f, x, _), s in ls.items()):
                        return "s%s is told %s address %s but the registry does not hold it for s%s (op #%d %s)" % (
                            sid, fam, a, sid, k, " ".join(o))
    return None


def pool_vrfs(case):
    """{'p0/k1': vrf, 'q0/k8': vrf} and [(family, lo, hi, vrf)] from the configuration tokens"""
    t = segs(case)[0].split()
    names, ranges = {}, []
    i = 0
    size = {"P4": 7, "P6": 6, "PD": 7, "G": 4, "S": 5, "V": 2, "B": 1}
    while i < len(t):
        if t[i] == "P4":
            names["p%s/k%s" % (t[i + 2], t[i + 1])] = t[i + 3]
            ranges.append(("4", int(t[i + 4]), int(t[i + 5]), t[i + 3]))
        elif t[i] == "P6":
            names["q%s/k%s" % (t[i + 2], t[i + 1])] = t[i + 3]
            ranges.append(("6", int(t[i + 4]), int(t[i + 5]), t[i + 3]))
        elif t[i] == "PD":
            names["q%s/k%s" % (t[i + 2], t[i + 1])] = t[i + 3]
        i += size.get(t[i], 1)
    return names, ranges


def vrf_blind(case, ops, sub, il, ml):
    """the implementation holds a lease the repaired model does not, in a pool of another VRF than the
    subscriber's (AAA static address / pool override resolved without looking at the VRF)"""
    names, _ = pool_vrfs(case)
    vrf = None
    for x in ops:
        if len(x) > 2 and x[1] == sub and x[0] in ("PA", "ID", "IQ", "IS", "IV", "BA"):
            if x[0] == "BA" or vrf is None:
                vrf = x[2]
    extra = [key for key in il if key not in ml]
    # (leases that differ inside pools of the subscriber's own VRF are free-slot choices made after the divergence)
    if vrf is not None and any(names.get(key[2]) not in (None, vrf) for key in extra):
        return True
    # the other face: the AAA static address lies in a pool of another VRF and is refused there because that
    # VRF's subscriber holds it, although it is free in the subscriber's own routing domain
    _, ranges = pool_vrfs(case)
    for x in reversed(ops):
        if len(x) > 3 and x[1] == sub and x[0] in ("PA", "ID", "IQ", "BA") and x[3] != "-":
            a = int(x[3])
            hit = [pv for fam, lo, hi, pv in ranges if fam == "4" and lo <= a <= hi]
            return vrf is not None and any(pv != vrf for pv in hit)
    return False


def first_diff(a, b):
    sa, sb = segs(a), segs(b)
    for i in range(min(len(sa), len(sb))):
        if sa[i] != sb[i]:
            return i, sa[i], sb[i]
    if len(sa) != len(sb):
        return min(len(sa), len(sb)), "", ""
    return None


def classify_b(case, impl, model):
    d = first_diff(impl, model)
    where = ""
    if d:
        ops = case_ops(case)
        opt = " ".join(ops[d[0] - 1]) if 0 < d[0] <= len(ops) else "init"
        where = " first difference at event #%d (%s): impl=%r model=%r" % (d[0], opt, d[1][:300], d[2][:300])
    if impl.startswith("panic") or impl.startswith("hang"):
        return "P", "ipoe component " + impl[:200]
    # component-level monitor over the component's own trace, independent of the model:
    #  (a) an IPv4 address told to two subscribers that both still exist,
    #  (b) two existing sessions that RECORD the same IPv4 address / IPv6 address / delegated prefix
    #      (checked after every event, and over all sessions after a restart)
    told, gone, recs, vrf = {}, set(), {}, {}
    for k, (o, seg) in enumerate(zip(case_ops(case), segs(impl)[1:]), start=1):
        head = seg.split(" | ")[0].split()
        if not head:
            continue
        if o[0] == "BA" and head[0] == "ba":
            vrf[o[1]] = o[2]
        if head[0] == "bz" and len(head) > 1:
            recs = {}
            told = {}
            for kv in head[1].split(","):
                sub, r = kv.split("=")
                if r != "gone":
                    recs[sub[1:]] = r.split("/", 2)
        elif len(o) > 1 and o[0] != "BC":
            r = [h for h in head if h.startswith("rec=")]
            if r:
                if r[0] == "rec=gone":
                    recs.pop(o[1], None)
                    told.pop(o[1], None)
                else:
                    recs[o[1]] = r[0][4:].split("/", 2)
            if len(head) > 1:
                for t in head[1].split(","):
                    if t.startswith(("offer:", "ack:")):
                        a = t.split(":")[1]
                        for other, b in told.items():
                            if other != o[1] and a == b and vrf.get(other) == vrf.get(o[1]):
                                return "P", "subscribers %s and %s are both told %s (event #%d);%s" % (other, o[1], a, k, where)
                        told[o[1]] = a
        seen = {}
        for sub, r in recs.items():
            for fam, val in zip(("IPv4 address", "IPv6 address", "delegated prefix"), r):
                if val != "nil":
                    fam = (fam, vrf.get(sub))
                    if (fam, val) in seen:
                        return "P", "sessions of subscribers %s and %s both hold %s %s after event #%d (%s);%s" % (
                            seen[(fam, val)], sub, fam, val, k, " ".join(o), where)
                    seen[(fam, val)] = sub
    return "G", "ipoe component and model disagree;" + where


def signature_b(case, impl, models):
    d = first_diff(impl, models["repaired"])
    if not d:
        return "none"
    k, iseg, mseg = d
    ops = case_ops(case)
    if not (0 < k <= len(ops)):
        return "other:init"
    o = ops[k - 1]
    if len(o) < 2:
        o = o + [""]
    ires, mres = iseg.split(" | ")[0], mseg.split(" | ")[0]
    il, ml = leases_of(iseg), leases_of(mseg)
    isnap, msnap = iseg.split(" | ")[1:], mseg.split(" | ")[1:]
    if o[0] in ("BA", "BC") and isnap == msnap and "ack:" in ires and ires.split(" rec=")[0] == mres.split(" rec=")[0]:
        return "ipoe-pending-request-ack-not-recorded"
    if o[0] in ("BR", "BT", "BE"):
        lost = [s for key, s in ml.items() if key not in il]
        if lost:
            return "release-frees-foreign-lease"
        return "other:release"
    if o[0] in ("BD", "BQ", "BA", "BS", "BV", "BW") and vrf_blind(case, ops[:k], o[1], il, ml):
        return "reserve-ignores-vrf"
    if o[0] in ("BD", "BQ", "BA", "BC"):
        mr, ir = mres.split()[1], ires.split()[1]
        if il == ml and mr == "." and "panic" in ir:
            return "dhcp4-unresolved-nil-pool-panic"
        if il == ml and ir != mr and len(ir) > len(mr):
            # the component answered although resolution failed: stale lease-table answer, or a static address
            # outside every pool that another subscriber of the VRF already holds
            if any(x[0] == "BA" and len(x) > 3 and x[3] != "-" and x[1] == o[1] for x in ops[:k]) and "ack:" not in mr and "offer:" not in mr and _static_outside(case, ops[:k], o[1]):
                return "static-outside-pools-untracked"
            return "dhcp4-unresolved-answered-from-lease-table"
        lost = [s for key, s in ml.items() if key not in il]
        if lost and any(x[0] == "BX" for x in ops[:k - 1]):
            return "dhcp4-expiry-takeover-frees-current-owner"
    return "other:" + o[0]


def _static_outside(case, ops, sub):
    pools = case_pools(case)
    for x in reversed(ops):
        if x[0] == "BA" and x[1] == sub and len(x) > 3 and x[3] != "-":
            a = int(x[3])
            return not any(f == "4" and lo <= a <= hi for f, lo, hi in pools)
    return False


def classify(case, impl, model):
    d0 = first_diff(impl, model)
    if d0 and " | !dup " in d0[2] and d0[2].split(" | !dup ")[0] == d0[1]:
        return "P", ("implementation and Repaired model agree, and the state they agree on violates the property: "
                     "two live sessions of one routing domain hold the same address / overlapping prefixes "
                     "(family:item~item:sessions) %s at op #%d" % (d0[2].split(" | !dup ")[1], d0[0]))
    if case.startswith("B "):
        return classify_b(case, impl, model)
    m = monitor(case, impl)
    d = first_diff(impl, model)
    where = ""
    if d:
        ops = case_ops(case)
        opt = " ".join(ops[d[0] - 1]) if 0 < d[0] <= len(ops) else "init"
        where = " first difference at op #%d (%s): impl=%r model=%r" % (d[0], opt, d[1][:300], d[2][:300])
    if impl.startswith("panic") or impl.startswith("hang"):
        return "P", "implementation " + impl[:200]
    if m:
        return "P", m + ";" + where
    return "G", "implementation and model disagree;" + where


def pd_len_overlap(case, k):
    """op #k carries an AAA prefix whose length is not the delegated length of a PD pool whose network it overlaps"""
    ops = case_ops(case)
    if not (0 < k <= len(ops)):
        return False
    toks = [t for t in ops[k - 1] if "/" in t and t.replace("/", "").isdigit()]
    cfg = segs(case)[0].split()
    pds = [(int(cfg[i + 4]), int(cfg[i + 5]), int(cfg[i + 6])) for i, t in enumerate(cfg) if t == "PD"]
    for t in toks:
        a, l = (int(x) for x in t.split("/"))
        sz = 1 << (128 - l)
        lo = a // sz * sz
        for base, nb, pl in pds:
            if l != pl and lo < base + (1 << (128 - nb)) and base < lo + sz:
                return True
    return False


OPEN = {2: "release-frees-foreign-lease", 5: "static-outside-pools-untracked",
        8: "restore-keeps-conflicting-address", 9: "reserve-ignores-vrf"}


def signature(case, impl, models):
    """Label of the open finding that explains a mismatch against `repaired`.  The trace-shape heuristics below give
    the label directly in the common cases; where they cannot tell (a later consequence of an earlier deviation),
    the attribution is differential: the implementation's trace equals the model of /repo HEAD, and the finding
    named is the first one without which the model no longer reproduces the trace.  vlib only asks for a signature
    when some checked variant reproduces the trace; no checked variant has the flag of a fixed finding, so a
    regression of a fixed finding never gets here."""
    d0 = first_diff(impl, models["repaired"])
    if d0 and " | !dup " in d0[2] and d0[2].split(" | !dup ")[0] == d0[1]:
        # implementation and Repaired model agree up to here, and the state they agree on violates the property
        # (monitor in ocaml/C02_run.ml, run on every case): never a known finding
        mk = d0[2].split(" | !dup ")[1]
        fam = mk.split(":")[0]
        return "monitor:" + fam
    if impl == models.get(VARIANTS[1]) and impl != models.get(_v(FIXED | {8})):
        # restore kept an address whose re-reservation conflicted: needs an earlier open finding to produce the two
        # images with one address, so it is never the FIRST difference; named whenever the trace depends on it
        return OPEN[8]
    sig = signature_b(case, impl, models) if case.startswith("B ") else signature_a(case, impl, models)
    if sig == "none" or sig in OPEN.values():
        return sig
    # "other:*" or the label of a finding that is fixed at HEAD (no checked variant has its flag): differential
    head = VARIANTS[1]
    if impl == models.get(head):
        for i in sorted(OPEN):
            if impl != models.get(_v(FIXED | {i})):
                return OPEN[i]
        # every single finding can be taken away: two of them explain the trace independently; name the first
        return OPEN[min(OPEN)]
    else:
        match = [i for i in sorted(OPEN) if impl == models.get(_v(FIXED | {i}))]
        if match:
            for i in sorted(OPEN):
                if i not in match:
                    return OPEN[i]
    return sig


def signature_a(case, impl, models):
    d = first_diff(impl, models["repaired"])
    if not d:
        return "none"
    k, iseg, mseg = d
    ops = case_ops(case)
    if not (0 < k <= len(ops)):
        return "other:init"
    o = ops[k - 1]
    ires, mres = iseg.split(" | ")[0], mseg.split(" | ")[0]
    il, ml = leases_of(iseg), leases_of(mseg)
    if o[0] == "PA" and o[3] != str(FALLBACK) and "told=%d" % FALLBACK in ires and "told=nil" in mres:
        return "pppoe-startncp-constant-fallback"
    if o[0] in ("PT", "IR", "IT", "IL"):
        lost = [s for key, s in ml.items() if key not in il]
        if lost and all(s != "s" + o[1] for s in lost):
            return "release-frees-foreign-lease"
        return "other:release"
    if o[0] in ("ID", "IQ") and ires == mres:
        lost = [s for key, s in ml.items() if key not in il]
        if lost and any(x[0] == "IA" for x in ops[:k - 1]):
            return "dhcp4-expiry-takeover-frees-current-owner"
    if o[0] in ("PA", "ID", "IQ", "IS", "IV") and vrf_blind(case, ops[:k], o[1], il, ml):
        return "reserve-ignores-vrf"
    if (o[0] in ("ID", "IQ") and len(o) > 3 and o[3] != "-" and il == ml and ires != mres and
            "ctx4=%s" % o[3] in ires and
            not any(f == "4" and lo <= int(o[3]) <= hi for f, lo, hi in case_pools(case))):
        return "static-outside-pools-untracked"
    if o[0] in ("ID", "IQ") and (" nil " in mres + " ") and " panic " in ires + " " and il == ml:
        return "dhcp4-unresolved-nil-pool-panic"
    if o[0] in ("ID", "IQ") and (" nil " in mres + " ") and (" offer:" in ires or " ack:" in ires) and il == ml:
        return "dhcp4-unresolved-answered-from-lease-table"
    if o[0] in ("PA", "ID", "IQ", "IS", "IV") and ires != mres and il == ml:
        # the code accepted an AAA-supplied address that lies in no pool and is already held in this VRF
        return "static-outside-pools-untracked"
    return "other:" + o[0]


def shrink(case):
    parts = segs(case)
    cfg, ops = parts[0], parts[1:]
    if case.startswith("B "):
        # stage B: keep the event discipline (completions before release): only cut the tail or drop one subscriber
        for n in range(len(ops) - 1, 0, -1):
            yield " ; ".join([cfg] + ops[:n])
        subs = sorted({o.split()[1] for o in ops if len(o.split()) > 1 and o.split()[0] != "BC"})
        for k in subs:
            rest = [o for o in ops if not (len(o.split()) > 1 and o.split()[0] != "BC" and o.split()[1] == k)]
            if rest and len(rest) < len(ops):
                yield " ; ".join([cfg] + rest)
        return
    n = len(ops)
    if n > 1:
        yield " ; ".join([cfg] + ops[:n // 2])
        yield " ; ".join([cfg] + ops[n // 2:])
    for i in range(n):
        yield " ; ".join([cfg] + ops[:i] + ops[i + 1:])
    # drop one configuration item (pool / session)
    t = cfg.split()
    items, i = [], 0
    size = {"P4": 7, "P6": 6, "PD": 7, "G": 4, "S": 5, "V": 2, "B": 1}
    while i < len(t):
        k = size.get(t[i], 1)
        items.append(t[i:i + k])
        i += k
    for j, it in enumerate(items):
        if it[0] in ("P4", "P6", "PD", "S"):
            rest = items[:j] + items[j + 1:]
            yield " ; ".join([" ".join(" ".join(x) for x in rest)] + ops)


def nontrivial(case, impl):
    if case.startswith("B "):
        return sum(1 for s in segs(impl) if "offer:" in s or "ack:" in s) >= 2
    told = sum(1 for s in segs(impl) if s.startswith(("pa ", "id offer", "iq ack", "is adv", "iv rep")) and "told=nil" not in s)
    rel = sum(1 for s in segs(impl) if s.startswith(("pt", "ir", "it")))
    return told >= 2 and rel >= 1


def benign_share(cases, impl):
    """Hypothesis of C02_head_unique evaluated literally by the model driver (mode "benign"): the implementation's
    history is followed with the extracted Head and at every step `step Head st o = step Repaired st o` is decided by
    structural equality.  Reports how many generated histories are benign (the HEAD theorems apply to them)."""
    import os, subprocess, tempfile
    here = os.path.dirname(os.path.dirname(os.path.abspath(__file__)))
    exe = os.path.join(here, "build", "bin", "C02_run")
    with tempfile.TemporaryDirectory(prefix="c02_benign_") as td:
        cf, inf = os.path.join(td, "cases.txt"), os.path.join(td, "impl.txt")
        open(cf, "w").write("\n".join(cases) + "\n")
        open(inf, "w").write("\n".join(impl) + "\n")
        p = subprocess.run([exe, cf, inf, "benign"], stdout=subprocess.PIPE, stderr=subprocess.PIPE, text=True)
    lines = [l for l in p.stdout.split("\n") if l.startswith("benign=")]
    if p.returncode != 0 or len(lines) != len(cases):
        return {"benign_error": (p.stderr or "line count")[-300:]}
    ben = [l.startswith("benign=1") for l in lines]
    a = [b for c, b in zip(cases, ben) if not c.startswith("B ")]
    b = [b for c, b in zip(cases, ben) if c.startswith("B ")]
    safe = ["safe=1" in l for l in lines]
    bad = sum(1 for x, y in zip(safe, ben) if x and not y)   # must be 0: C02_head_safe_is_benign
    return {"head_safe_histories": sum(safe), "head_safe_share": round(sum(safe) / max(1, len(safe)), 3),
            "head_safe_but_not_benign": bad,
            "head_benign_histories": sum(ben), "head_benign_share": round(sum(ben) / max(1, len(ben)), 3),
            "head_benign_stageA": "%d/%d" % (sum(a), len(a)), "head_benign_stageB": "%d/%d" % (sum(b), len(b)),
            "head_benign_steps_evaluated": sum(int(l.split("steps=")[1]) for l in lines)}


def distribution(cases, impl):
    d = {}
    d["stageB_cases"] = sum(1 for c in cases if c.startswith("B "))
    for c, o in zip(cases, impl):
        if c.startswith("B "):
            for s in segs(o)[1:]:
                r = s.split(" | ")[0].split()
                k = "B:" + (r[0] if r else "?")
                if len(r) > 1 and ":" in r[1]:
                    k += ":reply"
                d[k] = d.get(k, 0) + 1
            continue
        for s in segs(o)[1:]:
            r = s.split(" | ")[0].split()
            k = r[0] if r else "?"
            if k in ("id", "iq", "is", "iv", "pi", "ps", "pv") and len(r) > 1:
                k += ":" + r[1].split(":")[0]
            if k == "pa":
                k += ":fallback" if "told=%d" % FALLBACK in s else (":none" if "told=nil" in s else ":addr")
            d[k] = d.get(k, 0) + 1
    d["cases"] = len(cases)
    d["rejected_config"] = sum(1 for o in impl if o == "rejected-config")   # Config.Validate refused the pools
    d.update(benign_share(cases, impl))
    d["monitor_violations"] = sum(1 for c, o in zip(cases, impl) if not c.startswith("B ") and monitor(c, o))
    return d
