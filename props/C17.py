"""C17 — one owner per subscriber tuple, linearizable (pkg/session/exclusivity.go)."""

ID = "C17"
_FILES = [("pkg/session/zz_verif_c17_test.go", "harness/C17/zz_verif_c17_test.go")]
HARNESSES = [dict(name="session", pkg="./pkg/session/", test="TestVerifC17", files=_FILES, timeout=600),
             dict(name="session_race", pkg="./pkg/session/", test="TestVerifC17", files=_FILES, timeout=900, race=True),
             dict(name="ipoe", pkg="./internal/ipoe/", test="TestVerifC17Callers", timeout=600,
                  files=[("internal/ipoe/zz_verif_c17_test.go", "harness/C17/zz_verif_c17_ipoe_test.go")]),
             dict(name="e2e", pkg="./internal/ipoe/", test="TestVerifC17E2E", timeout=900,
                  files=[("internal/ipoe/zz_verif_c17_e2e_test.go", "harness/C17/zz_verif_c17_e2e_test.go")]),
             dict(name="e2e_race", pkg="./internal/ipoe/", test="TestVerifC17E2E", timeout=900, race=True,
                  files=[("internal/ipoe/zz_verif_c17_e2e_test.go", "harness/C17/zz_verif_c17_e2e_test.go")]),
             dict(name="pppoe_restore", pkg="./internal/pppoe/", test="TestVerifC17Restore", timeout=600,
                  files=[("internal/pppoe/zz_verif_c17_restore_test.go", "harness/C17/zz_verif_c17_pppoe_restore_test.go")]),
             dict(name="ipoe_restore", pkg="./internal/ipoe/", test="TestVerifC17Restore", timeout=600,
                  files=[("internal/ipoe/zz_verif_c17_restore_test.go", "harness/C17/zz_verif_c17_ipoe_restore_test.go")]),
             dict(name="pppoe", pkg="./internal/pppoe/", test="TestVerifC17Callers", timeout=600,
                  files=[("internal/pppoe/zz_verif_c17_test.go", "harness/C17/zz_verif_c17_pppoe_test.go")])]
MODEL_NEEDS_IMPL = True
# No model variants: every recorded C17 finding is fixed in /repo (94649ad, c1f4ba1, 49433a1, d2827a3, e71725e); the model is what HEAD does and
# a regression to any of them is a VIOLATION.
RULE = ("seq: random sequential histories (1..40 ops) of Claim/Release/IsOwner/Lookup by 2..5 sessions of both protocols "
        "(plus rare foreign protocol strings, empty session ids, Owner.Key different from the claimed key) over 1..4 tuples "
        "drawn from a pool with colliding and non-colliding shard hashes, same MAC on different C-VLANs, VLAN 0/65535; "
        "interleaved with stored-tuple-count (every stored tuple must sit in the shard shardFor names) and MakeTupleKey (MAC "
        "length 0..8) observations, compared exactly, and shard observations (shards numbered in first-seen order), accepted when the "
        "same for the same tuple (hash and number of shards are implementation choices). "
        "conc/rconc: 2..8 goroutines x 2..14 ops on 1..3 tuples run against the real Registry (rconc under -race), half of "
        "them with a disturber that makes the workers queue behind the shard mutex; the recorded invocation/response "
        "history plus quiescent final reads is searched for a linearization against the extracted model. Non-trivial: "
        "seq case with a displaced owner reported; conc case in which two operations on the same tuple overlapped in "
        "real time. ipoe/pppoe: the components' own call sites (claimTuple/releaseTuple, addToIndexes/removeFromIndexes) on "
        "a real Registry with a recording event bus, interleaved with claims/releases by the other protocol; MAC slices of "
        "length 0..7, MixedAccess on/off; published terminate events compared exactly (non-trivial: at least one event). "
        "e2e: the real ipoe component (handleDiscover, handleSubscriberTerminate) and the real pppoe component (pppoe.New, "
        "Start, PADI/PADR through its packet channel) on ONE registry and ONE real local event bus on a mixed-access S-VLAN; "
        "random DISCOVER / PADR sequences (2..6) over 1..2 of 4 tuples; after every op the settled (live ipoe sessions, live "
        "pppoe sessions, owner protocol) of the tuple is compared with the model (non-trivial: a cross-protocol takeover). "
        "ae2e: the same two real components with the terminate events HELD by a bus wrapper and released one at a time (V), PADT for "
        "the tuple's current PPPoE session (X) and a published terminate request for its IPoE session (O): random interleavings of "
        "3..8 ops plus 0..4 draining V; rae2e = the same under the race detector (the real bus runs the two components' terminate "
        "handlers of one event as concurrent goroutines); for a delivery the model accepts either handler order. "
        "rpppoe/ripoe: ownership across RESTARTS - the real pppoe (resp. ipoe) component on an in-memory opdb that survives, sessions created "
        "as the creation paths build them and checkpointed, restart = new Registry + new component + restoreSessions, the other "
        "protocol's side simulated by the harness; random N/H/X/B sequences (2..7) on 1..2 tuples, all four tuples compared after "
        "every op (non-trivial: a session of the real component lives through a restart). "
        "wgl: hand-written histories fed to the driver's linearizability search, which must reject (8) / accept (4) / flag "
        "as malformed (2) them on every run. "
        "Distinct: by case text.")
TRUSTED = ["sync.RWMutex provides mutual exclusion (premise can_acquire of the small-step semantics in Atomic.v)",
           "sync/atomic counter used for invocation/response stamps is sequentially consistent",
           "OCaml linearizability search (ocaml/C17_run.ml) — a bug there can only raise an alarm or miss a non-linearizable "
           "history, it proves nothing"]
ASSUMPTIONS = ["Go strings Protocol/SessionID are modelled as byte lists compared bytewise",
               "each Registry method body is one critical section of the shard's RWMutex (tied to the code by the "
               "linearizability search and the -race run, not by a theorem about Go)"]


def hx(s):
    return s.encode().hex() if s else "-"


def key(s, c, mac):
    return "%d.%d.%s" % (s, c, mac)


def shard_of(k):
    s, c, m = k.split(".")
    b = bytes.fromhex(m)
    h = (int(s) << 16 | int(c)) ^ (b[0] << 24 | b[1] << 16 | b[2] << 8 | b[3]) ^ (b[4] << 8 | b[5])
    return h & 15


# pool of tuples: same shard / different shard / same MAC other C-VLAN / extremes
POOL = [key(100, 10, "02aabbcc0001"), key(100, 10, "02aabbcc0011"),   # shard 11, 11 (collide: m5 differs by 0x10)
        key(100, 10, "02aabbcc0002"), key(100, 11, "02aabbcc0001"),   # other shards; same MAC other C-VLAN
        key(100, 0, "02aabbcc0001"), key(101, 10, "02aabbcc0001"),    # untagged inner; other S-VLAN (same shard as #0)
        key(0, 0, "000000000000"), key(65535, 65535, "ffffffffffff"),
        key(100, 26, "02aabbcc0001"), key(200, 10, "0a0000001000")]
# tuples that differ from BASE in exactly ONE component, every component in turn (S-VLAN, C-VLAN, each MAC byte; a low and a high bit)
BASE = key(100, 10, "02aabbcc0001")
ONE_OFF = [key(101, 10, "02aabbcc0001"), key(356, 10, "02aabbcc0001"), key(100, 11, "02aabbcc0001"), key(100, 266, "02aabbcc0001"),
           key(100, 10, "03aabbcc0001"), key(100, 10, "82aabbcc0001"), key(100, 10, "02abbbcc0001"), key(100, 10, "022abbcc0001"),
           key(100, 10, "02aabacc0001"), key(100, 10, "02aa3bcc0001"), key(100, 10, "02aabbcd0001"), key(100, 10, "02aabb4c0001"),
           key(100, 10, "02aabbcc0101"), key(100, 10, "02aabbcc8001"), key(100, 10, "02aabbcc0000"), key(100, 10, "02aabbcc0081")]
PROTOS = ["ipoe", "pppoe"]
ODD_PROTOS = ["", "IPoE", "ipoe ", "l2tp", "pppo"]
SIDS = ["s1", "s2", "s3", "a", "b"]
ODD_SIDS = ["", "s1 ", "S1", "\x00"]


def rand_owner(rng, keys, k, odd=0.06):
    p = rng.choice(ODD_PROTOS) if rng.random() < odd else rng.choice(PROTOS)
    s = rng.choice(ODD_SIDS) if rng.random() < odd else rng.choice(SIDS[:rng.randint(2, len(SIDS))])
    ok = rng.choice(POOL) if rng.random() < odd else k
    return (hx(p), hx(s), ok)


def rand_op(rng, keys, owners, weights=(5, 3, 2, 2)):
    k = rng.choice(keys)
    kind = rng.choices("cril", weights=weights)[0]
    if kind == "l":
        return "l %s" % k
    p, s, ok = rng.choice(owners)
    if ok is None or rng.random() < 0.9:
        ok = k
    return "%s %s %s %s %s" % (kind, k, p, s, ok)


def pick_keys(rng, n):
    mode = rng.random()
    if mode > 0.8:           # BASE and tuples one component away from it
        return rng.sample([BASE] + ONE_OFF, n)
    if mode < 0.35:          # colliding shards
        base = rng.choice(POOL)
        sh = shard_of(base)
        same = [k for k in POOL if shard_of(k) == sh]
        ks = rng.sample(same, min(n, len(same)))
    elif mode < 0.5:         # fresh random tuples
        ks = [key(rng.choice([0, 1, 100, 4094, 65535]), rng.choice([0, 1, 10, 4094, 65535]),
                  "%012x" % rng.getrandbits(48)) for _ in range(n)]
    else:
        ks = rng.sample(POOL, n)
    return ks


def gen_seq(rng):
    nk = rng.randint(1, 4)
    keys = pick_keys(rng, nk)
    owners = [rand_owner(rng, keys, None) for _ in range(rng.randint(2, 5))]
    owners = [(p, s, None) for p, s, _ in owners]
    n = rng.randint(1, 40)
    ops = []
    for _ in range(n):
        x = rng.random()
        if x < 0.05:
            ops.append("n")
        elif x < 0.12 and len(ops) > 1:
            ops.append(rng.choice("vvw"))
        elif x < 0.15:
            ops.append("s %s" % rng.choice(keys + POOL))
        elif x < 0.18:
            ln = rng.choice([0, 1, 5, 6, 6, 6, 7, 8])
            ops.append("m %d %d %s" % (rng.choice([0, 1, 100, 65535]), rng.choice([0, 10, 65535]),
                                       ("%0*x" % (2 * ln, rng.getrandbits(8 * ln))) if ln else "-"))
        else:
            o = rand_op(rng, keys, owners)
            if rng.random() < 0.04:       # Owner.Key different from the claimed key
                t = o.split()
                if len(t) == 5:
                    t[4] = rng.choice(POOL)
                    o = " ".join(t)
            ops.append(o)
    ops.append("n")
    return "seq " + " ".join(ops)


def gen_conc(rng, tier, race=False):
    nk = rng.choice([1, 1, 1, 2, 2, 3])
    keys = pick_keys(rng, nk)
    nown = rng.randint(2, 4)
    owners = []
    for i in range(nown):
        owners.append((hx(PROTOS[i % 2] if rng.random() < 0.9 else rng.choice(PROTOS)), hx(SIDS[i]), None))
    big = tier != "quick"
    nt = rng.randint(2, 8)
    flags = "d%d" % (rng.random() < 0.6) + "y%d" % rng.choice([0, 0, 2, 5])
    toks = ["rconc" if race else "conc", flags, str(nt)]
    style = rng.random()
    for t in range(nt):
        n = rng.randint(2, 14 if big else 9)
        mine = [owners[t % nown]] if style < 0.5 else owners      # each goroutine is one session / any session
        w = (5, 3, 2, 2) if rng.random() < 0.7 else (6, 1, 1, 3)
        toks.append(str(n))
        toks += [rand_op(rng, keys, mine, w) for _ in range(n)]
    fin = []
    for k in keys:
        fin.append("l %s" % k)
        for p, s, _ in owners:
            fin.append("i %s %s %s %s" % (k, p, s, k))
    toks += ["fin", str(len(fin))] + fin
    return " ".join(toks)


STRUCT_SEQ = [
    # value, not alias: what Lookup/Claim returned stays what it was and cannot be used to edit the table
    "seq c 100.10.02aabbcc0001 {i} {s1} 100.10.02aabbcc0001 l 100.10.02aabbcc0001 c 100.10.02aabbcc0001 {p} {s2} 100.10.02aabbcc0001 v "
    "l 100.10.02aabbcc0001 w l 100.10.02aabbcc0001 i 100.10.02aabbcc0001 {p} {s2} 100.10.02aabbcc0001 n",
    "seq c 100.10.02aabbcc0001 {i} {s1} 100.10.02aabbcc0001 l 100.10.02aabbcc0001 c 100.10.02aabbcc0001 {i} {s1} 100.11.02aabbcc0001 v "
    "r 100.10.02aabbcc0001 {i} {s1} 100.10.02aabbcc0001 v",
    # the repository's own examples, as histories
    "seq c 100.10.02aabbcc0001 {i} {s1} 100.10.02aabbcc0001 l 100.10.02aabbcc0001 n",
    "seq c 100.10.02aabbcc0001 {i} {s1} 100.10.02aabbcc0001 c 100.10.02aabbcc0001 {i} {s1} 100.10.02aabbcc0001 n",
    "seq c 100.10.02aabbcc0001 {i} {s1} 100.10.02aabbcc0001 c 100.10.02aabbcc0001 {p} {s2} 100.10.02aabbcc0001 "
    "l 100.10.02aabbcc0001 i 100.10.02aabbcc0001 {i} {s1} 100.10.02aabbcc0001 i 100.10.02aabbcc0001 {p} {s2} 100.10.02aabbcc0001 n",
    # stale release after displacement must not remove the new owner
    "seq c 100.10.02aabbcc0001 {i} {s1} 100.10.02aabbcc0001 c 100.10.02aabbcc0001 {p} {s2} 100.10.02aabbcc0001 "
    "r 100.10.02aabbcc0001 {i} {s1} 100.10.02aabbcc0001 l 100.10.02aabbcc0001 n r 100.10.02aabbcc0001 {p} {s2} 100.10.02aabbcc0001 "
    "l 100.10.02aabbcc0001 n",
    # same session id under the other protocol is a different session
    "seq c 100.10.02aabbcc0001 {i} {s1} 100.10.02aabbcc0001 c 100.10.02aabbcc0001 {p} {s1} 100.10.02aabbcc0001 "
    "r 100.10.02aabbcc0001 {i} {s1} 100.10.02aabbcc0001 i 100.10.02aabbcc0001 {p} {s1} 100.10.02aabbcc0001 n",
    # same protocol, other session: displaced owner is reported as well
    "seq c 100.10.02aabbcc0001 {i} {s1} 100.10.02aabbcc0001 c 100.10.02aabbcc0001 {i} {s2} 100.10.02aabbcc0001 "
    "c 100.10.02aabbcc0001 {i} {s1} 100.10.02aabbcc0001 n",
    # colliding shard hashes do not interfere
    "seq s 100.10.02aabbcc0001 s 100.10.02aabbcc0011 c 100.10.02aabbcc0001 {i} {s1} 100.10.02aabbcc0001 "
    "c 100.10.02aabbcc0011 {p} {s2} 100.10.02aabbcc0011 l 100.10.02aabbcc0001 l 100.10.02aabbcc0011 "
    "r 100.10.02aabbcc0011 {p} {s2} 100.10.02aabbcc0011 l 100.10.02aabbcc0001 l 100.10.02aabbcc0011 n",
    # re-claim with a different Owner.Key replaces the stored value silently
    "seq c 100.10.02aabbcc0001 {i} {s1} 100.10.02aabbcc0001 c 100.10.02aabbcc0001 {i} {s1} 100.11.02aabbcc0001 l 100.10.02aabbcc0001 n",
    "seq m 100 10 - m 100 10 02 m 100 10 02aabbcc00 m 100 10 02aabbcc0001 m 100 10 02aabbcc000102 m 65535 0 ffffffffffffffff",
    "seq r 100.10.02aabbcc0001 {i} {s1} 100.10.02aabbcc0001 l 100.10.02aabbcc0001 i 100.10.02aabbcc0001 {i} {s1} 100.10.02aabbcc0001 n",
    "seq c 100.10.02aabbcc0001 - - 100.10.02aabbcc0001 i 100.10.02aabbcc0001 - - 100.10.02aabbcc0001 "
    "c 100.10.02aabbcc0001 - {s1} 100.10.02aabbcc0001 r 100.10.02aabbcc0001 - - 100.10.02aabbcc0001 l 100.10.02aabbcc0001 n",
]


def gen_cases(rng, tier, budget):
    cases = [s.replace("{i}", hx("ipoe")).replace("{p}", hx("pppoe")).replace("{s1}", hx("s1")).replace("{s2}", hx("s2"))
             for s in STRUCT_SEQ]
    # every pool tuple's shard, and all 16 low-nibble variations
    cases.append("seq " + " ".join("s %s" % k for k in POOL))
    # one-component block: BASE and every ONE_OFF tuple are claimed by different sessions, released and displaced independently
    for j, v in enumerate(ONE_OFF):
        a, b, c = hx("b%d" % j), hx("v%d" % j), hx("w%d" % j)
        cases.append("seq c %s %s %s %s c %s %s %s %s l %s l %s i %s %s %s %s i %s %s %s %s r %s %s %s %s l %s l %s c %s %s %s %s l %s n" % (
            BASE, hx("ipoe"), a, BASE, v, hx("pppoe"), b, v, BASE, v, BASE, hx("pppoe"), b, BASE, v, hx("ipoe"), a, v,
            v, hx("ipoe"), a, v, BASE, v, BASE, hx("pppoe"), c, BASE, v))
    cases.append("seq " + " ".join("c %s %s %s %s" % (k, hx("ipoe"), hx("o%d" % i), k) for i, k in enumerate([BASE] + ONE_OFF))
                 + " " + " ".join("l %s" % k for k in [BASE] + ONE_OFF) + " n")
    for j in range(0, len(ONE_OFF), 4):      # concurrently: goroutine per tuple, all first use
        ks = [BASE] + ONE_OFF[j:j + 4]
        progs = ["3 c %s %s %s %s l %s r %s %s %s %s" % (k, hx(PROTOS[t % 2]), hx("z%d" % t), k, k, k, hx(PROTOS[t % 2]), hx("z%d" % t), k)
                 for t, k in enumerate(ks)]
        cases.append("conc d0y2x10 %d %s fin %d %s" % (len(ks), " ".join(progs), len(ks), " ".join("l %s" % k for k in ks)))
    # both components / restarts: a session on the base tuple and one on each one-component variant never interfere
    for v in range(1, 10):
        cases.append("e2e D0 P%d D%d P0" % (v, v))
        cases.append("ae2e P0 D%d D0 V P%d V" % (v, v))
        cases.append("rpppoe N0 X%d B X0 N%d" % (v, v))
        cases.append("ripoe N0 X%d B X0 N%d A%d" % (v, v, (v % 9) + 1))
    cases.append("seq " + " ".join("s %s" % key(100, c, "02aabbcc%02x%02x" % (a, b))
                                   for c in (0, 5, 15, 16) for a in (0, 9, 255) for b in (0, 1, 8, 15, 16, 255)))
    quick = tier == "quick"
    nseq = budget or (1500 if quick else 40000)
    nconc = (budget // 4) if budget else (500 if quick else 10000)
    nrace = (budget // 20) if budget else (150 if quick else 1500)
    cases += E2E_FIXED + AE2E_FIXED
    for _ in range((budget // 40) if budget else (40 if quick else 500)):
        cases.append(gen_ae2e(rng))
    # the same under the race detector: the real bus starts both components' terminate handlers as goroutines
    cases += ["r" + c for c in AE2E_FIXED[:5]]
    for _ in range((budget // 80) if budget else (20 if quick else 200)):
        cases.append("r" + gen_ae2e(rng))
    for who in ("rpppoe", "ripoe"):
        cases += [who + " " + c for c in RESTORE_FIXED]
        for _ in range((budget // 40) if budget else (60 if quick else 1500)):
            cases.append(gen_restore(rng, who))
    cases += ["ripoe H0 B X0", "ripoe H1 B N1 X1", "ripoe H0 B B X0", "ripoe X0 H0 B X0",
              "ripoe A0 X0", "ripoe X0 A0", "ripoe A0 B X0", "ripoe N1 A1 X1", "ripoe A2 N2 B X2"]
    for _ in range((budget // 40) if budget else (50 if quick else 500)):
        cases.append(gen_e2e(rng))
    for who in ("ipoe", "pppoe"):
        other = "pppoe" if who == "ipoe" else "ipoe"
        k = POOL[0]
        # cross-protocol eviction, same-protocol takeover (no event), not mixed access (no-op), stale release
        cases.append("%s x %s %s %s C 100 10 02aabbcc0001 %s 1 l %s y %s %s %s l %s" % (
            who, k, hx(other), hx("s9"), hx("s1"), k, k, hx(other), hx("s9"), k))
        cases.append("%s x %s %s %s C 100 10 02aabbcc0001 %s 1 l %s" % (who, k, hx(who), hx("s9"), hx("s1"), k))
        cases.append("%s x %s %s %s C 100 10 02aabbcc0001 %s 0 l %s R 100 10 02aabbcc0001 %s 0 l %s" % (
            who, k, hx(other), hx("s9"), hx("s1"), k, hx("s1"), k))
        cases.append("%s C 100 10 02aabbcc0001 %s 1 x %s %s %s R 100 10 02aabbcc0001 %s 1 l %s" % (
            who, hx("s1"), k, hx(other), hx("s9"), hx("s1"), k))
        # forced overlap: the other protocol claims between any two registry calls of the call site
        for j in (0, 1, 2):
            cases.append("%s G %d x %s %s %s C 100 10 02aabbcc0001 %s 1 l %s" % (who, j, k, hx(other), hx("s9"), hx("s1"), k))
            cases.append("%s x %s %s %s G %d x %s %s %s C 100 10 02aabbcc0001 %s 1 l %s" % (
                who, k, hx(other), hx("s8"), j, k, hx(other), hx("s9"), hx("s1"), k))
            cases.append("%s x %s %s %s G %d y %s %s %s C 100 10 02aabbcc0001 %s 1 l %s" % (
                who, k, hx(other), hx("s8"), j, k, hx(other), hx("s8"), hx("s1"), k))
            cases.append("%s C 100 10 02aabbcc0001 %s 1 G %d x %s %s %s R 100 10 02aabbcc0001 %s 1 l %s" % (
                who, hx("s1"), j, k, hx(other), hx("s9"), hx("s1"), k))
        # the call sites on BASE and on each tuple one component away: claims, evictions and releases stay per tuple
        for v in ONE_OFF:
            sv, cv, m = v.split(".")
            cases.append("%s C 100 10 02aabbcc0001 %s 1 x %s %s %s C %s %s %s %s 1 l %s l %s R 100 10 02aabbcc0001 %s 1 l %s l %s" % (
                who, hx("s1"), v, hx(other), hx("s9"), sv, cv, m, hx("s2"), BASE, v, hx("s1"), BASE, v))
        for _ in range(300 if quick else 4000):
            cases.append(gen_callers(rng, who))
    for _ in range(nseq):
        cases.append(gen_seq(rng))
    # first use of a fresh registry / shard by several goroutines at once (no disturber: it would touch the shards first);
    # x<n> repeats the scenario on n fresh registries
    for i in range(12 if quick else 120):
        k = rng.choice(POOL)
        nt = rng.randint(2, 8)
        progs = ["1 c %s %s %s %s" % (k, hx(PROTOS[t % 2]), hx("f%d" % t), k) for t in range(nt)]
        cases.append("conc d0y0x40 %d %s fin 1 l %s" % (nt, " ".join(progs), k))
        k2 = rng.choice(POOL)
        progs = ["2 c %s %s %s %s l %s" % (k if t % 2 else k2, hx(PROTOS[t % 2]), hx("g%d" % t), k if t % 2 else k2, k if t % 2 else k2)
                 for t in range(nt)]
        cases.append("conc d0y0x25 %d %s fin 2 l %s l %s" % (nt, " ".join(progs), k, k2))
    for _ in range(nconc):
        cases.append(gen_conc(rng, tier))
    for _ in range(nrace):
        cases.append(gen_conc(rng, tier, race=True))
    return cases


def route(case):
    h = case.split(" ", 1)[0]
    return {"rconc": "session_race", "ipoe": "ipoe", "pppoe": "pppoe", "e2e": "e2e", "ae2e": "e2e", "rae2e": "e2e_race", "rpppoe": "pppoe_restore",
            "ripoe": "ipoe_restore"}.get(h, "session")


def gen_ae2e(rng):
    """asynchronous bus: creations, PADT (X), operator terminate of the IPoE session (O) and deliveries (V) interleave"""
    ts = rng.sample(range(10), rng.choice([1, 1, 2, 3]))
    ops = []
    for _ in range(rng.randint(3, 8)):
        k = rng.choice("DDQSPPPVVVVXO")
        ops.append("V" if k == "V" else k + str(rng.choice(ts)))
    ops += ["V"] * rng.choice([0, 2, 4])       # drain (more V than events is harmless)
    return "ae2e " + " ".join(ops)


AE2E_FIXED = ["ae2e D0 P0 V", "ae2e P0 D0 P0 V V", "ae2e P0 D0 O0 V V", "ae2e D0 P0 X0 V", "ae2e P0 P0 X0 V D0 V",
              "ae2e D0 P0 D0 V P0 V V", "ae2e P0 D0 X0 P0 V V V", "ae2e D1 P1 O1 X1 V V D1", "ae2e P0 Q0 S0 V P0 V"]


def gen_restore(rng, who):
    """ownership across restarts: N = the real component creates (and checkpoints) a session, H (ipoe) = checkpointed
    half-established, X = the other protocol's side gets a packet, B = restart (new registry, component restored from the opdb)"""
    ts = rng.sample(range(10), rng.choice([1, 2, 2, 3]))
    kinds = "NNXXB" + ("HA" if who == "ripoe" else "")
    ops = []
    for _ in range(rng.randint(2, 7)):
        k = rng.choice(kinds)
        ops.append("B" if k == "B" else k + str(rng.choice(ts)))
    if "B" not in ops:
        ops.insert(rng.randint(1, len(ops)), "B")
    return who + " " + " ".join(ops)


RESTORE_FIXED = ["N0 B X0", "X0 N0 B", "N0 N0 B X0", "N0 X0 B N0 B", "N1 X2 B X1 N2", "N0 B B X0", "X0 B N0 B X0", "N0 N1 B X1 B X0"]


def gen_e2e(rng):
    """real ipoe + pppoe components on one registry and one bus: DISCOVER / PADI+PADR on 1..2 tuples"""
    ts = rng.sample(range(10), rng.choice([1, 2, 2, 3]))
    return "e2e " + " ".join(rng.choice("DDQSPPP") + str(rng.choice(ts)) for _ in range(rng.randint(2, 6)))


E2E_FIXED = ["e2e D0 P0", "e2e P0 D0", "e2e D0 D0", "e2e P0 P0", "e2e D0 P0 D0 P0", "e2e P1 D1 P1", "e2e D0 P1 P0 D1",
             "e2e D2 P0 P2", "e2e P3 P3 D3", "e2e D3 P3 P3 D3",
             # every ipoe creation path against pppoe, both orders; packets of an existing session
             "e2e Q0 P0", "e2e S0 P0", "e2e P0 Q0", "e2e P0 S0", "e2e Q0 D0 P0", "e2e S1 Q1 D1", "e2e D2 Q2 S2 P2",
             "e2e Q3 P3 S3", "e2e P0 P0 P0 Q0 P0"]


def gen_callers(rng, who):
    """the component's own claim/release calls interleaved with registry calls by other parties"""
    other = "pppoe" if who == "ipoe" else "ipoe"
    tuples = [(100, 10, "02aabbcc0001"), (100, 11, "02aabbcc0001"), (100, 10, "02aabbcc0011"), (65535, 0, "ffffffffffff")]
    tuples += [tuple([int(x) if i < 2 else x for i, x in enumerate(k.split("."))]) for k in ONE_OFF]
    tuples = [tuples[0]] * (rng.random() < 0.5) + rng.sample(tuples[1:], rng.randint(1, 3))
    ops = []
    for _ in range(rng.randint(1, 16)):
        s, c, m = rng.choice(tuples)
        k = key(s, c, m)
        x = rng.random()
        if x < 0.4:
            mac = m if rng.random() < 0.9 else rng.choice(["-", m[:4], m + "aa"])
            ops.append("%s %d %d %s %s %d" % ("C" if rng.random() < 0.65 else "R", s, c, mac,
                                               hx(rng.choice(SIDS[:3] + [""])), rng.random() < 0.85))
        elif x < 0.44:
            ops.append("Z %d %d %s %s 1" % (s, c, m, hx(rng.choice(SIDS[:3]))))
        elif x < 0.6:
            # forced overlap at the call site: another party's Claim/Release lands before the j-th registry call
            p = other if rng.random() < 0.8 else who
            ops.append("G %d %s %s %s %s" % (rng.choice([0, 1, 1, 1, 2, 3]), "x" if rng.random() < 0.7 else "y", k, hx(p),
                                              hx(rng.choice(SIDS[:3]))))
            ops.append("%s %d %d %s %s %d" % ("C" if rng.random() < 0.75 else "R", s, c, m, hx(rng.choice(SIDS[:3])),
                                               rng.random() < 0.9))
            ops.append("l %s" % k)
        elif x < 0.75:
            p = other if rng.random() < 0.7 else rng.choice([who] + ODD_PROTOS)
            ops.append("%s %s %s %s" % ("x" if rng.random() < 0.7 else "y", k, hx(p), hx(rng.choice(SIDS[:3]))))
        else:
            ops.append("l %s" % k)
    for s, c, m in tuples:
        ops.append("l %s" % key(s, c, m))
    return who + " " + " ".join(ops)


OPLEN = {"c": 5, "r": 5, "i": 5, "l": 2, "s": 2, "m": 4, "n": 1, "C": 6, "R": 6, "x": 4, "y": 4, "Z": 6, "G": 6, "v": 1, "w": 1}


def split_ops(toks):
    ops, p = [], 0
    while p < len(toks):
        n = OPLEN[toks[p]]
        ops.append(toks[p:p + n])
        p += n
    return ops


def parse_conc(case):
    t = case.split()
    head, flags, nt = t[0], t[1], int(t[2])
    p = 3
    progs = []
    for i in range(nt + 1):
        if i == nt:
            p += 1
        n = int(t[p])
        p += 1
        ops = []
        for _ in range(n):
            ln = OPLEN[t[p]]
            ops.append(t[p:p + ln])
            p += ln
        progs.append(ops)
    return head, flags, progs


def emit_conc(head, flags, progs):
    toks = [head, flags, str(len(progs) - 1)]
    for i, ops in enumerate(progs):
        if i == len(progs) - 1:
            toks.append("fin")
        toks.append(str(len(ops)))
        for o in ops:
            toks += o
    return " ".join(toks)


def history(impl):
    """[(thread, idx, inv, res, result)] of a recorded history line"""
    out = []
    for tok in impl.split()[1:]:
        a = tok.split(":", 4)
        out.append((int(a[0]), int(a[1]), int(a[2]), int(a[3]), a[4]))
    return out


def overlaps(case, impl, kinds=None):
    """number of pairs of operations on the same tuple that overlapped in real time (kinds: restrict to a pair of op kinds)"""
    if not impl.startswith("H"):
        return 0
    if " | " in impl:
        return sum(overlaps(case, h, kinds) for h in impl.split(" | "))
    _, _, progs = parse_conc(case)
    recs = [(inv, res, progs[t][k][1], progs[t][k][0]) for t, k, inv, res, _ in history(impl)
            if t < len(progs) and k < len(progs[t])]
    recs.sort()
    n = 0
    for i, (inv, res, k, kd) in enumerate(recs):
        for inv2, res2, k2, kd2 in recs[i + 1:]:
            if inv2 > res:
                break
            if k2 == k and (kinds is None or {kd, kd2} == set(kinds)):
                n += 1
    return n


def nontrivial(case, out):
    if case.startswith("wgl"):
        return True
    if case.startswith(("rpppoe", "ripoe")):
        t = case.split()[1:]
        return ("B" in t and any(x[0] in "NHA" for x in t[:t.index("B")])) or any(x[0] == "A" for x in t)
    if case.startswith(("ae2e", "rae2e")):
        t = case.split()[1:]
        return "V" in t and any(x[0] in "XO" or (x[0] in "DQSP" and i > 0) for i, x in enumerate(t[:len(t) - 1 - t[::-1].index("V")]))
    if case.startswith("e2e"):
        t = case.split()[1:]
        return any((a[0] == "P") != (b[0] == "P") and a[1] == b[1] for a, b in zip(t, t[1:]))    # a cross-protocol takeover
    if case.startswith(("ipoe", "pppoe")):
        return "@" in out
    if case.startswith("seq"):
        return " o:" in (" " + out)
    return overlaps(case, out) > 0


def classify(case, impl, model):
    if impl.startswith("hang-skipped"):
        return "G", "case not run: the harness stopped after 3 hanging cases"
    if impl.startswith("hang"):
        return "P", "the call never returned (a method left the shard mutex locked, or deadlock); specification: %s" % model[:200]
    if impl.startswith("panic"):
        return "P", "the implementation panicked: %s" % impl[:200]
    if impl.startswith("crash:"):
        return "P", ("this case cannot run cleanly: %s (race = data race reported by the Go race detector, fatal = runtime fatal error "
                     "such as concurrent map access)" % impl)
    if impl.startswith("crash-unresolved"):
        return "G", "case not isolated: too many crashing cases in this run"
    if case.startswith("wgl"):
        return "G", "self-test of the linearizability checker failed: expected %s, the driver says %s" % (impl, model)
    if case.startswith(("rpppoe", "ripoe")):
        it, mt, ops = impl.split(), model.split(), case.split()[1:]
        for i, (a, b) in enumerate(zip(it, mt)):
            if a != b:
                return "P", ("ownership across restart (%s component real, other side simulated): after op #%d (%s) the tuples show %s "
                             "(live ipoe/pppoe sessions : owner), the specification gives %s" % (
                                 "pppoe" if case.startswith("rpppoe") else "ipoe", i, ops[i] if i < len(ops) else "?", a, b))
        return "P", "restore: %r vs %r" % (impl[:200], model[:200])
    if case.startswith(("e2e", "ae2e", "rae2e")) and ("!unsettled" in impl or impl.startswith("panic no_P")):
        return "G", "end-to-end run did not settle / no PADO-PADS within the harness deadline: %s" % impl[:200]
    if case.startswith(("e2e", "ae2e", "rae2e")):
        it, mt, ops = impl.split(), model.split(), case.split()[1:]
        for i, (a, b) in enumerate(zip(it, mt)):
            if a != b:
                return "P", ("both components end to end: after op #%d (%s) the tuple shows %s (live ipoe/pppoe sessions : owner), "
                             "the specification gives %s" % (i, ops[i] if i < len(ops) else "?", a, b))
        return "P", "end-to-end: %r vs %r" % (impl[:200], model[:200])
    if case.startswith(("ipoe", "pppoe")):
        it, mt = impl.split(), model.split()
        ops = split_ops(case.split()[1:])
        diff = [i for i in range(min(len(it), len(mt))) if it[i] != mt[i]]
        if not diff:
            return "P", "caller history: %d results, model %d" % (len(it), len(mt))
        i = diff[0]
        if mt[i].endswith("!nonatomic"):
            return "P", ("%s call site is not ONE atomic registry operation: with %s landing between its registry calls, op #%d (%s) "
                         "gave %s, which neither 'interloper first' nor 'interloper last' explains (the latter gives %s)" % (
                             case.split()[0], " ".join(ops[i - 1]) if i else "?", i, " ".join(ops[i]), it[i], mt[i][:-10]))
        return "P", "%s caller: op #%d (%s) gave %s, the specification gives %s" % (
            case.split()[0], i, " ".join(ops[i]), it[i], mt[i])
    if case.startswith("seq"):
        it, mt = impl.split(), model.split()
        ops = split_ops(case.split()[1:])
        if len(it) != len(mt):
            return "P", "sequential history: implementation printed %d results, model %d: impl=%r" % (len(it), len(mt), impl[:200])
        diff = [i for i in range(len(it)) if it[i] != mt[i]]
        if diff and all(ops[i][0] == "s" for i in diff):
            return "P", "shardFor is not a function of the tuple (two different shards for one tuple) at op #%d (%s): impl=%s (model prints %s)" % (
                diff[0], " ".join(ops[diff[0]]), it[diff[0]], mt[diff[0]])
        i = [d for d in diff if ops[d][0] != "s"][0] if diff else 0
        return "P", "sequential history: op #%d (%s) returned %s, the specification gives %s" % (
            i, " ".join(ops[i]), it[i], mt[i])
    if model.startswith("NONLIN"):
        return "P", "concurrent history is not linearizable w.r.t. the sequential specification: %s" % model[:400]
    return "G", "recorded history unusable: %s" % model[:300]


def shrink(case):
    t = case.split()
    if t[0] == "wgl":
        return
    if t[0] in ("e2e", "ae2e", "rae2e", "rpppoe", "ripoe"):
        for i in range(1, len(t)):
            if len(t) > 2:
                yield " ".join(t[:i] + t[i + 1:])
        return
    if t[0] in ("seq", "ipoe", "pppoe"):
        ops = split_ops(t[1:])
        n = len(ops)
        if n > 4:
            for a, b in ((0, n // 2), (n // 2, n), (n // 4, n), (0, 3 * n // 4)):
                yield t[0] + " " + " ".join(" ".join(o) for o in ops[a:b])
        for i in range(n):
            r = ops[:i] + ops[i + 1:]
            if r:
                yield t[0] + " " + " ".join(" ".join(o) for o in r)
        return
    head, flags, progs = parse_conc(case)
    nt = len(progs) - 1
    # a concurrent failure may need several attempts: shrunk candidates repeat the scenario 40 times
    if "x" not in flags:
        flags += "x40"
        yield emit_conc(head, flags, progs)
    cands = []
    for i in range(nt):
        if nt > 2:
            cands.append(progs[:i] + progs[i + 1:])
    for i in range(nt):
        ops = progs[i]
        if len(ops) > 1:
            cands.append(progs[:i] + [ops[:len(ops) // 2]] + progs[i + 1:])
            cands.append(progs[:i] + [ops[len(ops) // 2:]] + progs[i + 1:])
    for i in range(nt + 1):
        for j in range(len(progs[i])):
            if len(progs[i]) > 1 or i == nt:
                cands.append(progs[:i] + [progs[i][:j] + progs[i][j + 1:]] + progs[i + 1:])
    for c in cands:
        yield emit_conc(head, flags, c)


def distribution(cases, impl):
    d = {"ha_promotions": 0, "rae2e": 0, "ae2e_under_race_detector": 0, "ae2e": 0, "ae2e_ops": 0, "ae2e_deliveries": 0, "ae2e_padt": 0, "ae2e_oper_terminate": 0,
         "ae2e_states_with_both_protocols_live_pending_eviction": 0, "ae2e_final_states_both_protocols_live": 0,
         "rpppoe": 0, "ripoe": 0, "restarts": 0, "restored_live_sessions_own_tuple": 0, "restored_live_sessions_without_owner": 0,
         "seq": 0, "conc": 0, "rconc": 0, "ipoe": 0, "pppoe": 0, "wgl": 0, "wgl_reject": 0, "e2e": 0, "e2e_ops": 0,
         "e2e_cross_protocol_takeovers": 0, "e2e_both_gone_after_takeover": 0, "e2e_both_protocols_live": 0, "caller_claims": 0, "caller_releases": 0, "gated_call_sites": 0, "gate_fired_inside": 0,
         "eviction_events": 0, "ops": 0, "claim": 0, "release": 0, "isowner": 0, "lookup": 0,
         "shard_obs": 0, "count_obs": 0, "makekey": 0, "alias_reread": 0, "alias_scribble": 0, "displaced_reported": 0, "claims_nil": 0,
         "conc_ops": 0, "conc_with_overlap": 0, "overlapping_same_tuple_pairs": 0, "overlapping_claim_claim_pairs": 0, "overlapping_claim_release_pairs": 0, "max_threads": 0,
         "isowner_true": 0, "lookup_nil": 0, "hang": 0}
    names = {"c": "claim", "r": "release", "i": "isowner", "l": "lookup", "s": "shard_obs", "n": "count_obs", "m": "makekey",
             "v": "alias_reread", "w": "alias_scribble"}
    for c, o in zip(cases, impl):
        t = c.split()
        d[t[0]] += 1
        d["hang"] += o.startswith("hang")
        if t[0] == "wgl":
            d["wgl_reject"] += t[1] == "reject"
            continue
        if t[0] in ("ae2e", "rae2e"):
            d["ae2e_under_race_detector"] += t[0] == "rae2e"
            ops, res = t[1:], o.split()
            d["ae2e_ops"] += len(ops)
            d["ae2e_deliveries"] += ops.count("V")
            d["ae2e_padt"] += sum(x[0] == "X" for x in ops)
            d["ae2e_oper_terminate"] += sum(x[0] == "O" for x in ops)
            both = lambda tok: any(":i0" not in x and "p0:" not in x for x in tok.split(","))
            d["ae2e_states_with_both_protocols_live_pending_eviction"] += sum(both(r) for r in res[:-1])
            if res and ops[-4:] == ["V"] * 4:
                d["ae2e_final_states_both_protocols_live"] += both(res[-1])
            continue
        if t[0] in ("rpppoe", "ripoe"):
            d["ha_promotions"] += sum(x[0] == "A" for x in t[1:])
            for op, r in zip(t[1:], o.split()):
                if op == "B":
                    d["restarts"] += 1
                    for tok in r.split(","):
                        parts = tok.split(":")
                        if len(parts) == 3 and parts[1] != "i0p0":
                            d["restored_live_sessions_own_tuple" if parts[2] != "-" else "restored_live_sessions_without_owner"] += 1
            continue
        if t[0] == "e2e":
            ops, res = t[1:], o.split()
            d["e2e_ops"] += len(ops)
            for i in range(1, len(ops)):
                if (ops[i][0] == "P") != (ops[i - 1][0] == "P") and ops[i][1] == ops[i - 1][1] and i < len(res):
                    d["e2e_cross_protocol_takeovers"] += 1
                    first = res[i].split(",")[0]
                    d["e2e_both_gone_after_takeover"] += first.endswith(":i0p0:-")
                    d["e2e_both_protocols_live"] += ":i0" not in first and "p0:" not in first
            continue
        if t[0] in ("ipoe", "pppoe"):
            for op, r in zip(split_ops(t[1:]), o.split()):
                d["gated_call_sites"] += op[0] in "CR" and "/" in r
                d["gate_fired_inside"] += op[0] in "CR" and "/g:" in r
                d["caller_claims"] += op[0] == "C"
                d["caller_releases"] += op[0] == "R"
                d["eviction_events"] += r.count("@")
            continue
        if t[0] == "seq":
            ops = split_ops(t[1:])
            res = o.split()
        else:
            _, _, progs = parse_conc(c)
            d["max_threads"] = max(d["max_threads"], len(progs) - 1)
            ops, res = [], []
            for hh in o.split(" | "):
                if hh.startswith("H"):
                    for tt, k, _, _, r in history(hh):
                        ops.append(progs[tt][k])
                        res.append(r)
            d["conc_ops"] += len(ops)
            ov = overlaps(c, o)
            d["overlapping_same_tuple_pairs"] += ov
            d["overlapping_claim_claim_pairs"] += overlaps(c, o, "c")
            d["overlapping_claim_release_pairs"] += overlaps(c, o, "cr")
            d["conc_with_overlap"] += ov > 0
        for op, r in zip(ops, res):
            d["ops"] += 1
            d[names[op[0]]] += 1
            if op[0] == "c":
                d["displaced_reported" if r.startswith("o:") else "claims_nil"] += 1
            if op[0] == "i" and r == "T":
                d["isowner_true"] += 1
            if op[0] == "l" and r == "nil":
                d["lookup_nil"] += 1

    return d
