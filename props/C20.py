"""C20 — telemetry counts every emission exactly once under concurrency (pkg/telemetry)."""
import re

ID = "C20"
_F = [("pkg/telemetry/zz_verif_c20_test.go", "harness/C20/zz_verif_c20_test.go")]
HARNESSES = [dict(name="telemetry", pkg="./pkg/telemetry/", test="TestVerifC20", files=_F, timeout=900),
             dict(name="telemetry_race", pkg="./pkg/telemetry/", test="TestVerifC20", files=_F, timeout=900, race=True)]
# all recorded findings are fixed in /repo: only the repaired machine is an admissible explanation of an observation
# (the driver still knows the "defective" variant for replays: build/bin/C20_run <cases> <impl> defective)
VARIANTS = ["repaired"]
MODEL_NEEDS_IMPL = True

RULE = ("seq: random single-client histories (5-40 ops) over counter/gauge/histogram metrics with cap in "
        "{-1,0(default 10000),1,2,3}, 0-3 labels, tuples drawn from pools that contain adjacent tuples "
        "((ab,c)/(a,bc)/(abc,-)), genuine 64-bit hash collisions ((a\\xff,b)/(a,\\xffb): identical hashed byte stream) "
        "and wrong-arity tuples; ops resolve / emit via handle / emit by tuple / unregister / snapshot (AppendSnapshot incl. "
        "internal drop metrics) / subscribe / unsubscribe / forced tick / drain; counter deltas incl. 0, 2^53, 2^63, 2^64-1 (wrap). "
        "Compared token by token with the model run single-threaded. "
        "conc/rconc (rconc = built with -race): 2-4 real goroutines released together by a spin barrier, each running 1-3 ops "
        "(creators racing for the last slot under cap 1-2, double unregister, emit via handle vs unregister, emit by tuple vs "
        "roll-back, colliding tuples), optional noise goroutine (never-reading subscriber, subscribe/unsubscribe, snapshots, forced "
        "ticks), repeated 3000-60000 times on fresh registries; the set of distinct quiescent observations (series map, "
        "seriesCount, drop counters, per-goroutine handle class live/stale/orphan/tombstone with value, conservation residue "
        "'lost') must each be reachable in the exhaustively explored step-interleaving model. "
        "reg/rreg: 2-4 goroutines released by the barrier straight into Register{Counter,Gauge,Histogram} on a fresh registry "
        "(first registration of one name by all, two names, Counter vs Gauge vs Histogram on one name, schema mismatch, "
        "re-registration of a pre-registered name), each then emitting through the metric object IT obtained; observation per "
        "name from the object the registry maps the name to: number of distinct objects handed out, series, counters, per-goroutine "
        "registration result and handle class (O = series of an object the registry does not know), conservation residue; must be in "
        "(reachable registration outcomes) x (reachable metric observations). "
        "churn/rchurn: nU goroutines looping UnregisterSeries(A), nC looping WithLabelValues(A)+emit keeping every handle, nE "
        "looping emit-by-tuple, spin barrier before every iteration, repeated on fresh metrics for a time budget; at quiescence "
        "every handle ever handed out emits once more and the conservation monitor must report 0 orphans / 0 lost / no overcap / "
        "no drift (decided by the theorems for all programs and schedules, no exploration). "
        "bulk/rbulk: a metric of each kind registered with MaxSeriesPerMetric left at 0 (default 10000), explicit, or negative "
        "(unbounded), 10400 distinct tuples resolved and emitted to by 1 or 4 goroutines: series <= effective cap, seriesCount = "
        "series, every emission in its series or a cardinality drop. "
        "Non-trivial: seq case with a series, and a tombstone, unregister, or drop; conc case with >= 2 distinct observations.")
TRUSTED = ["sync/atomic sequentially consistent, sync.Map Load/LoadOrStore/Delete/CompareAndDelete linearizable (each call = one atomic step of the model)",
           "histogram Observe (3 atomic updates + CAS loop) and gauge Add (CAS loop) are modelled as one atomic update at their linearization point",
           "gauge/histogram values are integer-valued float64 below 2^53 in the generated cases (exact)",
           "the concurrent correspondence is a stress test: an interleaving that the Go scheduler never produces is not exercised on the implementation"]
ASSUMPTIONS = ["label values are arbitrary byte strings (Go strings); the delimiter-injectivity theorem assumes no 0xFF byte (valid UTF-8)",
               "markDirty/dirty flag and the tick are covered sequentially only (forced publishTick); the timer goroutine is not modelled"]

T64 = 1 << 64


def hx(s):
    return "".join("%02x" % b for b in s) if s else "-"


def tup(*vals):
    return ",".join(hx(v) for v in vals) if vals else "_"


POOL = {
    0: [tup()],
    1: [tup(b"A"), tup(b"B"), tup(b"C"), tup(b"D"), tup(b""), tup(b"\xff"), tup(b"AB")],
    2: [tup(b"ab", b"c"), tup(b"a", b"bc"), tup(b"abc", b""), tup(b"", b"abc"), tup(b"a\xff", b"b"), tup(b"a", b"\xffb"),
        tup(b"", b""), tup(b"\xff", b""), tup(b"", b"\xff"), tup(b"x", b"y")],
    3: [tup(b"a", b"b", b"c"), tup(b"a\xff", b"", b"b"), tup(b"a", b"\xff", b"b"), tup(b"a", b"", b"\xffb"), tup(b"", b"", b""),
        tup(b"ab", b"", b"c")],
}
# tuples that differ in EXACTLY ONE component (each component in turn), long values, multi-byte UTF-8
LONG = b"GigabitEthernet0/0/0.4094-subscriber-group-residential"
POOL[1] += [tup(LONG), tup(LONG[:-1] + b"X"), tup("\u00e9".encode()), tup(b"e")]
POOL[2] += [tup(b"k", b"v1"), tup(b"k", b"v2"), tup(b"k1", b"v"), tup(b"k2", b"v"), tup(LONG, b"red"), tup(LONG, b"rec"),
            tup(b"red", LONG), tup(b"rec", LONG)]
POOL[3] += [tup(b"p", b"q", b"r"), tup(b"p2", b"q", b"r"), tup(b"p", b"q2", b"r"), tup(b"p", b"q", b"r2"),
            tup(LONG, b"q", b"r"), tup(b"p", LONG, b"r"), tup(b"p", b"q", LONG)]
ONEDIFF2 = [tup(b"k", b"v1"), tup(b"k", b"v2"), tup(b"k1", b"v"), tup(b"k2", b"v")]
CDELTAS = [0, 1, 1, "01", 2, 5, 7, 1 << 53, (1 << 53) - 1, 1 << 63, T64 - 1, 1000]     # "1" = Inc(), "01" = Add(1)
GDELTAS = [-5, -1, -1, "-01", 0, 1, 1, "01", 2, 3, 10, 1 << 40, -(1 << 40)]   # 1 = Inc, -1 = Dec, -n = Sub(n), 01/-01 = Add
HVALS = [-1, 0, 1, 2, 5, 6, 10, 11, 100]


def gen_seq(rng, long=False):
    kind = rng.choice("ccgh")
    cap = rng.choice([-1, 0, 1, 1, 2, 2, 3])
    nl = rng.choice([0, 1, 1, 2, 2, 2, 3])
    bk = "-"
    if kind == "h":
        bk = rng.choice(["1,5,10", "0", "1,1,2", "-3,0,3", "5", "-", "-"])      # "-" = Buckets omitted: defaults
    pool = POOL[nl]
    if rng.random() < 0.5:
        pool = rng.sample(pool, min(len(pool), rng.randint(1, 4)))
    wrong = POOL[(nl + 1) % 4]
    n = rng.randint(5, 40 if not long else 120)
    ops = []
    nslots = 0
    nsubs = 0
    for _ in range(n):
        r = rng.random()
        t = rng.choice(pool) if rng.random() > 0.04 else rng.choice(wrong)
        d = rng.choice(CDELTAS if kind == "c" else GDELTAS if kind == "g" else HVALS)
        if r < 0.22:
            ops.append("r:" + t)
            nslots += 1
        elif r < 0.50:
            k = rng.randrange(nslots) if nslots and rng.random() > 0.03 else nslots + 1
            code = "S" if kind == "g" and rng.random() < 0.4 else "e"
            ops.append("%s:%d:%s" % (code, k, d))
        elif r < 0.64:
            code = "A" if kind == "g" and rng.random() < 0.4 else "a"
            ops.append("%s:%s:%s" % (code, t, d))
        elif r < 0.76:
            ops.append("u:" + t)
        elif r < 0.86:
            ops.append("s")
        elif r < 0.90:
            ops.append("sub:%d" % rng.choice([0, 1, 1, 2, 3]))
            nsubs += 1
        elif r < 0.95:
            ops.append("tick")
        elif r < 0.98:
            ops.append("drain:%d:%d" % (rng.randrange(nsubs + 1), rng.randint(0, 4)))
        else:
            ops.append("unsub:%d" % rng.randrange(nsubs + 1))
    ops.append("s")
    return "seq %s %d %d %s %s" % (kind, cap, nl, bk, " ".join(ops))


A, B, C, D = tup(b"A"), tup(b"B"), tup(b"C"), tup(b"D")
X1, X2 = tup(b"a\xff", b"b"), tup(b"a", b"\xffb")     # colliding pair (2 labels)

# named boundary scenarios: (kind, cap, nlabels, setup, progs)
SCENARIOS = [
    ("last-slot-2-creators", "c", 1, 1, "-", ["r:%s/e:0:1" % A, "r:%s/e:0:1" % B]),
    ("last-slot-3-creators", "c", 1, 1, "-", ["r:%s/e:0:1" % A, "r:%s/e:0:1" % B, "r:%s/e:0:1" % B]),
    ("last-slot-4-creators", "c", 1, 1, "-", ["r:%s/e:0:1" % A, "r:%s/e:0:1" % B, "r:%s/e:0:1" % A, "r:%s/e:0:1" % B]),
    ("last-slot-emit-by-tuple", "c", 1, 1, "-", ["r:%s" % A, "r:%s" % B, "a:%s:3" % A]),
    ("cap2-3-creators", "c", 2, 1, "r:%s" % A, ["r:%s/e:1:1" % B, "r:%s/e:1:1" % C, "r:%s/e:1:2" % D]),
    ("double-unregister", "c", 2, 1, "r:%s/r:%s" % (A, B), ["u:%s" % A, "u:%s/r:%s/r:%s" % (A, C, D)]),
    ("double-unregister-3", "c", 2, 1, "r:%s/r:%s" % (A, B), ["u:%s" % A, "u:%s" % A, "u:%s" % A]),
    ("emit-vs-unregister", "c", 2, 1, "r:%s" % A, ["e:0:1/e:0:1", "u:%s" % A, "a:%s:5" % A]),
    ("unregister-vs-recreate", "c", 1, 1, "r:%s" % A, ["u:%s/r:%s" % (A, A), "r:%s/e:1:1" % A, "e:0:2"]),
    ("unregister-vs-rollback", "c", 1, 1, "-", ["r:%s" % A, "r:%s" % B, "u:%s" % A]),
    ("same-tuple-creators", "c", 3, 1, "-", ["r:%s/e:0:1" % A, "r:%s/e:0:2" % A, "r:%s/e:0:3" % A]),
    ("colliding-creators", "c", 2, 2, "-", ["r:%s/e:0:1" % X1, "r:%s/e:0:1" % X2, "a:%s:1" % X1]),
    ("colliding-unregister", "c", 2, 2, "r:%s" % X1, ["u:%s" % X1, "r:%s/e:1:1" % X2, "u:%s" % X2]),
    ("hist-last-slot", "h", 1, 1, "-", ["r:%s/e:0:1" % A, "r:%s/e:0:3" % B, "r:%s/e:0:7" % B]),
    ("hist-hot-series-sum-and-buckets", "h", 2, 1, "r:%s" % A, ["e:0:0/e:0:3/e:0:7", "e:0:1/e:0:5/e:0:6", "a:%s:9/e:0:2" % A]),
    ("hist-double-unregister", "h", 2, 1, "r:%s/r:%s" % (A, B), ["u:%s" % A, "u:%s/r:%s/r:%s" % (A, C, D)]),
    ("hot-handle-emitters", "c", 2, 1, "r:%s" % A, ["e:0:1/e:0:2/e:0:3", "e:0:1/e:0:2/e:0:3", "e:0:5/a:%s:7" % A]),
    ("two-unregisters-vs-recreate", "c", 2, 1, "r:%s" % A, ["u:%s" % A, "u:%s" % A, "r:%s/e:1:1" % A]),
    ("hist-two-unregisters-vs-recreate", "h", 2, 1, "r:%s" % A, ["u:%s" % A, "u:%s" % A, "r:%s/e:1:1" % A]),
    ("gauge-add-vs-set", "g", 2, 1, "r:%s" % A, ["e:0:1/e:0:2", "S:0:10", "e:0:4"]),
    ("gauge-concurrent-sets", "g", 2, 1, "r:%s" % A, ["S:0:1", "S:0:2", "S:0:3/e:0:5"]),
    ("gauge-last-slot", "g", 1, 1, "-", ["r:%s/e:0:1" % A, "r:%s/e:0:1" % B, "r:%s/S:0:7" % B]),
    ("gauge-unregister-vs-add", "g", 2, 1, "r:%s" % A, ["e:0:1/e:0:2", "u:%s" % A, "r:%s/e:1:4" % A]),
    ("adjacent-tuples-last-slot", "c", 1, 2, "-", ["r:6162,63/e:0:1", "r:61,6263/e:0:1", "a:6162,63:2"]),
    ("colliding-tuples-last-slot", "h", 1, 2, "-", ["r:%s/e:0:1" % X1, "r:%s/e:0:1" % X2, "a:%s:1" % X2]),
    ("gauge-set-by-tuple", "g", 2, 1, "r:%s" % A, ["A:%s:7" % A, "e:0:1", "A:%s:9/a:%s:2" % (A, A)]),
    ("gauge-inc-dec-sub-at-cap-and-stale", "g", 1, 1, "r:%s" % A, ["e:0:1/e:0:-1", "u:%s" % A, "r:%s/e:1:-1/e:1:-3" % B]),
    ("differ-in-last-component-only", "c", 2, 2, "-", ["r:%s/e:0:1" % ONEDIFF2[0], "r:%s/e:0:2" % ONEDIFF2[1], "a:%s:4" % ONEDIFF2[0]]),
    ("differ-in-first-component-only", "h", 2, 2, "-", ["r:%s/e:0:1" % ONEDIFF2[2], "r:%s/e:0:3" % ONEDIFF2[3], "a:%s:7" % ONEDIFF2[3]]),
    ("unbounded-creators", "c", -1, 1, "-", ["r:%s/e:0:1" % A, "r:%s/e:0:1" % B, "r:%s/e:0:1" % A]),
]


def conc_line(kind, cap, nl, rounds, noise, setup, progs, race=False):
    return "%s %s %d %d %d %d %s %s" % ("rconc" if race else "conc", kind, cap, nl, rounds, noise, setup, " ".join(progs))


def gen_conc_random(rng, rounds, race=False):
    kind = rng.choice("ccchg")
    nl = rng.choice([1, 1, 1, 2])
    pool = [A, B, C] if nl == 1 else [X1, X2, tup(b"ab", b"c"), tup(b"a", b"bc")]
    pool = rng.sample(pool, rng.randint(1, len(pool)))
    cap = rng.choice([1, 1, 2, 2, 3, -1])
    nsetup = rng.randint(0, 2)
    setup = ["r:" + rng.choice(pool) for _ in range(nsetup)]
    nthreads = rng.choice([2, 3, 3, 4])
    budget = 6 if nthreads <= 3 else 5
    progs = []
    for i in range(nthreads):
        left = budget - sum(len(p) for p in progs) - (nthreads - i - 1)
        k = max(1, min(rng.randint(1, 3), left))
        p, ns = [], nsetup
        for _ in range(k):
            r = rng.random()
            t = rng.choice(pool)
            d = rng.choice([0, 1, 3, 7]) if kind == "h" else rng.choice([1, 2, 3])     # histogram: observed value (weight 1)
            if r < 0.45:
                p.append("r:" + t)
                ns += 1
            elif r < 0.65 and ns:
                p.append("e:%d:%d" % (rng.randrange(ns), d))
            elif r < 0.8:
                p.append("a:%s:%d" % (t, d))
            else:
                p.append("u:" + t)
        progs.append("/".join(p))
    return conc_line(kind, cap, nl, rounds, rng.choice([0, 0, 1]), "/".join(setup) or "-", progs, race)


# registration scenarios: (cap, pre-registered?, threads name@kind@nlabels@prog)
REG_SCENARIOS = [
    ("first-registration-4", 2, 0, ["a@c@1@r:%s/e:0:1" % A, "a@c@1@r:%s/e:0:1" % A, "a@c@1@r:%s/e:0:1" % A, "a@c@1@a:%s:1" % A]),
    ("first-registration-3-tuples", 2, 0, ["a@c@1@r:%s/e:0:1" % A, "a@c@1@r:%s/e:0:2" % B, "a@c@1@r:%s/e:0:3" % A]),
    ("two-names", 2, 0, ["a@c@1@r:%s/e:0:1" % A, "a@c@1@r:%s/e:0:1" % A, "b@c@1@r:%s/e:0:1" % A, "b@c@1@a:%s:1" % A]),
    ("type-race", 2, 0, ["a@c@1@r:%s/e:0:1" % A, "a@g@1@-", "a@c@1@r:%s/e:0:1" % A]),
    ("type-race-3-kinds", 2, 0, ["a@c@1@-", "a@g@1@-", "a@h@1@r:%s/e:0:1" % A]),
    ("schema-race", 2, 0, ["a@c@1@r:%s/e:0:1" % A, "a@c@2@r:%s/e:0:1" % X1, "a@c@1@r:%s/e:0:1" % A]),
    ("reregistration-vs-emission", 2, 1, ["a@c@1@r:%s/e:0:1" % A, "a@c@1@r:%s/e:0:2" % A, "a@c@1@a:%s:4" % A]),
    ("hist-first-registration", 1, 0, ["a@h@1@r:%s/e:0:1" % A, "a@h@1@r:%s/e:0:1" % B, "a@h@1@r:%s/e:0:1" % A]),
    ("gauge-first-registration", 2, 0, ["a@g@1@r:%s" % A, "a@g@1@r:%s" % A, "b@g@1@r:%s" % B]),
    # label schema is positional: permuted / subset / superset / duplicate label-name lists must be refused
    ("schema-permuted", 3, 0, ["a@c@L0.1@r:%s/e:0:1" % X1, "a@c@L1.0@r:%s/e:0:1" % X1, "a@c@L0.1@r:%s/e:0:2" % X2]),
    ("schema-permuted-reregistration", 3, 1, ["a@c@L0.1@r:%s/e:0:1" % X1, "a@c@L1.0@r:%s/e:0:1" % X1, "a@g@L1.0@-"]),
    ("schema-subset-superset", 3, 1, ["a@h@L0.1@r:%s/e:0:1" % X1, "a@h@L0@r:%s/e:0:1" % A, "a@h@L0.1.2@-"]),
    ("schema-duplicate-names", 3, 0, ["a@g@L0.0@r:%s" % X1, "a@g@L0.1@r:%s/e:0:1" % X1, "a@g@L1.1@-"]),
]


def reg_line(cap, rounds, noise, pre, ths, race=False):
    return "%s %d %d %d %d %s" % ("rreg" if race else "reg", cap, rounds, noise, pre, " ".join(ths))


def gen_reg_random(rng, rounds, race=False):
    n = rng.choice([2, 3, 3, 4])
    ths = []
    budget = 6
    for i in range(n):
        name = rng.choice("aab")
        kind = rng.choice("cccch" if rng.random() < 0.8 else "cg")
        nl = 1 if rng.random() < 0.8 else 2
        pool = [A, B] if nl == 1 else [X1, X2]
        k = min(rng.randint(0, 2), max(0, budget - (n - i - 1)))
        budget -= k
        ops, ns = [], 0
        for _ in range(k):
            t = rng.choice(pool)
            r = rng.random()
            if kind == "g" or r < 0.5:
                ops.append("r:" + t)
                ns += 1
            elif r < 0.75 and ns:
                ops.append("e:%d:%d" % (rng.randrange(ns), 1 if kind == "h" else rng.choice([1, 2])))
            elif r < 0.9:
                ops.append("a:%s:%d" % (t, 1 if kind == "h" else rng.choice([1, 3])))
            else:
                ops.append("u:" + t)
        spec = str(nl) if nl == 1 or rng.random() < 0.5 else rng.choice(["L1.0", "L0.1", "L0.0", "L1.2"])
        ths.append("%s@%s@%s@%s" % (name, kind, spec, "/".join(ops) or "-"))
    return reg_line(rng.choice([1, 2, 2, -1]), rounds, rng.choice([0, 0, 1]), rng.choice([0, 0, 0, 1]), ths, race)


def gen_cases(rng, tier, budget):
    quick = tier != "thorough"
    cases = []
    nseq = (budget or 700) if quick else (budget or 20000)
    for i in range(nseq):
        cases.append(gen_seq(rng, long=(i % 10 == 0)))
    rounds = 6000 if quick else 30000
    for name, kind, cap, nl, setup, progs in SCENARIOS:
        cases.append(conc_line(kind, cap, nl, rounds, 0, setup, progs))
    for name, kind, cap, nl, setup, progs in SCENARIOS[:3] + SCENARIOS[5:6]:
        cases.append(conc_line(kind, cap, nl, rounds // 3, 1, setup, progs))
    for _ in range(6 if quick else 60):
        cases.append(gen_conc_random(rng, rounds // 2))
    # the same under the race detector (different scheduling, and data races would fail the run)
    rr = 1500 if quick else 8000
    for name, kind, cap, nl, setup, progs in (SCENARIOS[1:2] + SCENARIOS[5:6] + SCENARIOS[7:8]) if quick else SCENARIOS:
        cases.append(conc_line(kind, cap, nl, rr, 1, setup, progs, race=True))
    for _ in range(2 if quick else 15):
        cases.append(gen_conc_random(rng, rr, race=True))
    # metric registration racing registration, emission and snapshots
    for name, cap, pre, ths in REG_SCENARIOS:
        cases.append(reg_line(cap, rounds, 0, pre, ths))
    for name, cap, pre, ths in REG_SCENARIOS[:1] + REG_SCENARIOS[3:4] + REG_SCENARIOS[6:7]:
        cases.append(reg_line(cap, rounds // 3, 1, pre, ths))
    for _ in range(5 if quick else 60):
        cases.append(gen_reg_random(rng, rounds // 2))
    for name, cap, pre, ths in (REG_SCENARIOS[:1] + REG_SCENARIOS[3:4]) if quick else REG_SCENARIOS:
        cases.append(reg_line(cap, rr, 1, pre, ths, race=True))
    for _ in range(1 if quick else 15):
        cases.append(gen_reg_random(rng, rr, race=True))
    # unregister / re-create / emit loops on ONE tuple, barrier before every iteration; the conservation monitor decides
    ms = 900 if quick else 4000
    for kind in "hcg":
        cases.append("churn %s 2 %d 40 2 2 1 0" % (kind, ms))
    cases.append("churn h 1 %d 40 2 3 0 0" % ms)
    cases.append("churn c 2 %d 40 3 2 1 1" % (ms // 2))
    if not quick:
        for kind in "hcg":
            cases.append("churn %s %d %d %d %d %d %d %d" % (kind, rng.choice([1, 2, -1]), ms, rng.choice([10, 40, 200]),
                                                             rng.randint(2, 4), rng.randint(1, 3), rng.randint(0, 2), rng.randint(0, 1)))
    cases.append("rchurn h 2 %d 40 2 2 1 0" % ms)
    # default configuration: cap left at its zero value (=> DefaultMaxSeriesPerMetric 10000) driven past the default,
    # sequentially and from 4 goroutines, for all three kinds; plus explicit small and negative (unbounded) caps
    for kind in "cgh":
        cases.append("bulk %s 0 +400 1" % kind)      # +400 = 400 tuples more than the package's default cap
        cases.append("bulk %s 0 +400 4" % kind)
    cases += ["bulk c 7 60 3", "bulk g 1 40 4", "bulk h -1 10300 2", "bulk g -5 300 1", "rbulk g 0 +200 4"]
    if not quick:
        for _ in range(12):
            cases.append("bulk %s %d %s %d" % (rng.choice("cgh"), rng.choice([0, 0, 1, 3, 50, 9999, 10000, 10001, -1]),
                                                 rng.choice([1, 5, 9999, 10000, 10001, "+0", "+1", "+400", 12000]), rng.randint(1, 6)))
    return cases


def route(case):
    return "telemetry_race" if case.startswith(("rconc", "rreg", "rchurn", "rbulk")) else "telemetry"


# ---------------------------------------------------------------- monitor (same clauses as the OCaml driver)
def cap_of(case):
    t = case.split()
    c = int(t[1] if t[0] in ("reg", "rreg") else t[2])
    return 10000 if c == 0 else c


def monitor(cap, obs):
    f = dict(x.split("=", 1) for x in obs.split(";") if "=" in x)
    n = len(f.get("m", "").split("+")) if f.get("m") else 0
    res = []
    for k, v in f.items():
        if k == "S" or re.fullmatch(r"T\d+", k):
            res += v.split(".")
    out = []
    if any(re.fullmatch(r"o[-\d/_]+", r) for r in res):
        out.append("orphan")
    if any(re.fullmatch(r"X[-\d/_]+", r) for r in res):
        out.append("alias")
    if any(re.fullmatch(r"O[-\d/_]+", r) for r in res) or ("reg" in f and f["reg"] not in ("1,1", "0,1")):
        out.append("regsplit")      # registrants of one name hold different metric objects
    if "panic" in res:
        out.append("regpanic")
    if "eother" in res:
        out.append("regerror")
    if cap > 0 and n > cap:
        out.append("overcap")
    if f.get("c") != str(n):
        out.append("drift")
    if f.get("lost") != "0":
        out.append("lost")
    if "SNAPVIOL" in obs.split(";"):
        out.append("snapshot")          # a concurrent snapshot went backwards or showed more than cap series
    return out


def conc_obs(line):
    body = line[5:] if line.startswith("conc ") else line[4:] if line.startswith("reg ") else line
    return [o.strip() for o in body.split(" | ") if o.strip()]


def obs_monitor(cap, obs):
    """monitor of a whole observation: a reg observation has one part per metric name"""
    out = []
    for part in obs.split(" # "):
        part = part.strip()
        if re.match(r"^[a-z]:reg=", part):
            part = part[2:]
        for m in monitor(cap, part):
            if m not in out:
                out.append(m)
    return out


def rejected(model_line):
    return re.findall(r"INADMISSIBLE\((.*?)\)", model_line)


def nontrivial(case, out):
    if out in ("hang", "skipped-after-hang"):
        return False
    if case.startswith(("churn", "rchurn", "bulk", "rbulk", "probe")):
        return case[0] != "p"
    if case.startswith("seq"):
        toks = out.split()
        return any(t.startswith("h") for t in toks) and any(t in ("t", "1", "panic") for t in toks)
    return len(conc_obs(out)) >= 2


_HANG_SEEN = [False]


def classify(case, impl, model):
    if impl.strip() == "hang":
        _HANG_SEEN[0] = True        # every shrink candidate would wait out the watchdog again: report the case as it is
        return "P", "harness watchdog fired: an emitter, the tick or a subscriber blocked (non-blocking clause)"
    if impl.strip() == "skipped-after-hang":
        return "G", "not run: an earlier case of the batch hung"
    if case.startswith("probe"):
        return "P", "the package exports a non-positive default series cap: %r" % impl
    if case.startswith(("bulk", "rbulk")):
        t = case.split()
        return "P", ("metric registered with MaxSeriesPerMetric=%s (0 = omitted => the default the package exports), %s distinct tuples from %s "
                     "goroutine(s): observed %r, the theorems allow %r (series <= cap, seriesCount = series, every emission in its "
                     "series or a cardinality drop)" % (t[2], t[3], t[4], impl, model))
    if case.startswith(("churn", "rchurn")):
        bad = [x for x in impl.split()[1:] if not x.endswith("=0")]
        return "P", ("unregister/re-create/emit churn on one tuple: conservation monitor reports %s "
                     "(orphans = handles that are neither tombstone, in the series map nor stale; lost = emitted minus "
                     "series + drops + unknown + stale)" % " ".join(bad))
    if case.startswith("seq"):
        it, mt, ops = impl.split(), model.split(), case.split()[5:]
        for i, (a, b) in enumerate(zip(it, mt)):
            if a != b:
                return "P", "sequential history: op #%d %s observed %s, model %s" % (i, ops[i] if i < len(ops) else "?", a, b)
        return "P", "sequential history: output lengths differ impl=%d model=%d" % (len(it), len(mt))
    bad = rejected(model)
    if not bad:
        return "G", "concurrent case: model driver said %r" % model[:200]
    cap = cap_of(case)
    if case.startswith(("reg", "rreg")):
        ths = [x.split("@") for x in case.split()[5:]]
        for o in bad:
            okd = set(int(i) for i in re.findall(r"T(\d+)=ok", o))
            specs = {}
            for i in okd:
                specs.setdefault(ths[i][0], set()).add((ths[i][1], ths[i][2]))
            for name, sp in specs.items():
                if len(sp) > 1:
                    return "P", ("registrants of %r with different type / label-name lists %s were all given the metric: the label "
                                 "schema is positional, distinct label tuples now share series: %s" % (name, sorted(sp), o))
    if case.startswith(("conc", "rconc")) and case.split()[1] == "h":
        # histogram sum / buckets (C20_hist_buckets_sum_to_count, C20_hist_sum_per_tuple_conservation): when nothing was
        # dropped and no series was unregistered, the sums shown add up to the observed values
        t = case.split()
        emitted = sum(int(x.split(":")[-1]) for p in t[6:] for x in p.split("/") if x[:2] in ("e:", "a:"))
        for o in bad:
            f = dict(x.split("=", 1) for x in o.split(";") if "=" in x)
            vals = [e.rsplit(":", 1)[1] for e in f.get("m", "").split("+") if e]
            for v in vals:
                c_, s_, b_ = v.split("/")
                if sum(int(x) for x in b_.split("_")) != int(c_):
                    return "P", "histogram series with bucket counters not adding up to its count: %s" % o
            retired = any(re.fullmatch(r"[so][-\d/_]+", r) for k, v in f.items() if k == "S" or re.fullmatch(r"T\d+", k) for r in v.split("."))
            if f.get("d") == f.get("u") == f.get("s") == "0" and not retired and sum(int(v.split("/")[1]) for v in vals) != emitted:
                return "P", ("histogram sums shown (%d) differ from the sum of the observed values (%d) although nothing was dropped: "
                             "an observation was lost from the sum: %s" % (sum(int(v.split("/")[1]) for v in vals), emitted, o))
    if case.startswith(("conc", "rconc")):
        # a tombstone although the cap can never have been reached: the whole case contains at most cap WithLabelValues calls
        # (so not even all reservations together reach it) and no colliding tuples: an emission that belongs to a series
        # (existing or creatable) was turned into a cardinality drop
        t = case.split()
        nres = sum(x.startswith("r:") for p in t[6:] for x in p.split("/"))
        colliding = "61ff,62" in case and "61,ff62" in case
        if (cap <= 0 or nres <= cap) and not colliding:
            for o in bad:
                f = dict(x.split("=", 1) for x in o.split(";") if "=" in x)
                res = [r for k, v in f.items() if k == "S" or re.fullmatch(r"T\d+", k) for r in v.split(".")]
                if "t" in res:
                    return "P", ("tombstone handed out (emission counted as a cardinality drop) although the series cap %s cannot "
                                 "have been reached (%d WithLabelValues calls in the whole case): %s" % (t[2], nres, o))
    for o in bad:
        m = obs_monitor(cap, o)
        if m:
            return "P", "quiescent observation violates %s: %s" % ("+".join(m), o)
    return "G", "quiescent observation not reachable in the step-interleaving model (monitor clauses hold): %s" % bad[0]


def signature(case, impl, models):
    """No open finding: nothing is suppressed (KNOWN_FINDINGS.txt has only `fixed:` lines for C20)."""
    return None


def shrink(case):
    if _HANG_SEEN[0]:
        return
    t = case.split()
    if t[0] == "probe":
        return
    if t[0] in ("bulk", "rbulk"):
        g = int(t[4])
        if g > 1:
            yield " ".join(t[:4] + ["1"])
        if t[3].startswith("+"):
            k = int(t[3][1:])
            for m in (k // 2, k - 1):
                if 0 <= m < k:
                    yield " ".join(t[:3] + ["+%d" % m, t[4]])
        else:
            n = int(t[3])
            for m in (n // 2, n - 100, n - 1):
                if 0 < m < n:
                    yield " ".join(t[:3] + [str(m), t[4]])
        return
    if t[0] in ("churn", "rchurn"):
        for i in (5, 6, 7):                    # fewer unregisterers / creators / emitters
            if int(t[i]) > (1 if i < 7 else 0):
                yield " ".join(t[:i] + [str(int(t[i]) - 1)] + t[i + 1:])
        if t[8] == "1":
            yield " ".join(t[:8] + ["0"])
        return
    if t[0] == "seq":
        head, ops = t[:5], t[5:]
        n = len(ops)
        if n > 4:
            yield " ".join(head + ops[:n // 2])
            yield " ".join(head + ops[n // 2:])
        for i in range(n):
            yield " ".join(head + ops[:i] + ops[i + 1:])
        return
    if t[0] in ("reg", "rreg"):
        head, ths = t[:5], t[5:]
        for i in range(len(ths)):
            if len(ths) > 1:
                yield " ".join(head + ths[:i] + ths[i + 1:])
        for i, th in enumerate(ths):
            f = th.split("@")
            ops = f[3].split("/")
            if f[3] != "-":
                nf = f[:3] + ["/".join(ops[:-1]) or "-"]
                yield " ".join(head + ths[:i] + ["@".join(nf)] + ths[i + 1:])
        return
    head, setup, progs = t[:6], t[6], t[7:]
    for i in range(len(progs)):
        if len(progs) > 1:
            yield " ".join(head + [setup] + progs[:i] + progs[i + 1:])
    for i, p in enumerate(progs):
        ops = p.split("/")
        if len(ops) > 1:
            yield " ".join(head + [setup] + progs[:i] + ["/".join(ops[:-1])] + progs[i + 1:])
    so = setup.split("/")
    if setup != "-" and len(so) > 1:
        yield " ".join(head + ["/".join(so[:-1])] + progs)


def describe(case, impl, model):
    return {"case": case[:300], "implementation": impl[:300], "model": model[:300]}


def distribution(cases, impl):
    d = {"seq": 0, "conc": 0, "rconc": 0, "reg": 0, "rreg": 0, "reg_results": {}, "conc_by_kind": {"c": 0, "g": 0, "h": 0},
         "conc_noise_cases": 0, "conc_two_label_cases": 0, "conc_hist_distinct_sums": 0, "conc_hist_observations": 0, "kind": {"c": 0, "g": 0, "h": 0}, "cap": {}, "ops": {}, "seq_tombstones": 0,
         "seq_unregister_true": 0, "seq_panics": 0, "seq_collision_cases": 0, "conc_distinct_observations": 0,
         "conc_cases_with_violating_observation": 0, "conc_violation_classes": {},
         "conc_cases_with_several_observations": 0}
    for c, o in zip(cases, impl):
        t = c.split()
        d[t[0]] = d.get(t[0], 0) + 1
        if t[0] in ("churn", "rchurn", "bulk", "rbulk", "probe"):
            continue
        if t[0] in ("reg", "rreg"):
            obs = conc_obs(o or "")
            d["conc_distinct_observations"] += len(obs)
            cls = set()
            for x in obs:
                cls.update(obs_monitor(cap_of(c), x))
                for tok in re.findall(r"T\d+=([a-z]+)", x):
                    d["reg_results"][tok] = d["reg_results"].get(tok, 0) + 1
            if cls:
                d["conc_cases_with_violating_observation"] += 1
            for k in cls:
                d["conc_violation_classes"][k] = d["conc_violation_classes"].get(k, 0) + 1
            continue
        d["kind"][t[1]] += 1
        d["cap"][t[2]] = d["cap"].get(t[2], 0) + 1
        if t[0] == "seq":
            for op in t[5:]:
                k = op.split(":")[0]
                d["ops"][k] = d["ops"].get(k, 0) + 1
            toks = (o or "").split()
            d["seq_tombstones"] += toks.count("t")
            d["seq_unregister_true"] += toks.count("1")
            d["seq_panics"] += toks.count("panic")
            d["seq_collision_cases"] += ("61ff,62" in c and "61,ff62" in c)
        else:
            obs = conc_obs(o or "")
            d["conc_by_kind"][t[1]] += 1
            d["conc_noise_cases"] += t[5] == "1"
            d["conc_two_label_cases"] += t[3] == "2"
            if t[1] == "h":
                d["conc_hist_observations"] += len(obs)
                d["conc_hist_distinct_sums"] += len(set(re.findall(r":\d+/(-?\d+)/", " ".join(obs))))
            d["conc_distinct_observations"] += len(obs)
            d["conc_cases_with_several_observations"] += len(obs) >= 2      # real overlap happened
            cls = set()
            for x in obs:
                cls.update(monitor(cap_of(c), x))
            if cls:
                d["conc_cases_with_violating_observation"] += 1
            for k in cls:
                d["conc_violation_classes"][k] = d["conc_violation_classes"].get(k, 0) + 1
    return d
