"""C12 — sessions survive a control-plane restart and released ones stay gone
(internal/ipoe/{restore,setup}.go, internal/pppoe/{component,setup}.go, pkg/opdb, pkg/allocator/registry.go)."""
import re

ID = "C12"
_F = "harness/C12/"
HARNESSES = [
    dict(name="ipoe", pkg="./internal/ipoe/", test="TestVerifC12", timeout=900,
         files=[("internal/ipoe/zz_verif_c12_common_test.go", _F + "c12_common_ipoe_test.go"),
                ("internal/ipoe/zz_verif_c12_test.go", _F + "c12_ipoe_test.go")]),
    dict(name="pppoe", pkg="./internal/pppoe/", test="TestVerifC12", timeout=900,
         files=[("internal/pppoe/zz_verif_c12_common_test.go", _F + "c12_common_pppoe_test.go"),
                ("internal/pppoe/zz_verif_c12_test.go", _F + "c12_pppoe_test.go")]),
    dict(name="ow", pkg="./pkg/opdb/", test="TestVerifC12OW", timeout=600,
         files=[("pkg/opdb/zz_verif_c12_ow_test.go", _F + "c12_ow_test.go")]),
    dict(name="race", pkg="./internal/ipoe/", test="TestVerifC12Race", timeout=900,
         files=[("internal/ipoe/zz_verif_c12_race_test.go", _F + "c12_race_test.go")]),
    dict(name="sq", pkg="./pkg/opdb/sqlite/", test="TestVerifC12SQ", timeout=600,
         files=[("pkg/opdb/sqlite/zz_verif_c12_sq_test.go", _F + "c12_sqlite_test.go")]),
]
# repaired = /repo HEAD; no C12 finding is open, so a regression to any old defect is a VIOLATION
VARIANTS = ["repaired"]
MODEL_NEEDS_IMPL = True
RULE = ("one case = one whole history over <=6 sessions on a fresh component with a scheduler-controlled opdb fake: "
        "bind4 (the real IPoE handleAck: DHCPv4 bind of a session without IPv4 / renew, then checkpoint), "
        "new (bring-up with allocator answers; pool/static/no address per family, bound/released-v4/approved/created flags "
        "incl. the partially released dual-stack session (State released, IA_NA/IA_PD bound) and its converse, lease and "
        "age classes incl. expired and zero time), ckrel / ck2 (checkpoint immediately followed by release / by another "
        "checkpoint on one goroutine with GOMAXPROCS(1): write order must equal call order), ck (asynchronous checkpoint, parks), cks (synchronous), rel (terminate), "
        "done:<ticket> (any parked Put, any order), poison:<ticket>[:a] (that Put returns a transient Store error once / "
        "always), cksf (synchronous checkpoint whose Put fails), crash:<dataplane preserved|empty>[:failing add] (new component instance "
        "restores from the surviving store), then further ops incl. more crashes; final dump = live sessions, store, "
        "dataplane and the free set of each pool (drained). Named classes: put overtaken by delete, stale put after newer "
        "put, lost put, expired, half-established, not bound, static addresses, exhausted pool, failing dataplane add, "
        "double crash, fresh allocation after restart. Non-trivial: a crash that restores at least one session. "
        "Distinct: by case text.")
TRUSTED = ["the opdb fake applies each Put/Delete atomically; writes issued on the calling goroutine are synchronous, "
           "Put calls from other goroutines park until released (sqlite durability is out of scope)",
           "allocator abstracted to its lease map; which free address Allocate returns is taken from the implementation "
           "and checked for admissibility (free and inside the pool)",
           "wall clock: lease ages are kept >= 100 s away from the expiry boundary"]
ASSUMPTIONS = ["session identities are never reused (the harness skips new:<i> for an identity used before)",
               "restore time ~ case start (time.Now() is not injectable); expiry margins >= 100 s"]


def route(case):
    return case.split(" ", 1)[0]          # ipoe | pppoe | ow


# ------------------------------------------------------------------ generator
def _new(rng, proto, i, kind=None):
    if proto == "ipoe":
        fl = rng.choice(["bac", "bac", "bac", "bac", "ba", "a", "bc", "c", "ac", "bac6", "bac6", ".",
                         "rac6", "rac6", "rac"]) if kind is None else kind
    else:
        fl = rng.choice(["bc", "bc", "bc", "b", "c", "."]) if kind is None else kind
    ad = lambda: rng.choice(["a", "a", "a", "-", "-", "s%d" % rng.randint(0, 3)])
    v4, v6, pd = ad(), ad(), ad()
    if proto == "pppoe" and "c" in fl and v4 == "-":
        v4 = "a"      # a PPPoE dataplane session exists only with an IPv4 address
    if "r" in fl:
        # DHCPv4 lease released, DHCPv6 still bound (unified mode keeps the session): no IPv4, IA_NA and/or IA_PD
        v4 = "-"
        if v6 == "-" and pd == "-":
            v6 = "a"
    lease4 = rng.choice([0, 600, 3600, 3600])
    age4 = rng.choice(["z", "10", "100", "100", "5000", "100000"])
    lease6 = rng.choice([0, 600, 3600])
    age6 = rng.choice(["z", "10", "100", "5000"])
    return "new:%d:%s:%s:%s:%s:%d:%s:%d:%s" % (i, fl, v4, v6, pd, lease4, age4, lease6, age6)


def _history(rng, proto, nops, nsess):
    ops, live, nxt, tick, store = [], [], 0, 0, set()
    pend = []
    for _ in range(nops):
        r = rng.random()
        if (r < 0.18 or not live) and nxt < nsess:
            ops.append(_new(rng, proto, nxt))
            live.append(nxt)
            nxt += 1
        elif r < 0.40 and live:
            i = rng.choice(live)
            ops.append("ck:%d" % i)
            pend.append((tick, i))
            tick += 1
        elif r < 0.43 and live:
            i = rng.choice(live)
            ops.append("ck2:%d" % i)
            pend += [(tick, i), (tick + 1, i)]
            tick += 2
        elif r < 0.46 and live:
            i = rng.choice(live)
            ops.append("ckrel:%d" % i)
            pend.append((tick, i))
            live.remove(i)
            store.discard(i)
            tick += 2
        elif r < 0.49 and live:
            i = rng.choice(live)
            ops.append("cks:%d" % i)
            store.add(i)
            tick += 1
        elif r < 0.50 and live:
            ops.append("cksf:%d" % rng.choice(live))
            tick += 1
        elif r < 0.62 and live:
            i = rng.choice(live)
            if rng.random() < 0.06:
                ops.append("relf:%d" % i)
                k = rng.random()
                if k < 0.4:
                    ops.append("delretry:%d:ok" % i)
                elif k < 0.6:
                    ops += ["delretry:%d:fail" % i, "delretry:%d:ok" % i]
            else:
                ops.append("rel:%d" % i)
            live.remove(i)
            store.discard(i)
            tick += 1
        elif r < 0.88:
            if pend and rng.random() < 0.85:
                t, i = pend.pop(rng.randrange(len(pend)))
                store.add(i)
            else:
                t = rng.randint(0, tick + 2)
            ops.append("done:%d" % t)
        else:
            c = "crash:" + rng.choice("pe")
            if live and rng.random() < 0.2:
                c = "relstop:%d:%s:%s" % (rng.choice(live), rng.choice("pe"), rng.choice("dn"))
            elif store and rng.random() < 0.15:
                c += ":%d" % rng.choice(sorted(store))
            ops.append(c)
            if rng.random() < 0.3:
                ops.append("flip")          # direction flip right after the restore, before any new allocation
            pend = [(tick + k, i) for k, i in enumerate(sorted(store))]
            tick += len(store)
            live = sorted(store)
        if pend and rng.random() < 0.08:
            t, i = rng.choice(pend)
            ops.append("poison:%d%s" % (t, rng.choice(["", "", ":a"])))
            if rng.random() < 0.5 and i in live:
                ops.append("rel:%d" % i)      # the in-flight write fails while the delete waits behind it
                live.remove(i)
                store.discard(i)
                tick += 1
                ops.append("done:%d" % t)
        if proto == "ipoe" and live and rng.random() < 0.10:
            i = rng.choice(live)
            ops.append("bind4:%d:%d" % (i, rng.choice([600, 3600, 3600, 0])))
            pend.append((tick, i))
            tick += 1
        if rng.random() < 0.05:
            ops.append("flip")
        if pend and rng.random() < 0.05:
            t, i = rng.choice(pend)
            if i in live:
                ops.append("failrel:%d:%d" % (t, i))
                pend.remove((t, i))
                live.remove(i)
                store.discard(i)
                tick += 1
        if rng.random() < 0.03 and live:
            ops.append("ck:%d" % (nxt + 1))      # checkpoint of an unknown session: skipped
    return ops


def _structured(proto):
    est = "bac" if proto == "ipoe" else "bc"
    n = lambda i, fl=est, a="a:-:-", t="3600:10:0:z": "new:%d:%s:%s:%s" % (i, fl, a, t)
    hs = [
        # put overtaken by the delete of the same session
        [n(0), "ck:0", "rel:0", "done:0", "crash:p"],
        [n(0), "ck:0", "rel:0", "done:0", "crash:e", n(1)],
        [n(0), "ck:0", "done:0", "ck:0", "rel:0", "done:1", "crash:p"],
        # stale put after a newer one
        [n(0), "ck:0", "ck:0", "done:1", "done:0", "crash:p"],
        [n(0), "ck:0", "cks:0", "done:0", "crash:p"],
        # lost put
        [n(0), "ck:0", "crash:p", n(1)],
        # established, restored, fresh allocation after restart, all families
        [n(0, a="a:a:a", t="3600:10:3600:10"), "ck:0", "done:0", "crash:p", n(1, a="a:a:a"), "ck:1", "done:2", "done:1", "crash:e"],
        [n(0), n(1), "ck:0", "ck:1", "done:1", "done:0", "crash:e", n(2), n(3)],
        # expiry
        [n(0, t="600:5000:0:z"), "ck:0", "done:0", n(1, t="600:100:0:z"), "ck:1", "done:1", "crash:p", n(2)],
        [n(0, t="0:100000:0:z"), "ck:0", "done:0", "crash:p"],
        [n(0, t="3600:z:0:z"), "ck:0", "done:0", "crash:p"],
        # static addresses, exhausted pool
        [n(0, a="s0:s1:s2"), "ck:0", "done:0", "crash:p", n(1, a="s0:a:a")],
        [n(0), n(1), n(2), n(3), n(4), "ck:0", "ck:3", "done:1", "done:0", "crash:p", n(5)],
        # failing dataplane add, double crash
        [n(0), n(1), "ck:0", "ck:1", "done:0", "done:1", "crash:p:0", "done:2", "crash:e", "done:3", "done:4", "rel:0", "crash:p"],
        [n(0), "ck:0", "done:0", "crash:e", "crash:p", "done:1", "done:2", "rel:0", "done:1", "crash:p"],
        # restore's own checkpoint overtaken by a delete
        [n(0), "ck:0", "done:0", "crash:p", "rel:0", "done:1", "crash:p"],
        # write order = call order: checkpoint immediately followed by release / by another checkpoint (single P)
        [n(0), "ckrel:0", "done:0", "crash:p"],
        [n(0), "ck:0", "done:0", "ckrel:0", "done:1", "crash:e", n(1)],
        [n(0), n(1), "ckrel:1", "ckrel:0", "done:2", "done:0", "crash:p"],
        [n(0), "ck2:0", "done:1", "done:0", "crash:p"],
        [n(0), "ck2:0", "done:0", "done:1", "crash:p"],
        [n(0), "ck2:0", "ckrel:0", "done:1", "done:0", "done:2", "crash:p"],
        # the checkpoint Put fails and the session is released at once: a repetition of the Put must not land after the
        # release's Delete (admissible only inside its own slot)
        [n(0), "ck:0", "failrel:0:0", "crash:p"],
        [n(0), "ck:0", "done:0", "ck:0", "failrel:1:0", "crash:e", n(1)],
        [n(0), n(1), "ck:1", "ck:0", "failrel:1:0", "done:0", "failrel:0:1", "crash:p"],
        [n(0), "ck:0", "done:0", "crash:p", "failrel:1:0", "crash:p"],
        # fault plan: the in-flight checkpoint Put fails with a transient Store error
        [n(0), "ck:0", "poison:0", "rel:0", "done:0", "crash:p"],
        [n(0), "ck:0", "poison:0:a", "rel:0", "done:0", "done:0", "crash:e", n(1)],
        [n(0), "ck:0", "poison:0", "done:0", "done:0", "crash:p"],
        [n(0), "ck:0", "ck:0", "poison:0", "done:0", "done:1", "done:0", "crash:p"],
        [n(0), "ck:0", "poison:0", "cks:0", "done:0", "crash:p"],
        [n(0), "ck:0", "done:0", "cksf:0", "crash:p", "cksf:0", "rel:0", "crash:p"],
        [n(0), "cksf:0", "crash:p", n(1)],
        # the real DHCPv4 bind / renew path (handleAck): bind, checkpoint completes or not, stop; renew extends the lease
        *([[n(0, fl="ac", a="-:-:-", t="0:z:0:z"), "bind4:0:3600", "done:0", "crash:p", n(1)],
           [n(0, fl="ac", a="-:a:a", t="0:z:3600:10"), "bind4:0:3600", "crash:e", n(1)],
           [n(0, fl="ac", a="-:-:-", t="0:z:0:z"), "bind4:0:600", "done:0", "bind4:0:3600", "done:1", "crash:p", "bind4:0:600", "done:2", "rel:0", "crash:p"],
           [n(0, fl="a", a="-:-:-", t="0:z:0:z"), "bind4:0:3600", "cks:0", "crash:p"],
           [n(0, fl="ac", a="-:-:-"), n(1, fl="ac", a="-:-:-"), n(2, fl="ac", a="-:-:-"), "bind4:0:600", "bind4:1:600", "bind4:2:600", "done:1", "crash:p", "bind4:1:600"],
           [n(0, fl="rac6", a="-:a:-", t="0:z:3600:10"), "ck:0", "done:0", "bind4:0:3600", "done:1", "crash:p"]]
          if proto == "ipoe" else []),
        # allocation direction flips after the restart (HA node that lost the election): reservations must survive
        [n(0, a="a:a:a", t="3600:10:3600:10"), "ck:0", "done:0", "crash:p", "flip", n(1, a="a:a:a"), n(2, a="a:a:a")],
        [n(0), n(1), "ck:1", "done:0", "crash:e", "flip", "flip", n(2), n(3)],
        [n(0), n(1), "flip", n(2), "rel:1", "flip", n(3), "cks:0", "crash:p", n(4)],
        # stop in the middle of a release: Put applied / not applied, Delete not yet
        [n(0), "ck:0", "relstop:0:p:d"],
        [n(0), "ck:0", "relstop:0:p:n", n(1)],
        [n(0), "ck:0", "done:0", "relstop:0:e:n", n(1)],
        [n(0), "ck:0", "done:0", "ck2:0", "relstop:0:p:d", "done:3"],
        [n(0), n(1), "ck:0", "ck:1", "done:1", "relstop:0:p:d", "rel:0", "crash:p"],
        [n(0), "cks:0", "ck:0", "poison:1", "relstop:0:e:d"],
        # release whose checkpoint Delete fails: stop while the repetition is outstanding / after it succeeded
        [n(0), "cks:0", "relf:0", "crash:p"],
        [n(0), "cks:0", "relf:0", "delretry:0:ok", "crash:p"],
        [n(0), "ck:0", "done:0", "relf:0", "delretry:0:fail", "crash:e", n(1)],
        [n(0), "ck:0", "relf:0", "done:0", "delretry:0:fail", "delretry:0:ok", "delretry:0:ok", "crash:p"],
        [n(0), "cks:0", "relf:0", n(1), "cks:1", "crash:p"],
        [n(0), "cks:0", "relf:0", n(1), "cks:1", "delretry:0:ok", "crash:p", n(2)],
        [n(0), "ck:0", "done:0", "crash:p", "poison:1", "rel:0", "done:1", "crash:p"],
        [n(0), "ck:0", "done:0", "crash:p", "ck2:0", "done:3", "done:2", "done:1", "crash:e"],
    ]
    # subscribers whose protocol keys differ in exactly ONE component (C-VLAN, S-VLAN + sub-interface, each MAC byte):
    # one is released, the other restored under its own full key; then the other way round; then both across two restarts
    for k in range(1, 8):
        hs += [[n(0), n(k), "ck:0", "ck:%d" % k, "done:0", "done:1", "rel:%d" % k, "crash:p", n(8 - k if 8 - k != k else 1)],
               [n(k), n(0), "cks:%d" % k, "cks:0", "rel:0", "crash:e", "ck:%d" % k, "done:0", "rel:%d" % k, "crash:p"]]
    hs += [[n(i) for i in range(8)] + ["cks:%d" % i for i in range(8)] + ["rel:1", "rel:4", "crash:p", "rel:0", "rel:6", "crash:e"],
           [n(8), n(0), n(2), "ck:8", "ck:2", "ck:0", "done:2", "done:1", "done:0", "rel:2", "crash:p", "rel:8", "crash:p"]]
    if proto == "ipoe":
        hs += [[n(0, fl="a"), "ck:0", "done:0", "crash:p", "ck:0", "done:1", "crash:p"],
               [n(0, fl="ba", a="a:a:-"), "ck:0", "done:0", "crash:e", n(1, a="a:a:-")],
               [n(0, fl=".", a="-:-:-"), "ck:0", "done:0", "crash:p"],
               [n(0, fl="bac6", a="-:a:a", t="0:z:600:5000"), "ck:0", "done:0", "crash:p"],
               # partially released dual-stack session: IPv4 released (State "released"), IA_NA / IA_PD still bound
               [n(0, fl="rac6", a="-:a:a", t="3600:100:3600:10"), "ck:0", "done:0", "crash:p", n(1, a="a:a:a")],
               [n(0, fl="rac6", a="-:a:a", t="3600:100:3600:10"), "cks:0", "crash:e", n(1, fl="bac6", a="a:a:a")],
               [n(0, fl="rac6", a="-:a:-", t="600:5000:600:5000"), "ck:0", "done:0", "crash:p", n(1, a="-:a:-")],
               [n(0, fl="rac6", a="-:-:a", t="0:z:3600:10"), "ck:0", "done:0", "crash:e", "rel:0", "crash:p"],
               # the converse: DHCPv6 released, IPv4 still bound
               [n(0, fl="bac", a="a:-:-", t="3600:100:3600:5000"), "ck:0", "done:0", "crash:e", n(1, a="a:a:a")]]
    else:
        hs += [[n(0, fl="b", a="-:a:-"), "ck:0", "done:0", "crash:p", n(1, a="-:a:-")],
               [n(0, fl=".", a="a:-:-"), "ck:0", "done:0", "crash:p", n(1)],
               [n(0, a="a:a:a"), "ck:0", "done:0", "crash:p", "rel:0", n(1, a="a:a:a")]]
    return hs


def _ow_cases(rng, n):
    """direct OrderedWriter histories over <=2 keys: issues (async / sync Put, Delete) and completions (ok / err)"""
    fixed = [
        # a failed Put and a Delete of the same key, issued before / after the failure: a repetition may only come back
        # while the failed write's slot still has the turn
        "pa:a:1 err:a del:a ok:a", "pa:a:1 err:a del:a ok:a pa:a:2 ok:a", "pa:a:1 err:a pa:a:2 ok:a del:a ok:a",
        "pa:a:1 pa:b:9 err:a del:a ok:b ok:a", "ps:a:1 err:a del:a ok:a",
        "pa:a:1 del:a err:a ok:a", "pa:a:1 del:a ok:a ok:a", "pa:a:1 pa:a:2 del:a err:a ok:a pa:a:3 ok:a",
        "pa:a:1 pa:a:2 err:a ok:a", "pa:a:1 pa:a:2 ok:a err:a", "pa:a:1 ps:a:2 err:a err:a", "ps:a:1 del:a pa:a:2 ok:a ok:a ok:a",
        "pa:a:1 pa:b:7 del:a ok:b err:a ok:a", "del:a err:a pa:a:1 ok:a", "pa:a:1 del:a pa:a:2 err:a ok:a ok:a",
        "pa:a:1 pa:a:2 pa:a:3 del:a pa:a:4 ok:a ok:a ok:a", "pa:a:1 ok:a pa:a:2 err:a pa:a:3 ok:a del:a err:a",
    ]
    # keys that differ from a in exactly one component: b (key), c (namespace), d (same namespace+key concatenation):
    # an operation on one of them never waits for, and is never affected by, an operation on another
    for x in "bcd":
        fixed += ["pa:a:1 pa:%s:2 ok:%s ok:a" % (x, x), "pa:a:1 del:%s ok:%s del:a ok:a ok:a" % (x, x),
                  "ps:%s:1 pa:a:2 del:a ok:a ok:%s ok:a" % (x, x), "pa:%s:1 err:%s del:a ok:a pa:%s:2 ok:%s" % (x, x, x, x),
                  "del:a pa:%s:5 ps:a:6 ok:%s err:a ok:a" % (x, x)]
    fixed += ["pa:a:1 pa:b:2 pa:c:3 pa:d:4 ok:d ok:c ok:b ok:a", "pa:a:1 pa:c:2 pa:d:3 del:a del:c del:d ok:c ok:d ok:a ok:a ok:c ok:d"]
    out = ["ow " + f for f in fixed]
    for _ in range(n):
        ops, outstanding, v = [], {"a": 0, "b": 0, "c": 0, "d": 0}, 1
        for _ in range(rng.choice([4, 7, 10, 14])):
            k = rng.choice("aaabcd")
            r = rng.random()
            if r < 0.30:
                ops.append("pa:%s:%d" % (k, v)); v += 1; outstanding[k] += 1
            elif r < 0.38:
                ops.append("ps:%s:%d" % (k, v)); v += 1; outstanding[k] += 1
            elif r < 0.52:
                ops.append("del:%s" % k); outstanding[k] += 1
            elif outstanding[k] > 0 or r > 0.97:
                ops.append(("ok:%s" if rng.random() < 0.7 else "err:%s") % k)
                outstanding[k] = max(0, outstanding[k] - 1)      # approximate: obsolete Puts finish by themselves
        out.append("ow " + " ".join(ops))
    return out


def _sq_cases(rng, n):
    """Store contract on the real sqlite store; a failing op (lock held on every attempt) costs ~0.2 s"""
    out = ["sq put:a:1 lock del:a unlock", "sq put:a:1 lock delr:a", "sq lock put:a:1 putr:b:2 lock clear unlock del:b",
           "sq put:a:1 put:a:2 del:b lock put:a:3 del:a clear unlock clear put:b:5", "sq lock delr:a putr:a:4 lock putr:a:5 del:a"]
    for _ in range(n):
        ops, locked, fails = [], False, 0
        for _ in range(rng.choice([3, 5, 8])):
            r = rng.random()
            k = rng.choice("ab")
            if r < 0.15:
                ops.append("lock"); locked = True
            elif r < 0.25:
                ops.append("unlock"); locked = False
            elif r < 0.45:
                ops.append("putr:%s:%d" % (k, rng.randint(1, 9))); locked = False
            elif r < 0.55:
                ops.append("delr:%s" % k); locked = False
            elif locked and fails >= 2:
                ops.append("unlock"); locked = False
            else:
                ops.append(rng.choice(["put:%s:%d" % (k, rng.randint(1, 9)), "del:%s" % k, "del:%s" % k, "clear"]))
                fails += locked
        out.append("sq " + " ".join(ops))
    return out


_SESS_OPS = {"new": 1, "ck": 1, "ck2": 1, "ckrel": 1, "cks": 1, "cksf": 1, "rel": 1, "relf": 1, "delretry": 1, "giveup": 1,
             "bind4": 1, "failrel": 2, "relstop": 1, "crash": 2}


def _remap(ops, perm):
    """rename the sessions of a history (index -> perm[index]): the identity of a session (MAC / S-VLAN / C-VLAN) is a
    function of its index, so this varies WHICH key components distinguish the sessions of the history"""
    out = []
    for o in ops:
        a = o.split(":")
        pos = _SESS_OPS.get(a[0])
        if pos is not None and len(a) > pos and a[pos].isdigit() and int(a[pos]) < len(perm):
            a[pos] = str(perm[int(a[pos])])
        out.append(":".join(a))
    return out


def gen_cases(rng, tier, budget):
    cases = _ow_cases(rng, 150 if tier == "quick" else 1500) + _sq_cases(rng, 12 if tier == "quick" else 150)
    cases.append("race %d" % (15000 if tier == "quick" else 400000))
    for proto in ("ipoe", "pppoe"):
        for h in _structured(proto):
            for cfg in ("4 4 1", "2 2 1"):
                cases.append("%s %s %s" % (proto, cfg, " ".join(h)))
    n = budget or (600 if tier == "quick" else 12000)
    for k in range(n):
        proto = "ipoe" if k % 2 == 0 else "pppoe"
        n4, n6, kpd = rng.choice([2, 3, 4, 6]), rng.choice([2, 3, 4]), rng.choice([1, 2])
        nops = rng.choice([6, 10, 16, 24]) if tier == "quick" else rng.choice([6, 12, 24, 40])
        ops = _history(rng, proto, nops, rng.choice([2, 3, 4, 6]))
        if not any(o.startswith("crash") for o in ops):
            ops.append("crash:" + rng.choice("pe"))
            if rng.random() < 0.6:
                ops.append(_new(rng, proto, 7))
        if rng.random() < 0.6:
            perm = list(range(8))
            rng.shuffle(perm)
            ops = _remap(ops, perm)
        cases.append("%s %d %d %d %s" % (proto, n4, n6, kpd, " ".join(ops)))
    return cases


# ------------------------------------------------------------------ reading output lines
def _segs(line):
    return line.split(" | ")


def _sessions(txt):
    """'0:1:100:bac:0:-:-:ok,...' -> {idx: fields}"""
    out = {}
    if txt in ("-", ""):
        return out
    for e in txt.split(","):
        f = e.split(":")
        if len(f) >= 8 and f[0].isdigit():
            out[int(f[0])] = f
    return out


def _field(seg, name):
    m = re.search(r"(?:^| )%s=(\S+)" % name, seg)
    return m.group(1) if m else "-"


def _monitor(case, impl):
    """Executable statement of the property over the implementation's own trace.  Returns a description of the first
    violation or None."""
    ops = case.split()[4:]
    segs = _segs(impl)
    if len(segs) != len(ops) + 1:
        return None
    released, live = set(), {}
    for o, s in zip(ops, segs):
        a = o.split(":")
        if (a[0] == "rel" and s.startswith("rel")) or (a[0] in ("ckrel", "failrel") and s.startswith(a[0])) or (
                a[0] == "delretry" and s.startswith("delretry sd")):
            released.add(int(a[1]))
            live.pop(int(a[1]), None)
        elif a[0] == "relf" and s.startswith("rel"):
            live.pop(int(a[1]), None)        # released in memory; durable only when a delete repetition succeeded
        elif a[0] in ("crash", "relstop"):
            live = _sessions(_field(s, "live"))
            back = sorted(released & set(live))
            if back:
                return "released session(s) %s restored after restart" % back
            back = sorted(released & set(_sessions(_field(s, "store"))))
            if back:
                return "released session(s) %s still in the store after restart" % back
        elif a[0] == "new" and s.startswith("new "):
            got = s.split()[1:4]
            for fam, g in zip((4, 5, 6), got):
                if g.isdigit() and int(g) < 1000:
                    for j, f in live.items():
                        if f[fam] == g:
                            return "fresh allocation for session %s returned address %s (family field %d) held by live session %d" % (
                                a[1], g, fam, j)
            f = ["?"] * 8
            f[4:7] = got
            live[int(a[1])] = f
    fin = segs[-1]
    lv = _sessions(_field(fin, "live"))
    for name, fam in (("free4", 4), ("free6", 5), ("freepd", 6)):
        free = set(_field(fin, name).split(",")) - {"-"}
        for j, f in lv.items():
            if f[fam] in free:
                return "address %s of live session %d is free in the allocator (%s)" % (f[fam], j, name)
    return None


def classify(case, impl, model):
    if case.startswith("race "):
        return "P", ("two concurrent checkpoints of one session: the image marshalled first was written last (stale image "
                     "in the store): impl=%r model=%r" % (impl, model))
    if case.startswith("sq "):
        return "P", ("sqlite Store contract broken (nil returned without effect, or effect / error mismatch): impl=%r model=%r"
                     % (impl[:200], model[:200]))
    if case.startswith("ow "):
        fi, fm = _field(impl, "log"), _field(model, "log")
        if fi != fm:
            return "P", "effects reached the store in another order / number than issued: impl log=%s model log=%s" % (fi, fm)
        if _field(impl, "infl") != _field(model, "infl"):
            return "P", "a write is at the store outside its issue slot: impl infl=%s model infl=%s" % (
                _field(impl, "infl"), _field(model, "infl"))
        return "G", "OrderedWriter result differs: impl=%r model=%r" % (impl[:300], model[:300])
    if " LATE" in impl:
        return "P", ("a checkpoint Put that had failed was repeated behind the release's Delete (outside its own slot): "
                     "the image of the released session is written again")
    v = _monitor(case, impl)
    if v:
        return "P", v
    if "start=early" in impl or "start=nopkt" in impl:
        return "P", ("the component served (subscription / Ready / packet hand-off) before its restore had finished, or never "
                     "took the waiting packet: %s" % re.findall(r"start=\w+", impl))
    si, sm = _segs(impl), _segs(model)
    ops = case.split()[4:] + ["final"]
    for k, (x, y) in enumerate(zip(si, sm)):
        if x != y:
            if ops[min(k, len(ops) - 1)].startswith(("crash", "relstop")):
                li, lm = _sessions(_field(x, "live")), _sessions(_field(y, "live"))
                miss = sorted(set(lm) - set(li))
                if miss:
                    return "P", "session(s) %s with a completed checkpoint and a valid lease not restored (op %d)" % (miss, k)
                for j in sorted(set(li) & set(lm)):
                    if li[j][1] != lm[j][1] or li[j][4:7] != lm[j][4:7]:
                        return "P", "session %d restored from another image than its latest completed checkpoint: impl=%s model=%s" % (
                            j, ":".join(li[j]), ":".join(lm[j]))
                if _field(x, "live") == _field(y, "live") and x.split(" live=")[0] != y.split(" live=")[0]:
                    return "P", "dataplane programming / events during restore differ (op %d): impl=%r model=%r" % (
                        k, x.split(" live=")[0], y.split(" live=")[0])
            return "G", "first difference at op %d (%s): impl=%r model=%r" % (k, ops[min(k, len(ops) - 1)], x[:300], y[:300])
    return "G", "line lengths differ: impl=%r model=%r" % (impl[:300], model[:300])


def signature(case, impl, models):
    return None          # no open finding


def nontrivial(case, impl):
    if case.startswith("race "):
        return True
    if case.startswith("sq "):
        return "err" in impl
    if case.startswith("ow "):
        return "log=-" not in impl
    return bool(re.search(r"R\d+:", impl))


def shrink(case):
    t = case.split()
    if t[0] == "race":
        return
    if t[0] in ("ow", "sq"):
        for i in range(1, len(t)):
            yield " ".join(t[:i] + t[i + 1:])
        return
    head, ops = t[:4], t[4:]
    for i in range(len(ops)):
        yield " ".join(head + ops[:i] + ops[i + 1:])
    for i, o in enumerate(ops):
        if o.startswith("new:"):
            a = o.split(":")
            for j in (3, 4, 5):
                if a[j] != "-":
                    b = list(a)
                    b[j] = "-"
                    yield " ".join(head + ops[:i] + [":".join(b)] + ops[i + 1:])
        if o.startswith("crash:") and o.count(":") == 2:
            yield " ".join(head + ops[:i] + [o.rsplit(":", 1)[0]] + ops[i + 1:])
    if head[1:] != ["2", "2", "1"]:
        yield " ".join([head[0], "2", "2", "1"] + ops)


def distribution(cases, impl):
    d = {"ipoe": 0, "pppoe": 0, "ops": {}, "crashes": 0, "restored_events": 0, "expired_deletes": 0, "half_resets": 0,
         "failed_adds": 0, "exhausted_allocs": 0, "skips": 0, "cases_with_2plus_crashes": 0, "released_then_restored": 0,
         "mean_ops": 0}
    tot = 0
    d["ow"] = 0
    d["sq"] = 0
    d["race"] = 0
    for c, o in zip(cases, impl):
        t = c.split()
        d[t[0]] += 1
        if t[0] in ("ow", "sq", "race"):
            continue
        tot += len(t) - 4
        nc = 0
        for op in t[4:]:
            k = op.split(":")[0]
            d["ops"][k] = d["ops"].get(k, 0) + 1
            nc += k in ("crash", "relstop")
        d["crashes"] += nc
        d["cases_with_2plus_crashes"] += nc >= 2
        o = o or ""
        d["restored_events"] += len(re.findall(r"R\d+:", o))
        d["failed_adds"] += len(re.findall(r"AF\d+", o))
        d["exhausted_allocs"] += len(re.findall(r"(?<=new )[^|]*\bx\b", o))
        d["skips"] += o.count("skip")
        for s in _segs(o):
            if s.startswith("crash"):
                lg = s.split(" live=")[0]
                d["expired_deletes"] += len(re.findall(r"sd\d+", lg))
                d["half_resets"] += len(re.findall(r"sp\d+", lg))
        d["released_then_restored"] += bool(_monitor(c, o) and "released" in (_monitor(c, o) or ""))
        for sg in _segs(o):
            if sg.startswith("bind4 "):
                w = sg.split()[1]
                d["binds_" + ("renew" if w == "r" else "exhausted" if w == "x" else "fresh")] = d.get(
                    "binds_" + ("renew" if w == "r" else "exhausted" if w == "x" else "fresh"), 0) + 1
            elif sg.startswith("delretry "):
                k = "delretry_" + ("ok" if " sd" in sg else sg.split()[1])
                d[k] = d.get(k, 0) + 1
        d["restarts_started_ok"] = d.get("restarts_started_ok", 0) + o.count("start=ok")
    d["mean_ops"] = round(tot / max(1, len(cases)), 1)
    return d
