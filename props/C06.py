"""C06 — NCP/LCP option policy (pkg/ppp/{ipcp,lcp,ipv6cp,fsm}.go, internal/pppoe/session.go onIPCPUp/startNCP)."""
import itertools

ID = "C06"
HARNESSES = [
    dict(name="ppp", pkg="./pkg/ppp/", test="TestVerifC06",
         files=[("pkg/ppp/zz_verif_c06_test.go", "harness/C06/zz_verif_c06_test.go")]),
    dict(name="sess", pkg="./internal/pppoe/", test="TestVerifC06Sess",
         files=[("internal/pppoe/zz_verif_c06_sess_test.go", "harness/C06/zz_verif_c06_sess_test.go")]),
    dict(name="lns", pkg="./internal/l2tp/", test="TestVerifC06Lns",
         files=[("internal/l2tp/zz_verif_c06_lns_test.go", "harness/C06/zz_verif_c06_lns_test.go")]),
]
# repaired: the behaviour the theorems are proved for.  The others reproduce the recorded defects, one at a
# time and all together, so that fixing one of them upstream does not turn the others into false alarms.
VARIANTS = ["repaired"]
# the model driver reads the implementation's line: choices the property leaves free (which proposals IPCP refuses
# when nothing usable is assigned) are taken from it and checked for admissibility inside the model
MODEL_NEEDS_IMPL = True
RULE = ("ipcp/lcp/v6: ProcessConfReq called directly; every option list of length <= 2 (quick) / 3 (thorough) over a "
        "structured alphabet (implemented + unknown types, data lengths 0,1,2,3,4,5,6,8,9,253, values assigned / zero / "
        "local / near-miss / other) against every configuration class (assigned nil / 4-byte / 16-byte mapped / 0.0.0.0 / "
        "IPv6; DNS default / nil / set; magic 0 / set; interface-id zero / set), plus random lists of up to 40 options and "
        "several requests per instance (sticky peer state). hi/hl/h6: histories on ONE real IPCP/LCP/IPv6CP object — "
        "ProcessConfReq interleaved with ProcessConfAck/Nak/Rej (rejection / re-valuation of each of our options) and "
        "SetPeerAddress/SetDNS/SetAddress/SetMagic/SetMRU/SetAuthProto/SetInterfaceID — every history of length <= 3 over "
        "a 9..16-symbol op alphabet, every Nak/Reject/Ack of each of our own options with unsupported or boundary "
        "suggestions (auth EAP / MS-CHAP / CHAP without algorithm / PAP / unknown, MRU below floor / max, magic ours / "
        "zero; foreign address / DNS) followed by a request echoing the suggestion (with and without SetAuthProto "
        "first), plus random ones up to length 12; BuildConfReq printed after every non-request step. fsm: the real FSM with the real handler in every state 0..9, "
        "Input(ConfReq) with serialized structured lists, random bytes, truncations, bad length bytes, trailing byte; "
        "emitted packets decoded by an independent decoder. sess: real SessionState (initPPP, extractIPFromAttributes, "
        "startNCP, onIPCPUp; D/R = the subscriber renegotiates LCP through the real LCP FSM: real onLCPDown, which since "
        "e9950ea ends a started PPPoE session; on the LNS owner R = extract + startNCP again) with AAA address none / usable / 0.0.0.0 / IPv6 and random histories of subscriber "
        "Configure-Requests and Configure-Ack/Nak/Reject answers to the BNG's own request (verbatim and forged); session address and ipcpOpen after every event. sess cases also fix the outcome of pool allocation / address reservation (a real one-address "
        "allocator registry, free or held by another session) at start and at every re-authentication; lns: the same "
        "histories against a real internal/l2tp Session (initSessionPPP, extractIPFromAttributes, startNCP, onIPCPUp). "
        "Non-trivial: at least "
        "one option classified (direct), a packet emitted (fsm), IPCP reached Opened (sess). Distinct: by case text.")
TRUSTED = ["bytes are modelled as N; the harness feeds 0..255 only",
           "the random IPv6CP Nak suggestion is projected to 'an 8-byte identifier, non-zero and different from the local one'",
           "net.ParseIP / net.IP.String round trip (AAA attribute string <-> 16-byte address) is not modelled",
           "FSM states are forced by writing FSM.state in the fsm cases (the automaton itself is property C05)"]
ASSUMPTIONS = ["the allocator registry enters the session model as an oracle (allocation result, reservation verdict); "
               "in sess/lns cases a real one-address registry produces exactly that outcome; which address a pool "
               "hands out and when a reservation conflicts is property C01/C02",
               "checkOpen / checkSessionOpen are kept from programming the dataplane by running the session in the "
               "Authenticate phase",
               "session histories consist of the subscriber's Configure-Request/Ack/Nak/Reject (matching identifier) and "
               "re-authentications; Terminate, Code-Reject, timeouts, Down/Close are property C05"]

ASSIGNED = "0a000005"
MAPPED = "00000000000000000000ffff"
V6 = "20010db8000000000000000000000001"


def opt(t, hexdata):
    return "%d.%s" % (t, hexdata)


def olist(os):
    return ",".join(os) if os else "-"


def wire(os):
    """serialize option tokens to wire hex"""
    out = ""
    for o in os:
        t, d = o.split(".")
        out += "%02x%02x%s" % (int(t), (2 + len(d) // 2) % 256, d)
    return out or "-"


def rhex(rng, n):
    return "".join("%02x" % rng.randrange(256) for _ in range(n))


IPCP_CFGS = [  # (peer address token, dns1, dns2, the assigned address as 4-byte hex when usable)
    (ASSIGNED, "08080808", "08080404", ASSIGNED),
    (MAPPED + ASSIGNED, "d", "d", ASSIGNED),
    (ASSIGNED, "n", "n", ASSIGNED),
    (ASSIGNED, MAPPED + "08080808", "00000000", ASSIGNED),
    ("n", "08080808", "08080404", None),
    ("00000000", "d", "d", None),
    (MAPPED + "00000000", "08080808", "n", None),
    (V6, "08080808", V6, None),
    ("ffffffff", "ffffffff", "ffffffff", "ffffffff"),
]
IPCP_ALPHA = ([opt(3, v) for v in (ASSIGNED, "00000000", "0a000006", "0a000105", "08080808", "ffffffff", "", "0a",
                                    "0a0000", "0a00000500", MAPPED + ASSIGNED)] +
              [opt(129, v) for v in ("00000000", "08080808", "01010101", "", "000000", "0000000000")] +
              [opt(131, v) for v in ("00000000", "08080404", "0000", "00000000000000")] +
              [opt(1, "0a0000050a000001"), opt(2, "002d0f01"), opt(2, ""), opt(130, "00000000"), opt(132, ASSIGNED),
               opt(0, ""), opt(4, ASSIGNED), opt(99, "00" * 9),
               opt(3, "0a010005"), opt(3, "0b000005"),       # near misses in the upper bytes
               opt(255, "ab" * 253)])

LCP_MAGICS = [0, 1, 0xdeadbeef, 0xffffffff]
LCP_ALPHA_FIXED = ([opt(1, v) for v in ("05d4", "05dc", "0040", "003f", "0000", "ffff", "", "05", "05d400")] +
                   [opt(3, v) for v in ("c023", "c22305", "c22380", "c22381", "c223", "c2230500", "c02300", "c025",
                                        "c227", "c0", "", "0000", "c22300")] +
                   [opt(7, ""), opt(8, ""), opt(4, "c0250000"), opt(2, "00000000"), opt(0, ""), opt(13, "00"),
                    opt(6, "ab" * 253)])


def lcp_alpha(magic):
    vals = {magic, 0, (magic + 1) % 2**32, (magic - 1) % 2**32, 0x12345678, magic ^ 0x01000000, magic ^ 0x00010000,
            magic ^ 0x00000100}
    a = [opt(5, "%08x" % v) for v in sorted(vals)]
    a += [opt(5, ""), opt(5, "%08x" % magic + "00"), opt(5, ("%08x" % magic)[:6])]
    return a + LCP_ALPHA_FIXED


V6_LOCALS = ["0000000000000000", "5054fffe112233aa", "ffffffffffffffff"]


def v6_alpha(local):
    near = "%016x" % (int(local, 16) ^ 1)
    vals = {local, "0000000000000000", near, "0200000000000001", "0000000000000001",
            "%016x" % (int(local, 16) ^ (1 << 56)), "%016x" % (int(local, 16) ^ (1 << 24)), "0200000000000000"}
    a = [opt(1, v) for v in sorted(vals)]
    a += [opt(1, ""), opt(1, local[:14]), opt(1, local + "00"), opt(1, "00" * 7), opt(1, "00" * 9),
          opt(2, "0000"), opt(0, local), opt(3, local), opt(255, "cd" * 253)]
    return a


def mutate_wire(rng, w):
    """malformed variants of a wire option area"""
    if w == "-":
        w = ""
    b = [w[i:i + 2] for i in range(0, len(w), 2)]
    k = rng.randrange(7)
    if k == 0 and b:
        b = b[:rng.randrange(len(b))]                    # truncation
    elif k == 1:
        b = b + ["%02x" % rng.randrange(256)]            # trailing byte
    elif k == 2 and len(b) >= 2:
        b[1] = rng.choice(["00", "01", "ff", "%02x" % (len(b) + 1)])   # bad length byte
    elif k == 3:
        b = [rhex(rng, 1) for _ in range(rng.randrange(0, 12))]
    elif k == 4 and len(b) >= 2:
        i = rng.randrange(len(b))
        b[i] = "%02x" % rng.randrange(256)
    elif k == 5:
        b = b + ["03", "01"]                             # option with length 1 at the end
    else:
        b = b + ["07", "02", "03"]                       # valid option then a stray byte
    return "".join(b) or "-"


def gen_cases(rng, tier, budget):
    quick = tier == "quick"
    cases = []
    L = 2 if quick else 3
    # ---- direct classification: exhaustive short lists over the structured alphabets
    for (pa, d1, d2, _) in IPCP_CFGS:
        alpha = IPCP_ALPHA if (not quick or pa in (ASSIGNED, "n")) else IPCP_ALPHA[:22]
        for n in range(0, L + 1):
            if n == 3:
                alpha = IPCP_ALPHA[:14] + IPCP_ALPHA[21:25]
            for t in itertools.product(alpha, repeat=n):
                cases.append("ipcp %s %s %s %s" % (pa, d1, d2, olist(t)))
    for m in LCP_MAGICS:
        alpha = lcp_alpha(m)
        for n in range(0, L + 1):
            if n == 3:
                alpha = alpha[:8] + LCP_ALPHA_FIXED[:4] + LCP_ALPHA_FIXED[9:14]
            for t in itertools.product(alpha, repeat=n):
                cases.append("lcp %d %s" % (m, olist(t)))
    for loc in V6_LOCALS:
        alpha = v6_alpha(loc)
        for n in range(0, L + 1):
            for t in itertools.product(alpha, repeat=n):
                cases.append("v6 %s %s" % (loc, olist(t)))
    # ---- domain block: every byte of every compared value decides on its own.  For several assigned addresses /
    #      magic numbers / interface identifiers: proposals that differ from it in exactly ONE byte (each byte in
    #      turn, low bit and high bit), and identifiers with exactly one non-zero byte (each position)
    def flips(hexv):
        n = len(hexv) // 2
        for i in range(n):
            for bit in (0x01, 0x80):
                b = bytearray.fromhex(hexv)
                b[i] ^= bit
                yield b.hex()
    dom_addrs = [ASSIGNED, "c0a80a01", "64400001", "01020304", rhex(rng, 4), rhex(rng, 4)]
    for a in dom_addrs:
        if a == "00000000":
            continue
        for prop in flips(a):
            cases.append("ipcp %s 08080808 08080404 %s" % (a, olist([opt(3, prop)])))
            cases.append("fsm i %s d d 6 9 %s" % (a, wire([opt(3, prop)])))
        cases.append("ipcp %s 08080808 08080404 %s" % (a, olist([opt(3, p) for p in flips(a)] + [opt(3, a)])))
        cases.append("sess %s %s k" % (MAPPED + a, " ".join("q%d.%s" % (i, wire([opt(3, p)])) for i, p in enumerate(flips(a)))
                                        + " q99." + wire([opt(3, a)])))
        cases.append("lns %s %s k" % (MAPPED + a, " ".join("q%d.%s" % (i, wire([opt(3, p)])) for i, p in enumerate(flips(a)))
                                       + " q99." + wire([opt(3, a)])))
    # DNS: the Nak must carry the server configured for THAT option (primary vs secondary, every byte)
    for d1, d2 in (("01020304", "05060708"), (rhex(rng, 4), rhex(rng, 4))):
        cases.append("ipcp %s %s %s %s" % (ASSIGNED, d1, d2, olist([opt(129, "00000000"), opt(131, "00000000")])))
        cases.append("ipcp %s %s %s %s" % (ASSIGNED, d2, d1, olist([opt(131, "00000000"), opt(129, "00000000")])))
    dom_magics = [0xdeadbeef, 0x00000001, 0x80000000, 0x00010000, rng.randrange(1, 2**32)]
    for m in dom_magics:
        mh = "%08x" % m
        for prop in flips(mh):
            cases.append("lcp %d %s" % (m, olist([opt(5, prop)])))
        cases.append("lcp %d %s" % (m, olist([opt(5, p) for p in flips(mh)] + [opt(5, mh)])))
        cases.append("fsm l %d 6 9 %s" % (m, wire([opt(5, mh)])))
    dom_iids = ["5054fffe112233aa", "0200000000000001", rhex(rng, 8)]
    for l in dom_iids:
        for prop in flips(l):
            if prop != "00" * 8:
                cases.append("v6 %s %s" % (l, olist([opt(1, prop)])))
        cases.append("v6 %s %s" % (l, olist([opt(1, p) for p in flips(l) if p != "00" * 8] + [opt(1, l)])))
        for i in range(8):
            one = "00" * i + "40" + "00" * (7 - i)
            cases.append("v6 %s %s" % (l, olist([opt(1, one)])))
        cases.append("fsm 6 %s 6 9 %s" % (l, wire([opt(1, l)])))
    # the MAC-derived identifier: every byte of the BNG MAC in turn
    for i in range(6):
        mac = bytearray.fromhex("525400112233")
        mac[i] ^= 0xa5
        cases.append("s6 %s e1 q2.%s k" % (mac.hex(), wire([opt(1, "0200000000000001")])))
    # ---- two objects alive at the same time with different configurations (no state may be shared)
    for (x, y) in ((ASSIGNED, "c0a80a01"), ("c0a80a01", ASSIGNED), (ASSIGNED, "n")):
        for ops in (["0q" + opt(3, x), "1q" + opt(3, x), "0q" + opt(3, y if y != "n" else "06060606"),
                     "1q" + opt(3, y if y != "n" else "06060606")],
                    ["1P" + ("0a000009"), "0q" + opt(3, x), "0q" + opt(3, "0a000009"), "1q" + opt(3, "0a000009")],
                    ["0j" + opt(129, "08080808"), "1q" + opt(129, "00000000"), "0q" + opt(129, "00000000"),
                     "0n" + opt(3, "06060606"), "1q" + opt(3, x)]):
            cases.append("hh i %s d d | %s d d | %s" % (x, y, " ".join(ops)))
    for (x, y) in ((0xdeadbeef, 0x01020304), (0x01020304, 0xdeadbeef)):
        ops = ["0q" + opt(5, "%08x" % x), "1q" + opt(5, "%08x" % x), "0q" + opt(5, "%08x" % y), "1q" + opt(5, "%08x" % y),
               "0j" + opt(5, "%08x" % x), "1q" + opt(5, "%08x" % y), "0M7", "1q" + opt(5, "00000007"), "0q" + opt(5, "00000007")]
        cases.append("hh l %d | %d | %s" % (x, y, " ".join(ops)))
    for (x, y) in (("5054fffe112233aa", "0200000000000002"),):
        ops = ["0q" + opt(1, x), "1q" + opt(1, x), "0q" + opt(1, y), "1q" + opt(1, y), "0n" + opt(1, y), "1q" + opt(1, y),
               "0q" + opt(1, y)]
        cases.append("hh 6 %s | %s | %s" % (x, y, " ".join(ops)))
    nhh = 150 if quick else 1500
    for _ in range(nhh):
        x, y = rng.choice(dom_addrs), rng.choice(dom_addrs + ["n"])
        pool = ["q" + opt(3, x), "q" + opt(3, y if y != "n" else "06060606"), "q" + opt(3, "00000000"), "q-",
                "P" + rng.choice(dom_addrs), "n" + opt(3, "06060606"), "j" + opt(3, x), "q" + opt(129, "00000000"),
                "D01010101/n", "a" + opt(129, "02020202")]
        ops = [rng.choice("01") + rng.choice(pool) for _ in range(rng.choice([3, 5, 8]))]
        cases.append("hh i %s d d | %s 08080808 08080404 | %s" % (x, y, " ".join(ops)))
    # ---- random long lists, several requests per instance
    nrand = (budget or 1500) if quick else (budget or 30000)
    for _ in range(nrand):
        k = rng.randrange(3)
        nreq = rng.choice([1, 1, 2, 3])
        if k == 0:
            pa, d1, d2, _ = rng.choice(IPCP_CFGS)
            reqs = []
            for _ in range(nreq):
                os = []
                for _ in range(rng.choice([1, 2, 3, 5, 8, 20, 40])):
                    if rng.random() < 0.7:
                        os.append(rng.choice(IPCP_ALPHA))
                    else:
                        os.append(opt(rng.choice([3, 3, 129, 131, rng.randrange(256)]),
                                      rhex(rng, rng.choice([0, 1, 3, 4, 4, 4, 5, 8, 16, rng.randrange(254)]))))
                reqs.append(olist(os))
            cases.append("ipcp %s %s %s %s" % (pa, d1, d2, " ".join(reqs)))
        elif k == 1:
            m = rng.choice(LCP_MAGICS + [rng.randrange(2**32)])
            alpha = lcp_alpha(m)
            reqs = []
            for _ in range(nreq):
                os = []
                for _ in range(rng.choice([1, 2, 3, 5, 8, 20, 40])):
                    if rng.random() < 0.7:
                        os.append(rng.choice(alpha))
                    else:
                        os.append(opt(rng.choice([1, 3, 3, 5, rng.randrange(256)]),
                                      rng.choice(["c223", "c023", "c2", ""]) + rhex(rng, rng.choice([0, 0, 1, 2, 3, 4, rng.randrange(200)]))))
                reqs.append(olist(os))
            cases.append("lcp %d %s" % (m, " ".join(reqs)))
        else:
            loc = rng.choice(V6_LOCALS + [rhex(rng, 8)])
            alpha = v6_alpha(loc)
            reqs = []
            for _ in range(nreq):
                os = []
                for _ in range(rng.choice([1, 2, 3, 5, 8, 20])):
                    if rng.random() < 0.7:
                        os.append(rng.choice(alpha))
                    else:
                        os.append(opt(rng.choice([1, 1, 1, rng.randrange(256)]), rhex(rng, rng.choice([0, 7, 8, 8, 8, 9, rng.randrange(254)]))))
                reqs.append(olist(os))
            cases.append("v6 %s %s" % (loc, " ".join(reqs)))
    # ---- histories on one protocol object: requests interleaved with answers to our own request and with
    #      configuration changes (exhaustive short histories + random long ones)
    A, B = ASSIGNED, "0a000009"
    hi_ops = ["q" + opt(3, A), "q" + opt(3, B), "q" + opt(3, "00000000"), "q-", "q" + opt(129, "00000000"),
              "q" + opt(3, A) + "," + opt(3, B), "a" + opt(3, B), "n" + opt(3, B) + "," + opt(129, "01010101"),
              "j" + opt(3, A) + "," + opt(129, "08080808"), "j" + opt(131, ""), "P" + A, "P" + B, "Pn",
              "P" + MAPPED + B, "D01010101/n", "L" + B]
    M1, M2 = 0xdeadbeef, 0x01020304
    hl_ops = ["q" + opt(5, "%08x" % M1), "q" + opt(5, "%08x" % M2), "q" + opt(5, "00000000"),
              "q" + opt(3, "c22305") + "," + opt(1, "05d4"), "q" + opt(3, "c22381"), "j" + opt(5, "%08x" % M1),
              "j" + opt(1, "05d4") + "," + opt(3, "c22305"), "n" + opt(5, "%08x" % M2), "a" + opt(5, "%08x" % M2),
              "n" + opt(3, "c023") + "," + opt(1, "0200"), "n" + opt(5, "00000000"), "M%d" % M2, "M0", "T49699/5", "U1400"]
    # answers to OUR options with unsupported / boundary suggestions, and requests echoing what was suggested
    auth_vals = ["c227", "c22381", "c22380", "c223", "c023", "c22305", "c025", "8021", "c2230500", "c02301"]
    mru_vals = ["003f", "0040", "0000", "ffff", "05dd", "05"]
    magic_vals = ["%08x" % M1, "00000000", "%08x" % M2, "ffffffff"]
    sugg = [opt(3, v) for v in auth_vals] + [opt(1, v) for v in mru_vals] + [opt(5, v) for v in magic_vals]
    hl_echo = (["n" + o for o in sugg] + ["q" + o for o in sugg] +
               ["j" + opt(3, "c22305"), "j" + opt(1, "05d4"), "j" + opt(5, "%08x" % M1), "a" + opt(3, "c22381"),
                "a" + opt(1, "003f") + "," + opt(5, "00000000")])
    for pre in (["T49699/5"], ["T49187/0"], []):
        for n in (1, 2):
            for t in itertools.product(hl_echo, repeat=n):
                if any(x[0] == "q" for x in t):
                    cases.append("hl %d %s" % (M1, " ".join(pre + list(t))))
    # suggestion, then the very same value requested, with something in between
    for o in sugg:
        for mid in ("j" + o, "a" + o, "q-", "M%d" % M2, "n" + opt(3, "c22305")):
            cases.append("hl %d T49699/5 n%s %s q%s q%s" % (M1, o, mid, o, olist([o, opt(1, "05d4")])))
    # the same for IPCP (Nak/Reject/Ack of our address and DNS options with foreign values, then echoed) and IPv6CP
    isugg = [opt(3, v) for v in (B, "06060606", "00000000", "ffffffff", A)] + \
            [opt(129, v) for v in ("00000000", "01010101")] + [opt(131, "02020202")]
    hi_echo = ["n" + o for o in isugg] + ["q" + o for o in isugg] + ["j" + opt(3, A), "a" + opt(3, "06060606")]
    for pre in (["L" + "0a000001"], []):
        for n in (1, 2):
            for t in itertools.product(hi_echo, repeat=n):
                if any(x[0] == "q" for x in t):
                    cases.append("hi %s 08080808 08080404 %s" % (A, " ".join(pre + list(t))))
    L1, L2 = "5054fffe112233aa", "0200000000000002"
    h6_ops = ["q" + opt(1, L1), "q" + opt(1, L2), "q" + opt(1, "00" * 8), "n" + opt(1, L2), "a" + opt(1, L2),
              "n" + opt(1, "00" * 8), "j" + opt(1, L1), "I" + L2, "I" + "00" * 8]
    HL = 3
    for n in range(1, HL + 1):
        for t in itertools.product(hi_ops, repeat=n):
            if any(x[0] == "q" for x in t):
                cases.append("hi %s d d %s" % (A, " ".join(t)))
        for t in itertools.product(hl_ops, repeat=n):
            if any(x[0] == "q" for x in t):
                cases.append("hl %d %s" % (M1, " ".join(t)))
        for t in itertools.product(h6_ops, repeat=n):
            if any(x[0] == "q" for x in t):
                cases.append("h6 %s %s" % (L1, " ".join(t)))
    nhist = (budget or 900) if quick else (budget or 15000)
    for i in range(nhist):
        k = i % 3
        ln = rng.choice([4, 5, 6, 8, 12])
        if k == 0:
            pa, d1, d2, _ = rng.choice(IPCP_CFGS)
            ops = []
            for _ in range(ln):
                if rng.random() < 0.75:
                    ops.append(rng.choice(hi_ops))
                else:
                    ops.append(rng.choice("qanj") + olist([rng.choice(IPCP_ALPHA[:-1]) for _ in range(rng.randrange(0, 4))]))
            cases.append("hi %s %s %s %s" % (pa, d1, d2, " ".join(ops)))
        elif k == 1:
            m = rng.choice([M1, M1, 0, 1])
            alpha = lcp_alpha(m)[:-1]
            ops = []
            if rng.random() < 0.7:
                ops.append(rng.choice(["T49699/5", "T49699/5", "T49187/0", "T49699/129"]))
            for _ in range(ln):
                if rng.random() < 0.4:
                    ops.append(rng.choice(hl_echo))
                elif rng.random() < 0.75:
                    ops.append(rng.choice(hl_ops))
                else:
                    ops.append(rng.choice("qanj") + olist([rng.choice(alpha) for _ in range(rng.randrange(0, 4))]))
            cases.append("hl %d %s" % (m, " ".join(ops)))
        else:
            loc = rng.choice([L1, L1, "00" * 8])
            alpha = v6_alpha(loc)[:-1]
            ops = []
            for _ in range(ln):
                if rng.random() < 0.75:
                    ops.append(rng.choice(h6_ops))
                else:
                    ops.append(rng.choice("qanj") + olist([rng.choice(alpha) for _ in range(rng.randrange(0, 3))]))
            cases.append("h6 %s %s" % (loc, " ".join(ops)))
    # ---- FSM level: every state, well-formed and malformed wire data
    nfsm = (budget or 1200) if quick else (budget or 20000)
    for i in range(nfsm):
        st = i % 10
        ident = rng.choice([0, 1, 7, 255, rng.randrange(256)])
        k = rng.randrange(3)
        if k == 0:
            pa, d1, d2, _ = rng.choice(IPCP_CFGS)
            os = [rng.choice(IPCP_ALPHA[:-1]) for _ in range(rng.choice([0, 1, 1, 2, 3, 6]))]
            r2 = rng.random()
            if r2 < 0.3:
                os = [o for o in os if o in (IPCP_ALPHA[0], IPCP_ALPHA[12], IPCP_ALPHA[18])] or [IPCP_ALPHA[0]]
            elif r2 < 0.75:
                # nothing to reject: the packet is a Nak (wrong address / 0.0.0.0 / DNS 0.0.0.0) or an Ack
                os = [rng.choice([IPCP_ALPHA[1], IPCP_ALPHA[2], IPCP_ALPHA[3], IPCP_ALPHA[5], IPCP_ALPHA[11],
                                  IPCP_ALPHA[17], IPCP_ALPHA[0], IPCP_ALPHA[12]]) for _ in range(rng.choice([1, 2, 3]))]
            head = "fsm i %s %s %s" % (pa, d1, d2)
        elif k == 1:
            m = rng.choice(LCP_MAGICS)
            alpha = lcp_alpha(m)[:-1]
            os = [rng.choice(alpha) for _ in range(rng.choice([0, 1, 1, 2, 3, 6]))]
            if rng.random() < 0.5:
                os = [rng.choice([opt(1, "05d4"), opt(5, "12345678"), opt(3, "c023"), opt(3, "c22305"),
                                  opt(3, "c22381"), opt(3, "c223")]) for _ in range(rng.choice([1, 2, 3]))]
            head = "fsm l %d" % m
        else:
            loc = rng.choice(V6_LOCALS)
            alpha = v6_alpha(loc)[:-1]
            os = [rng.choice(alpha) for _ in range(rng.choice([0, 1, 1, 2, 3]))]
            if rng.random() < 0.5:
                os = [opt(1, "0200000000000001")]
            head = "fsm 6 %s" % loc
        w = wire(os)
        if len(w) > 2 * 1400:
            w = w[:2 * 1400]
        if rng.random() < 0.3:
            w = mutate_wire(rng, w)
        cases.append("%s %d %d %s" % (head, st, ident, w))
    # ---- sessions
    nsess = (budget or 700) if quick else (budget or 12000)
    aaas = ["none", MAPPED + ASSIGNED, MAPPED + ASSIGNED, MAPPED + "c0a80001"]
    bad_aaas = [MAPPED + "00000000", V6, "00" * 16]
    for i in range(nsess):
        aaa = rng.choice(bad_aaas) if i % 8 == 7 else rng.choice(aaas)
        if i % 8 == 5:
            aaa = MAPPED + rng.choice(["c0a80a01", "64400001", "%02x%s" % (rng.randrange(1, 224), rhex(rng, 3))])
        assigned = "0a000007" if aaa == "none" else aaa[-8:]     # no AAA address: IPCP is not started at all
        if aaa != "none" and aaa not in bad_aaas:
            nb = bytearray.fromhex(assigned)
            nb[rng.randrange(4)] ^= rng.choice([1, 0x80, 0x10])
            near = nb.hex()
        else:
            near = "0a000106"
        reqs = [[], [opt(3, assigned)], [opt(3, assigned)], [opt(3, "00000000")], [opt(3, "0a000006")], [opt(3, near)],
                [opt(3, near), opt(3, assigned)],
                [opt(3, "06060606")], [opt(129, "00000000")], [opt(129, "01010101"), opt(131, "00000000")],
                [opt(3, assigned), opt(129, "08080808")], [opt(3, assigned), opt(129, "00000000")],
                [opt(2, "002d0f01"), opt(3, assigned)], [opt(3, assigned[:6])], [opt(3, assigned), opt(3, "0a000006")],
                [opt(3, "0a000006"), opt(3, assigned)], [opt(129, "08080808"), opt(131, "08080404")]]
        evs = []
        reauth = i % 3 == 0
        for _ in range(rng.choice([1, 2, 3, 4, 6, 10])):
            r = rng.random()
            if reauth and r < 0.12:
                # re-authentication with another (or no, or an unusable) AAA address on the same session
                na = rng.choice([MAPPED + "0a000009", MAPPED + "0a000009", MAPPED + ASSIGNED, "none"] +
                                (bad_aaas if i % 8 == 7 else []))
                evs.append("R" + na)
                if na != "none" and na not in bad_aaas:
                    assigned = na[-8:]
                    reqs = reqs + [[opt(3, assigned)], [opt(3, assigned)], [opt(3, assigned), opt(129, "08080808")]]
            elif r < 0.015 and "X" not in evs:
                evs.append("X")      # ... until Max-Configure is exhausted: this-layer-finished, Stopped
            elif r < 0.045 and evs.count("T") < 9:
                evs.append("T")      # restart timer expires, restart counter > 0: the request is retransmitted
            elif r < 0.09:
                evs.append("D")      # the subscriber renegotiates LCP (real onLCPDown), no new AAA answer yet
            elif r < 0.13:
                evs.append(rng.choice(["t%d" % rng.randrange(256), "t7", "Sa" + wire([opt(3, "06060606")]),
                                       "Sn" + wire([opt(129, "01010101")]), "Sj" + wire([opt(129, "08080808")]), "o"]))
            elif r < 0.3:
                evs.append("k")
            elif r < 0.42:
                # the subscriber's answer to OUR request: tries to talk us into other values
                w = wire(rng.choice([[opt(3, "06060606")], [opt(129, "01010101")], [opt(131, "02020202"), opt(3, "0a000006")],
                                     [opt(129, "00000000")], [opt(129, "0101")], [], [opt(3, assigned)]]))
                if rng.random() < 0.15:
                    w = mutate_wire(rng, w)
                evs.append(rng.choice("anj") + w)
            else:
                w = wire(rng.choice(reqs))
                if rng.random() < 0.1:
                    w = mutate_wire(rng, w)
                evs.append("q%d.%s" % (rng.randrange(256), w))
        if reauth and i % 6 == 0 and aaa not in bad_aaas and aaa != "none":
            # the pattern that exposes remembered peer state: negotiate, re-authenticate to another address, renegotiate
            a0 = aaa[-8:]
            evs = ["q1." + wire([opt(3, a0)]), "k", "R" + MAPPED + "0a000009",
                   "q2." + wire(rng.choice([[], [opt(3, a0)], [opt(129, "08080808")], [opt(3, "0a000009")]])), "k"] + evs[:3]
        # registry outcome for the first startNCP: with an AAA address its reservation may conflict, without
        # one the pool allocation delivers an address, nothing, or is exhausted
        start = aaa
        if i % 4 == 1:
            if aaa == "none":
                al = rng.choice(["0a000007", "0a000007", "full", "none"])
                start = "none/" + al
            elif aaa not in bad_aaas:
                start = aaa + "/none/" + rng.choice(["cf", "ok"])
            evs = [(e + rng.choice(["", "", "/none/cf", "/0a000008"])) if e[0] == "R" else e for e in evs]
        lstart = start
        if i % 6 == 2:
            # DNS servers from AAA (primary and/or secondary); the LNS harness has no AAA DNS
            start = "/".join((start.split("/") + ["none", "ok"])[:3]) + "/" + rng.choice(
                [MAPPED + "01010101," + MAPPED + "02020202", MAPPED + "01010101,n", "n," + MAPPED + "02020202",
                 MAPPED + "00000000," + MAPPED + "02020202", V6 + ",n"])
        cases.append("sess %s %s" % (start, " ".join(evs)))
        start = lstart
        if i % 5 == 3 and aaa != "none" and aaa not in bad_aaas:
            # the same history on a session restored from a checkpoint (installInMemoryState) with that address
            cases.append("sess restore:%s %s" % (aaa[-8:], " ".join(e for e in evs)))
        if i % 25 == 4:
            # a checkpoint that does not hold a usable IPv4 address
            cases.append("sess restore:%s %s" % (rng.choice(["00000000", V6, "00" * 16]), " ".join(evs)))
        if i % 2 == 0:
            # the same history against the LNS owner of the IPCP object (no reservation step there)
            cases.append("lns %s %s" % (start.replace("/cf", "/ok"), " ".join(e.replace("/cf", "/ok") for e in evs)))
    # ---- IPv6CP inside a session: what the BNG announces in its Configure-Request vs what it compares with
    ns6 = (budget or 300) if quick else (budget or 4000)
    v6reqs = [[opt(1, "0200000000000001")], [opt(1, "00" * 8)], [opt(1, "505400fffe112233")], [], [opt(1, "0102")],
              [opt(2, "0000"), opt(1, "0200000000000001")]]
    for i in range(ns6):
        mac = rng.choice(["525400112233", "525400112233", "020000000000", "02" + rhex(rng, 5), rhex(rng, 6)])
        evs = []
        for _ in range(rng.choice([1, 2, 3, 5, 8])):
            r = rng.random()
            if r < 0.3:
                evs.append("e%d" % rng.randrange(256))
            elif r < 0.55:
                evs.append("q%d.%s" % (rng.randrange(256), wire(rng.choice(v6reqs))))
            elif r < 0.75:
                evs.append("k")
            elif r < 0.85:
                evs.append("n" + wire(rng.choice([[opt(1, "0200000000000009")], [opt(1, "00" * 8)], [opt(1, "0102")]])))
            elif r < 0.92:
                evs.append("j" + wire(rng.choice([[opt(1, "0200000000000009")], [opt(2, "00")]])))
            elif r < 0.96:
                evs.append("D")
            else:
                evs.append("R")
            if rng.random() < 0.15 and evs.count("T") < 9:
                evs.append("T")
        if i % 5 == 0:
            evs = ["e1"] + evs           # the very first thing the subscriber does: loop our request back
        cases.append("s6 %s %s" % (mac, " ".join(evs)))
        if i % 3 == 0:
            # the same packets against IPv6CP of an LNS session (no D / R there)
            cases.append("l6 - %s" % " ".join(e for e in evs if e not in ("D", "R")) if any(e not in ("D", "R") for e in evs)
                         else "l6 - e1")
    # ---- LCP inside a session: the magic number the BNG announces vs the one it compares with
    nsl = (budget or 300) if quick else (budget or 4000)
    lreqs = [[opt(5, "0a0b0c0d")], [opt(5, "00000000")], [opt(1, "05d4"), opt(5, "0a0b0c0d")], [],
             [opt(3, "c22305")], [opt(1, "003f")], [opt(7, ""), opt(5, "0a0b0c0d")], [opt(5, "01020304")]]
    for i in range(nsl):
        start = "restore:" + rng.choice(["01020304", "01020304", "00000000", "ffffffff"]) if i % 4 == 3 else "fresh"
        evs = []
        for _ in range(rng.choice([1, 2, 3, 5, 8])):
            r = rng.random()
            if r < 0.3:
                evs.append("e%d" % rng.randrange(256))
            elif r < 0.6:
                evs.append("q%d.%s" % (rng.randrange(256), wire(rng.choice(lreqs))))
            elif r < 0.78:
                evs.append("k")
            elif r < 0.9:
                evs.append("n" + wire(rng.choice([[opt(5, "01020304")], [opt(5, "00000000")], [opt(3, "c227")],
                                                   [opt(1, "0200"), opt(5, "0a0b0c0d")], [opt(5, "0102")]])))
            else:
                evs.append("j" + wire(rng.choice([[opt(5, "01020304")], [opt(3, "c22305")], [opt(1, "05d4")]])))
            if rng.random() < 0.15 and evs.count("T") < 9:
                evs.append("T")
        if i % 5 == 0:
            evs = ["e1"] + evs
        cases.append("sl %s %s" % (start, " ".join(evs)))
        if start == "fresh" and i % 3 == 0:
            cases.append("ll fresh %s" % " ".join(evs))      # the same packets against LCP of an LNS session
    # ---- authentication gates the NCPs
    npa = (budget or 250) if quick else (budget or 3000)
    for i in range(npa):
        evs = []
        for _ in range(rng.choice([1, 2, 3, 4])):
            evs.append(rng.choice(["i%d.%s" % (rng.randrange(256), wire([opt(3, rng.choice(["06060606", ASSIGNED, "00000000"]))])),
                                   "i%d.-" % rng.randrange(256), "6%d.%s" % (rng.randrange(256), wire([opt(1, "0200000000000001")])),
                                   "T"]) if rng.random() < 0.85 else "k")
        if i % 3 == 0:
            evs += ["F"] + [rng.choice(["T", "T", "i9." + wire([opt(3, ASSIGNED)])]) for _ in range(rng.choice([0, 2, 4, 5]))]
        else:
            evs += ["S" + rng.choice([MAPPED + ASSIGNED, MAPPED + ASSIGNED, "none", MAPPED + "00000000"])]
            evs += [rng.choice(["q%d.%s" % (rng.randrange(256), wire([opt(3, rng.choice(["06060606", ASSIGNED]))])),
                                "q%d.-" % rng.randrange(256), "k"]) for _ in range(rng.choice([1, 2, 4]))]
        cases.append("pa " + " ".join(evs))
    return cases


def route(case):
    return "sess" if case.startswith(("sess", "s6", "sl", "pa")) else ("lns" if case.startswith(("lns", "l6", "ll")) else "ppp")


# ---------------------------------------------------------------- reading output lines
def parse_opts(tok):
    if tok == "-":
        return []
    out = []
    for p in tok.split(","):
        t, d = p.split(".", 1)
        out.append((int(t), d))
    return out


def parse_results(line):
    """direct cases: list of (ack, nak, rej)"""
    body = line.split(" ; ")[0]
    res = []
    for part in body.split(" | "):
        f = dict(x.split("=", 1) for x in part.split())
        res.append((parse_opts(f["A"]), parse_opts(f["N"]), parse_opts(f["R"])))
    return res


def to4(tok):
    if tok in ("n", "d"):
        return None
    if len(tok) == 8:
        return tok
    if len(tok) == 32 and tok.startswith(MAPPED):
        return tok[24:]
    return None


def parse_wire(w):
    """independent reading of an option area: list of (type, datahex) or None when malformed"""
    if w == "-":
        w = ""
    b = [int(w[i:i + 2], 16) for i in range(0, len(w), 2)]
    out, i = [], 0
    while len(b) - i >= 2:
        l = b[i + 1]
        if l < 2 or l > len(b) - i:
            return None
        out.append((b[i], "".join("%02x" % x for x in b[i + 2:i + l])))
        i += l
    return out


def monitor_all(case, impl):
    """The property itself, evaluated on the implementation's output: list of (text, finding class or None)."""
    out = []
    try:
        _monitor(case, impl, out)
    except Exception:  # unparseable output is a glue problem, not a property violation
        pass
    return out


def monitor(case, impl):
    v = monitor_all(case, impl)
    return v[0][0] if v else None


class _Found(Exception):
    pass


def _monitor(case, impl, out):
    def hit(text, cls=None):
        out.append((text, cls))
    if True:
        f = case.split()
        if impl.startswith(("panic", "hang")):
            return "implementation " + impl[:80]
        if f[0] == "ipcp":
            asg = to4(f[1])
            usable = asg is not None and asg != "00000000"
            for rq, (ack, nak, rej) in zip(f[4:], parse_results(impl)):
                req = parse_opts(rq)
                for t, d in ack:
                    if t == 3 and usable and d != asg:
                        hit("IPCP acknowledged address %s while %s is assigned" % (d, asg))
                    if t == 3 and d == "00000000":
                        hit("IPCP acknowledged 0.0.0.0")
                    if t not in (3, 129, 131) or len(d) != 8:
                        hit("IPCP acknowledged unimplemented or malformed option %d.%s" % (t, d))
                    if (t, d) not in req:
                        hit("IPCP acknowledged an option that was not requested")
                for t, d in req:
                    if (t not in (3, 129, 131) or len(d) != 8) and (t, d) not in rej:
                        hit("IPCP did not reject unimplemented or malformed option %d.%s" % (t, d[:20]))
                    if t == 3 and len(d) == 8 and usable and d != asg and (3, asg) not in nak:
                        hit("IPCP did not Nak proposal %s with the assigned address" % d)
        elif f[0] == "lcp":
            magic = int(f[1])
            for rq, (ack, nak, rej) in zip(f[2:], parse_results(impl)):
                req = parse_opts(rq)
                for t, d in ack:
                    if t == 5 and magic != 0 and len(d) == 8 and int(d, 16) == magic:
                        hit("LCP acknowledged its own magic number")
                    if t == 3 and not (d[:4] == "c023" or d == "c22305"):
                        hit("LCP acknowledged authentication protocol %s which it does not support" % d, "auth")
                    if t not in (1, 3, 5):
                        hit("LCP acknowledged unimplemented option %d" % t)
                    if (t, d) not in req:
                        hit("LCP acknowledged an option that was not requested")
                for t, d in req:
                    if t not in (1, 3, 5) and (t, d) not in rej:
                        hit("LCP did not reject unimplemented option %d" % t)
        elif f[0] == "v6":
            local = f[1]
            for rq, (ack, nak, rej) in zip(f[2:], parse_results(impl)):
                for t, d in ack:
                    if t != 1 or len(d) != 16:
                        hit("IPv6CP acknowledged unimplemented or malformed option %d.%s" % (t, d))
                    if d == "00" * 8 or d == local:
                        hit("IPv6CP acknowledged interface identifier %s (zero or its own)" % d)
        elif f[0] in ("hi", "hl", "h6"):
            # the configuration in force is tracked here independently of the model
            nhead = 4 if f[0] == "hi" else 2
            cur = to4(f[1]) if f[0] == "hi" else (int(f[1]) if f[0] == "hl" else f[1])
            outs = impl.split(" ; ")[0].split(" | ")
            for op, o in zip(f[nhead:], outs):
                k, arg = op[0], op[1:]
                if f[0] == "hi":
                    if k == "P":
                        cur = to4(arg)
                    if k != "q":
                        continue
                    usable = cur is not None and cur != "00000000"
                    ack, nak, rej = parse_results(o)[0]
                    for t, d in ack:
                        if t == 3 and usable and d != cur:
                            hit("IPCP acknowledged address %s while %s is assigned (history)" % (d, cur))
                        if t == 3 and d == "00000000":
                            hit("IPCP acknowledged 0.0.0.0 (history)")
                    for t, d in parse_opts(arg):
                        if t == 3 and len(d) == 8 and usable and d != cur and (3, cur) not in nak:
                            hit("IPCP did not Nak proposal %s with the assigned address %s (history)" % (d, cur))
                elif f[0] == "hl":
                    if k == "M":
                        cur = int(arg)
                    if k in "an":
                        for t, d in parse_opts(arg):
                            if t == 5 and len(d) == 8:
                                cur = int(d, 16)
                    if k != "q":
                        continue
                    ack, nak, rej = parse_results(o)[0]
                    for t, d in ack:
                        if t == 5 and cur != 0 and len(d) == 8 and int(d, 16) == cur:
                            hit("LCP acknowledged its own magic number %s (history)" % d)
                        if t == 3 and not (d[:4] == "c023" or d == "c22305"):
                            hit("LCP acknowledged authentication protocol %s which it does not support" % d, "auth")
                else:
                    if k == "I":
                        cur = arg
                    if k in "an":
                        for t, d in parse_opts(arg):
                            if t == 1 and len(d) == 16:
                                cur = d
                    if k != "q":
                        continue
                    ack, nak, rej = parse_results(o)[0]
                    for t, d in ack:
                        if t != 1 or len(d) != 16 or d == "00" * 8 or d == cur:
                            hit("IPv6CP acknowledged %d.%s (zero, own or malformed; history)" % (t, d))
        elif f[0] == "fsm":
            acts = impl.split(" ; ")[0].split()
            for a in acts:
                if not a.startswith("sca:"):
                    continue
                os = parse_opts(a.split(":", 2)[2])
                req = parse_wire(f[-1])
                if req is None:
                    hit("Configure-Ack sent for a request whose option area is malformed")
                elif req != os:
                    hit("Configure-Ack %s does not echo the request %s: options the BNG did not accept are "
                        "acknowledged implicitly" % (olist(["%d.%s" % o for o in os]), olist(["%d.%s" % o for o in req])[:120]))
                if f[1] == "i":
                    asg = to4(f[2])
                    usable = asg is not None and asg != "00000000"
                    for t, d in os:
                        if t == 3 and ((usable and d != asg) or d == "00000000"):
                            hit("Configure-Ack carries address %s while %s is assigned" % (d, asg))
                        if t not in (3, 129, 131) or len(d) != 8:
                            hit("Configure-Ack carries unimplemented or malformed option %d.%s" % (t, d))
                elif f[1] == "l":
                    magic = int(f[2])
                    for t, d in os:
                        if t == 5 and magic != 0 and len(d) == 8 and int(d, 16) == magic:
                            hit("LCP Configure-Ack carries its own magic number")
                        if t == 3 and not (d[:4] == "c023" or d == "c22305"):
                            hit("LCP Configure-Ack carries authentication protocol %s which it does not support" % d, "auth")
                        if t not in (1, 3, 5):
                            hit("LCP Configure-Ack carries unimplemented option %d" % t)
                else:
                    for t, d in os:
                        if t != 1 or len(d) != 16 or d == "00" * 8 or d == f[2]:
                            hit("IPv6CP Configure-Ack carries %d.%s" % (t, d))
        elif f[0] == "pa":
            accepted = False
            for ev, p in zip(f[1:], impl.split(" | ")):
                if ev[0] == "S":
                    accepted = True
                toks = p.split()
                if not accepted and any(t.startswith(("sca:", "scn:", "scj:", "scr:", "v6x")) for t in toks):
                    hit("an NCP packet (%s) left before authentication had succeeded" % toks[0])
                kv = dict(x.split("=", 1) for x in toks if "=" in x)
                for t in toks:
                    if t.startswith("sca:"):
                        for ty, d in parse_opts(t.split(":", 2)[2]):
                            if ty == 3 and "h" + d != kv.get("pa"):
                                hit("Configure-Ack carries address %s while %s is assigned" % (d, kv.get("pa")))
        elif f[0] in ("sl", "ll"):
            parts = impl.split(" | ")
            wire_m, clean, seen_scr = None, True, False
            if f[1].startswith("restore:") and f[1][8:] != "00000000":
                wire_m = f[1][8:]      # what the link announced before the restart: the checkpointed magic
            for ev, p in zip(["start"] + f[2:], parts):
                if p == "ended":
                    break
                if ev[0] == "n":
                    clean = False
                toks = p.split()
                lm = [t for t in toks if t.startswith("lm=")][0][3:]
                for t in toks:
                    if t.startswith("sca:"):
                        for ty, d in parse_opts(t.split(":", 2)[2]):
                            if ty == 5 and d == lm and lm != "00000000":
                                hit("LCP Configure-Ack carries its own magic number %s" % d)
                            if ty == 5 and clean and wire_m is not None and d == wire_m:
                                hit("LCP acknowledged magic number %s, which %s" % (
                                    d, "its own outstanding Configure-Request announces" if seen_scr else
                                    "is its own (the magic the link announced before the restart)"))
                for t in toks:
                    if t.startswith("scr:"):
                        ms = [d for ty, d in parse_opts(t.split(":", 1)[1]) if ty == 5]
                        wire_m = ms[0] if ms else None
                        clean, seen_scr = True, True
        elif f[0] in ("s6", "l6"):
            parts = impl.split(" | ")
            wire_id, clean = None, True   # identifier in the BNG's last Configure-Request; no learning since
            for ev, p in zip(["start"] + f[2:], parts):
                if p == "ended":
                    break
                if ev[0] in "nR":
                    clean = False
                toks = p.split()
                lid = [t for t in toks if t.startswith("lid=")][0][4:]
                for t in toks:
                    if t.startswith("sca:"):
                        for ty, d in parse_opts(t.split(":", 2)[2]):
                            if ty == 1 and (d == "00" * 8 or d == lid):
                                hit("IPv6CP Configure-Ack carries %s (zero or the local identifier)" % d)
                            if ty == 1 and clean and wire_id is not None and d == wire_id:
                                hit("IPv6CP acknowledged identifier %s, which its own outstanding Configure-Request "
                                    "announces" % d)
                for t in toks:
                    if t.startswith("scr:"):
                        os_ = parse_opts(t.split(":", 1)[1])
                        wire_id = os_[0][1] if os_ and os_[0][0] == 1 else None
                        clean = True
        elif f[0] in ("sess", "lns"):
            parts = impl.split(" | ")
            if "pa=" not in parts[0]:
                return              # the harness could not set the session up: glue, no verdict
            seen_pa = set()
            pa = None
            for ev, p in zip(["start"] + f[2:], parts):
                if p == "ended":
                    break           # the session was torn down (LCP left Opened on a started session)
                toks = p.split()
                kv = dict(x.split("=", 1) for x in toks if "=" in x)
                if ev == "start" and kv.get("lcp", "ok") != "ok":
                    hit("LCP: the magic number our Configure-Request announces, looped back: %s" % kv.get("lcp"))
                if pa is not None:
                    seen_pa.add(pa)
                pa, a = kv.get("pa"), kv.get("a")
                sent = [t for t in toks if t.startswith(("sca:", "scn:", "scj:", "scr:"))]
                if pa == "nil":
                    # IPCP not started: no address, closed, silent
                    if a != "nil" or kv.get("up") == "1" or sent:
                        hit("IPCP without an assigned address: a=%s up=%s sent=%s" % (a, kv.get("up"), sent[:2]), "aaa")
                        return
                    continue
                if pa is None or pa == "h00000000" or len(pa) != 9:
                    hit("IPCP runs without a usable assigned address (pa=%s)" % pa, "aaa")
                    return          # everything after that is a consequence
                if a != pa:
                    hit("session address %s differs from the assigned address %s" % (a, pa),
                        "adopt" if (a in seen_pa or (a == "nil" and ev[0] != "R")) else ("aaa" if a == "nil" else None))
                if ev[0] == "q":
                    req = parse_wire(ev.split(".", 1)[1])
                    for t in toks:
                        if t.startswith("sca:"):
                            os = parse_opts(t.split(":", 2)[2])
                            if req is None or req != os:
                                hit("Configure-Ack %s does not echo the request %s" % (t, ev[:120]))
                            for ty, d in os:
                                if ty == 3 and "h" + d != pa:
                                    hit("Configure-Ack carries address %s while %s is assigned" % (d, pa))

SIG_RESTORE = "restore-unusable-address-restores-ipcp"


def _recorded():
    """signatures currently listed as known: in KNOWN_FINDINGS.txt (read only)"""
    import os
    import re
    path = os.path.join(os.path.dirname(os.path.dirname(os.path.abspath(__file__))), "KNOWN_FINDINGS.txt")
    got = set()
    try:
        for l in open(path):
            m = re.match(r"^known: property=C06 signature=(\S+) ", l)
            if m:
                got.add(m.group(1))
    except OSError:
        pass
    return got


def classify(case, impl, model):
    """P: the implementation's output violates the property (a case that matches a recorded finding exactly
    never gets here: vlib reports it as KNOWN-FINDING).  A restored-session case that shows nothing but the
    recorded restore finding and differs elsewhere is glue."""
    vs = monitor_all(case, impl)
    f = case.split()
    restore_known = f[0] == "sess" and f[1].startswith("restore:") and SIG_RESTORE in _recorded()
    fresh = [t for t, c in vs if not (restore_known and c is not None)]
    if fresh:
        return "P", fresh[0] + " (impl=%r model=%r)" % (impl[:200], model[:200])
    extra = (" [also shows recorded finding: %s]" % vs[0][0]) if vs else ""
    return "G", "implementation and model disagree: impl=%r model=%r%s" % (impl[:300], model[:300], extra)


def signature(case, impl, models):
    f = case.split()
    if f[0] == "sess" and f[1].startswith("restore:") and impl == models.get("def_rguard"):
        return SIG_RESTORE
    return None


def nontrivial(case, out):
    k = case.split(" ", 1)[0]
    if k in ("ipcp", "lcp", "v6"):
        return "A=- N=- R=-" != out.split(" ; ")[0]
    if k in ("hi", "hl", "h6"):
        return "A=" in out and len(case.split()) > (5 if k == "hi" else 3)
    if k == "hh":
        return "A=" in out
    if k == "fsm":
        return not out.startswith("- ;")
    if k == "pa":
        return "closing" in out or "sca:" in out or "scn:" in out
    if k in ("s6", "sl", "l6", "ll"):
        return "sca:" in out or "scn:" in out
    return "up=1" in out


def shrink(case):
    f = case.split()
    k = f[0]
    if k in ("ipcp", "lcp", "v6"):
        n = {"ipcp": 4, "lcp": 2, "v6": 2}[k]
        head, reqs = f[:n], f[n:]
        for i in range(len(reqs)):
            if len(reqs) > 1:
                yield " ".join(head + reqs[:i] + reqs[i + 1:])
        for i, rq in enumerate(reqs):
            os = [] if rq == "-" else rq.split(",")
            for j in range(len(os)):
                yield " ".join(head + reqs[:i] + [olist(os[:j] + os[j + 1:])] + reqs[i + 1:])
            for j, o in enumerate(os):
                t, d = o.split(".", 1)
                if len(d) > 16:
                    yield " ".join(head + reqs[:i] + [olist(os[:j] + [t + "." + d[:16]] + os[j + 1:])] + reqs[i + 1:])
    elif k in ("hi", "hl", "h6"):
        n = 4 if k == "hi" else 2
        head, ops = f[:n], f[n:]
        for i in range(len(ops)):
            if len(ops) > 1:
                yield " ".join(head + ops[:i] + ops[i + 1:])
        for i, op in enumerate(ops):
            if op[0] in "qanj" and "," in op:
                os = op[1:].split(",")
                for j in range(len(os)):
                    yield " ".join(head + ops[:i] + [op[0] + olist(os[:j] + os[j + 1:])] + ops[i + 1:])
    elif k == "fsm":
        w = f[-1]
        if w != "-":
            b = [w[i:i + 2] for i in range(0, len(w), 2)]
            # drop whole options when the area parses, else drop single bytes
            i, spans = 0, []
            while i + 1 < len(b) and 2 <= int(b[i + 1], 16) <= len(b) - i:
                spans.append((i, i + int(b[i + 1], 16)))
                i = spans[-1][1]
            for (x, y) in spans:
                yield " ".join(f[:-1] + ["".join(b[:x] + b[y:]) or "-"])
            if len(b) <= 24:
                for i in range(len(b)):
                    yield " ".join(f[:-1] + ["".join(b[:i] + b[i + 1:]) or "-"])
    elif k == "pa":
        evs = f[1:]
        for i in range(len(evs)):
            if len(evs) > 1:
                yield " ".join(f[:1] + evs[:i] + evs[i + 1:])
    elif k in ("sess", "lns", "s6", "sl", "l6", "ll"):
        evs = f[2:]
        for i in range(len(evs)):
            if len(evs) > 1:
                yield " ".join(f[:2] + evs[:i] + evs[i + 1:])


def distribution(cases, impl):
    d = {"ipcp": 0, "lcp": 0, "v6": 0, "hi": 0, "hl": 0, "h6": 0, "history_ops": 0, "sess_reauth": 0, "fsm": 0, "sess": 0, "lns": 0, "s6": 0, "s6_echo": 0, "sl": 0, "sl_echo": 0, "sl_restored": 0, "l6": 0, "ll": 0, "timeouts": 0, "pa": 0, "pa_reject": 0, "exhaust": 0, "hh": 0, "sess_alloc": 0, "sess_conflict": 0, "options_classified": 0, "acked": 0, "nakked": 0,
         "rejected": 0, "fsm_sca": 0, "fsm_scn": 0, "fsm_scj": 0, "fsm_silent": 0, "sess_opened": 0,
         "max_options_in_request": 0, "panic_or_hang": 0}
    for c, o in zip(cases, impl):
        k = c.split(" ", 1)[0]
        d[k] = d.get(k, 0) + 1
        if k in ("sess", "lns", "s6", "l6", "sl", "ll"):
            d["timeouts"] += c.split().count("T")
            d["exhaust"] += c.split().count("X")
        if k == "pa":
            d["pa_reject"] += " F" in c
        if o is None:
            continue
        if o.startswith(("panic", "hang")):
            d["panic_or_hang"] += 1
            continue
        if k in ("ipcp", "lcp", "v6"):
            try:
                for a, n, r in parse_results(o):
                    d["acked"] += len(a)
                    d["nakked"] += len(n)
                    d["rejected"] += len(r)
                    d["options_classified"] += len(a) + len(n) + len(r)
                    d["max_options_in_request"] = max(d["max_options_in_request"], len(a) + len(n) + len(r))
            except Exception:
                pass
        elif k == "s6":
            d["s6_echo"] += " e" in c
        elif k == "sl":
            d["sl_echo"] += " e" in c
            d["sl_restored"] += "restore:" in c
        elif k in ("hi", "hl", "h6"):
            d["history_ops"] += len(c.split()) - (4 if k == "hi" else 2)
        elif k == "fsm":
            a = o.split(" ; ")[0]
            d["fsm_sca"] += "sca:" in a
            d["fsm_scn"] += "scn:" in a
            d["fsm_scj"] += "scj:" in a
            d["fsm_silent"] += a == "-"
        else:
            d["sess_opened"] += "up=1" in o
            d["sess_reauth"] += " R" in c
            d["sess_alloc"] += ("/" in c and "/none" not in c.split()[1]) or "/0a" in c
            d["sess_conflict"] += "/cf" in c
    return d
