"""C04 — PPPoE admission and isolation (pkg/pppoe/{cookie,tags}.go, internal/pppoe/{component,session}.go)."""
import re

ID = "C04"
HARNESSES = [
    dict(name="pkg", pkg="./pkg/pppoe/", test="TestVerifC04Pkg",
         files=[("pkg/pppoe/zz_verif_c04_pkg_test.go", "harness/C04/zz_verif_c04_pkg_test.go")]),
    dict(name="int", pkg="./internal/pppoe/", test="TestVerifC04Int",
         files=[("internal/pppoe/zz_verif_c04_int_test.go", "harness/C04/zz_verif_c04_int_test.go")]),
]
# one model variant: repaired = /repo HEAD.  All seven findings are fixed there (b12b708, 731c2cc, 46cb3dc, 9893c59,
# 9d39845): a regression to any of them is a VIOLATION.
VARIANTS = ["repaired"]
MODEL_NEEDS_IMPL = True   # the wall-clock second the implementation ran in is read from its output
RULE = ("sq: the cookie manager as a black box (opaque cookies, nothing forged, no layout assumed): Generate for some "
        "tuples, then present the issued cookies unchanged / truncated (37) / extended / with every byte flipped, by the "
        "right tuple and by tuples nothing was issued for (other MAC, one field changed, MAC length 0/5/7/8, VLANs "
        "swapped or shifted), fresh and after expiry (lifetime changed through an in-package seam, or the clock really "
        "advanced), other tuples' cookies in between, immediate replays; expected verdict = layout-free specification "
        "(accepted iff one of the issued cookies, for its tuple, within its lifetime). tags: random and malformed tag "
        "lists. tb: histories of PADI/PADR/PADT/session "
        "packet/dead-peer/restore over 4 hosts (same VLAN other MAC, same MAC other VLAN, outside any group) with "
        "valid, replayed, expired, foreign-tuple, truncated, bit-flipped and missing cookies, session-ids of own, "
        "foreign and unknown sessions, counter positions {1,0xfffe,0xffff,random}, occupied runs across the wrap, "
        "full and nearly full id space, concurrent PADRs (C) and PADRs forced to overlap between allocateSessionID and "
        "addToIndexes (P, gate in the AccessResolver) incl. the last-free-id race; restored sessions with usernames, "
        "CHAP Responses naming a session like another one, removal by PADT / dead peer / AAA reject (A) / dataplane add "
        "failure (F, also late: for an object already torn down whose id has been re-used). Non-trivial: sq with an accept and a reject; tags accepted; tb with a session "
        "created and at least one PADT/session packet reaching or refused. Distinct: by case text.")
TRUSTED = ["HMAC-SHA256 is an uninterpreted function argument H of the model; the AC-Cookie is an opaque token: the "
           "correspondence never forges or decodes cookies, it presents (mutations of) the implementation's own cookies "
           "and expects the layout-free specification ideal_validate, which every lawful cookie scheme refines "
           "(C04_scheme_refines_ideal)",
           "the wall clock is read from the implementation's output (second granularity); cases are re-run by the "
           "harness when the second changes mid-case; lifetimes are whole seconds",
           "c.sessions is keyed by the tuple in the model; the Go key string mac:svlan:cvlan is proved injective for "
           "6-byte MACs (C04_session_key_injective) and its equivalence classes are observed (op K)",
           "the model uses std++ gmap / Nmap (finite maps) in addition to the Coq standard library; no axioms "
           "(every theorem prints Closed under the global context)",
           "white-box seams of the harness: cookie lifetime (field ttl) set by reflection, nextSessionID positioned, Phase set "
           "before a CHAP name frame, fakes for opdb / southbound / cache around restoreFromHASync, an AccessResolver "
           "gate inside handlePADR (its position, sidMu held or not, is recorded in the output but echoed by the model)"]
ASSUMPTIONS = ["H_mac_unforgeable (premise of C04_cookie_sound / C04_admission, for the one tag presented): a 32-byte "
               "value that verifies under the secret was produced by Generate for exactly that message",
               "START-UP restored sessions (installInMemoryState, op X) carry pairwise distinct non-zero ids that are not "
               "in use (own checkpoint, written from a table for which the distinctness theorem held); RUN-TIME HA "
               "restores (restoreFromHASync, op H) carry arbitrary ids and are fully modelled",
               "which free session-id a PADR gets and whether a cookie for a non-Ethernet MAC is accepted are left to the "
               "implementation: its answer is checked for admissibility, not compared with HEAD's policy",
               "packet handlers are atomic except handlePADR, which is split at the one point where it releases all locks "
               "(between allocateSessionID and addToIndexes); every interleaving of those halves is covered"]

A = ("020000aa0001", 100, 10)
B = ("020000bb0002", 100, 10)    # same VLANs, other MAC
A2 = ("020000aa0001", 101, 10)   # same MAC, other S-VLAN
A3 = ("020000aa0001", 100, 11)   # same MAC, other C-VLAN
O = ("020000cc0003", 3500, 0)    # no subscriber group
HOSTS = [A, B, A2, A3, O]
SECRET = "000102030405060708090a0b0c0d0e0f101112131415161718191a1b1c1d1e1f"


KINDS = ["cr", "ca", "cn", "tr", "ta", "cj", "pj", "er", "ep", "pap", "chap", "ip", "i6", "v6", "unk"]
MACS = ["020000aa0001", "020000bb0002"]
MACS_MORE = MACS + ["fe12345678ab"]      # random share: a MAC with all bytes non-trivial
SVS = [0, 100, 101]      # 0 = untagged
CVS = [0, 10, 11]        # 0 = single-tagged
BASES = [(m, s_, c_) for m in MACS for s_ in SVS for c_ in CVS]


def neighbours(t):
    """the same host with exactly one field changed, in every direction (0 <-> non-zero for each VLAN, one MAC byte)"""
    m, s_, c_ = t
    out = [(m, s2, c_) for s2 in SVS + [s_ + 1] if s2 != s_]
    out += [(m, s_, c2) for c2 in CVS + [c_ + 1] if c2 != c_]
    for i in range(6):        # every MAC byte
        out.append((m[:2 * i] + "%02x" % (int(m[2 * i:2 * i + 2], 16) ^ 0x10) + m[2 * i + 2:], s_, c_))
    return out


def route(case):
    return "int" if case.startswith("tb") else "pkg"


S1 = 1000000000


def gen_sq(rng, tier):
    """histories on ONE CookieManager used as a black box (the cookie is an opaque token: no layout is assumed, no
    cookie is forged): Generate for some tuples, then present the issued cookies unchanged, truncated, extended,
    with any byte flipped, by the right tuple, by tuples nothing was issued for (other MAC, one field changed, MAC
    lengths 0/5/7/8, VLANs swapped), fresh and after expiry (lifetime cut through the in-package seam L, or the
    clock really advanced with W), other tuples' cookies in between, immediate replays"""
    T = [A, B, A2, A3, ("020000aa0001", 100, 0), ("020000aa0001", 0, 0)]
    cases = []

    def v(src, t, mut="id"):
        return "V/%s/%s/%s" % (src, mut, tup(t))

    macs = ["020000aa0001", "020000aa0002", "-", "0200000aa0", "020000aa000100", "020000aa00010064", "ffffffffffff"]
    for ttl_s in (60, 1, 3600):
        for mac in (macs if tier == "thorough" or ttl_s == 60 else macs[:2]):
            sv, cv = rng.choice([(100, 10), (0, 0), (4094, 4094), (65535, 1), (256, 1), (1, 256)])
            me = (mac, sv, cv)
            st = ["G/" + tup(me), v("g0", me)]
            st += [v("g0", me, "t%d" % n) for n in range(0, 37)]
            st += [v("g0", me, "a00"), v("g0", me, "a" + "00" * 36)]
            st += [v("g0", me, "x%d.%d" % (i, rng.choice([1, 2, 128, 255]))) for i in range(40)]
            others = [(m, sv, cv) for m in macs if m != mac] + [(mac, cv, sv), (mac, sv + 1 & 0xffff, cv), (mac, sv, cv ^ 1),
                                                                  (mac, sv ^ 256, cv), (mac, 0, 0)]
            if len(mac) >= 4 and mac != "-":
                others.append((mac[:-2], (int(mac[-2:], 16) << 8 | sv >> 8) & 0xffff, (sv & 255) << 8 | cv >> 8))
            others.append((("" if mac == "-" else mac) + "%02x" % (sv >> 8), (sv & 255) << 8 | cv >> 8, (cv & 255) << 8))
            st += [v("g0", o) for o in others if o != me]          # nothing was issued for these tuples
            # expiry: the cookie is about half a second old
            st += ["L/0", v("g0", me), v("g0", me, "x35.1"), "L/%d" % (ttl_s * S1), v("g0", me), "L/-1", v("g0", me),
                   "L/%d" % S1, v("g0", me)]
            # a second tuple gets a cookie: each is good for its own tuple only
            o = others[0]
            st += ["L/%d" % (60 * S1), "G/" + tup(o), v("g1", o), v("g1", me), v("g0", o), v("g0", me)]
            cases.append("sq %d %s" % (ttl_s * S1, " ".join(st)))
    # systematic single-field block: a cookie issued for tuple T must be refused for T with EXACTLY one field changed:
    # every MAC byte (low bit, high bit, 0x7f), both VLAN tags (low / high byte, +1, to 0), and with every cookie byte
    # changed (that covers the timestamp wherever the layout puts it)
    for T0 in [("020000aa0001", 100, 10), ("fe12345678ab", 4094, 1), ("020000aa0001", 0, 0)]:
        m0, s0, c0 = T0
        st = ["G/" + tup(T0), v("g0", T0)]
        for i in range(6):
            for mask in (0x01, 0x80, 0x7f):
                st.append(v("g0", (m0[:2 * i] + "%02x" % (int(m0[2 * i:2 * i + 2], 16) ^ mask) + m0[2 * i + 2:], s0, c0)))
        for d in (1, 0x100, 0x8000, 0x00ff):
            st.append(v("g0", (m0, s0 ^ d, c0)))
            st.append(v("g0", (m0, s0, c0 ^ d)))
        st += [v("g0", (m0, (s0 + 1) & 0xffff, c0)), v("g0", (m0, s0, (c0 + 1) & 0xffff)), v("g0", (m0, c0, s0))]
        if s0:
            st.append(v("g0", (m0, 0, c0)))
        if c0:
            st.append(v("g0", (m0, s0, 0)))
        for i in range(40):
            for mask in (0x01, 0x80):
                st.append(v("g0", T0, "x%d.%d" % (i, mask)))
        st.append(v("g0", T0))
        cases.append("sq %d %s" % (60 * S1, " ".join(st)))
    # "a cookie THIS BNG issued": a second cookie manager (another BNG, a restart: fresh secret) accepts none of the
    # cookies of the first one, and vice versa; raw bytes nobody issued (all-zero, all-ff, random, 36 and 40 long)
    for t in T[:3]:
        raws = ["00" * 36, "ff" * 36, "".join("%02x" % rng.randint(0, 255) for _ in range(36)),
                "".join("%02x" % rng.randint(0, 255) for _ in range(40)), "00" * 4 + "ff" * 32]
        cases.append("sq %d %s" % (60 * S1, " ".join(
            ["G/" + tup(t), v("g0", t)] + [v("z" + r_, t) for r_ in raws] +
            ["N", v("g0", t), "G/" + tup(t), v("g1", t), v("g0", t), v("g1", t, "x5.1"), "N", v("g1", t), v("g0", t),
             "G/" + tup(t), v("g2", t)] + [v("z" + r_, t) for r_ in raws[:2]])))
    for t in T:
        o = B if t != B else A
        cases.append("sq %d %s" % (60 * S1, " ".join([
            "G/" + tup(t), "G/" + tup(o), v("g0", t), v("g1", o), v("g0", t), "L/0", v("g0", t), v("g1", o),
            "L/%d" % (60 * S1), v("g1", o), "L/0", v("g0", t), v("g0", o), v("g1", t), v("g0", t, "x3.1"), v("g0", t, "t35")])))
    # the clock really advances: 1 s lifetime 2 s wait; 3 s lifetime: fresh after 1 s and 2 s, expired after 4 s
    nwait = 2 if tier == "quick" else 8
    for i in range(nwait):
        t = T[i % len(T)]
        o = B if t != B else A
        cases.append("sq %d %s" % (S1, " ".join([
            "G/" + tup(t), v("g0", t), "G/" + tup(o), v("g1", o), v("g0", t), "W/2", v("g0", t), v("g1", o),
            v("g0", t), "G/" + tup(t), v("g2", t), v("g0", t)])))
    if tier == "thorough":
        for t in T[:3]:
            cases.append("sq %d %s" % (3 * S1, " ".join(["G/" + tup(t), v("g0", t), "W/1", v("g0", t), "W/2", v("g0", t),
                                                       "W/4", v("g0", t), "G/" + tup(t), v("g1", t)])))
    n = 40 if tier == "quick" else 600
    for _ in range(n):
        ttl = rng.choice([60, 60, 5, 1])
        steps, ng = ["G/" + tup(rng.choice(T))], 1
        for _ in range(rng.randint(4, 14)):
            r = rng.random()
            t = rng.choice(T)
            if r < 0.15:
                steps.append("G/" + tup(t))
                ng += 1
            elif r < 0.35:
                steps.append("L/%d" % (rng.choice([0, 1, 5, 60, ttl, -1]) * S1))
            else:
                mut = rng.choice(["id"] * 6 + ["x%d.%d" % (rng.randint(0, 39), 1 << rng.randint(0, 7)), "t%d" % rng.randint(0, 35),
                                              "a%02x" % rng.randint(0, 255)])
                q = v("g%d" % rng.randrange(ng), t, mut)
                steps.append(q)
                if rng.random() < 0.5:       # immediate replay of the same query
                    steps.append(q)
        cases.append("sq %d %s" % (ttl * S1, " ".join(steps)))
    return cases


def gen_tb_replay(rng, tier):
    """PADRs replayed after the cookie expired (lifetime cut with L, or clock advanced with W), other hosts in between"""
    cases = []
    for t in [A, B, ("020000aa0001", 100, 0), ("020000bb0002", 0, 0)]:
        o = B if t != B else A
        head = "tb 60 G=0-199 occ=- next=- ; "
        cases.append(head + " ".join([
            "I/" + tup(t), "R/%s/s,cP:id" % tup(t), "R/%s/s,cP:id" % tup(t), "L/0", "R/%s/s,cP:id" % tup(t),
            "R/%s/%s" % (tup(o), ck_valid(o)), "R/%s/s,cP:id" % tup(t), "L/60", "R/%s/s,cP:id" % tup(t)]))
        cases.append(head + " ".join([
            "R/%s/%s" % (tup(t), ck_valid(t)), "L/0", "R/%s/%s" % (tup(t), ck_valid(t)), "L/1",
            "R/%s/%s" % (tup(t), ck_valid(t)), "R/%s/%s" % (tup(o), ck_valid(o)), "L/0",
            "R/%s/%s" % (tup(t), ck_valid(t)), "R/%s/%s" % (tup(o), ck_valid(o)), "L/60", "R/%s/s,cP:id" % tup(t)]))
    for t in ([A] if tier == "quick" else [A, B, A2]):
        cases.append("tb 1 G=0-199 occ=- next=- ; " + " ".join([
            "I/" + tup(t), "R/%s/s,cP:id" % tup(t), "W/2", "R/%s/s,cP:id" % tup(t), "I/" + tup(t), "R/%s/s,cP:id" % tup(t)]))
    return cases


def tup(t):
    return "%s/%d/%d" % t


def ftup(t):
    return "%s,%d,%d" % t


# ------------------------------------------------------------------ generators
def tag(ty, v):
    return "%04x%04x%s" % (ty, len(v) // 2, v)


def gen_tags(rng, tier):
    cases = ["tags -", "tags 00", "tags 000000", "tags 01010000", "tags 0104", "tags 01040001", "tags 0104000100",
             "tags 010400020a", "tags 0104ffff00", "tags 00000000" + tag(0x0104, "aa"), tag(0x0104, "aa") + "00000000",
             "tags " + tag(0x0120, "05d4"), "tags " + tag(0x0120, "05d3"), "tags " + tag(0x0120, "ffff"),
             "tags " + tag(0x0120, "05"), "tags " + tag(0x0120, "05d400"), "tags " + tag(0x0120, ""),
             "tags " + tag(0x0104, "aa") + tag(0x0104, "bbcc"), "tags " + tag(0x0104, "aa") + tag(0x0104, ""),
             "tags " + tag(0x0105, "00000de9010261620203636465"), "tags " + tag(0x0105, "00000de901ff"),
             "tags " + tag(0x0105, "00000de9"), "tags " + tag(0x0103, "0102") + tag(0x0104, "00" * 36) + "0000"]
    cases = [c if c.startswith("tags ") else "tags " + c for c in cases]
    types = [0x0101, 0x0102, 0x0103, 0x0104, 0x0105, 0x0110, 0x0120, 0x0201, 0x0202, 0x0203, 0x0000, 0x1234, 0xffff]
    n = 300 if tier == "quick" else 5000
    for _ in range(n):
        p = ""
        for _ in range(rng.randint(0, 6)):
            ty = rng.choice(types)
            ln = rng.choice([0, 1, 2, 2, 3, 4, 36, rng.randint(0, 40)])
            v = "".join("%02x" % rng.randint(0, 255) for _ in range(ln))
            if ty == 0x0120 and rng.random() < 0.6:
                v = "%04x" % rng.choice([0, 1491, 1492, 1493, 1500, 9000, 65535])
            p += tag(ty, v)
        r = rng.random()
        if r < 0.25 and p:
            p = p[:2 * rng.randint(0, len(p) // 2)]
        elif r < 0.35:
            p += "".join("%02x" % rng.randint(0, 255) for _ in range(rng.randint(1, 5)))
        elif r < 0.45 and len(p) >= 8:
            i = 2 * rng.randint(0, len(p) // 2 - 1)
            p = p[:i] + "%02x" % rng.randint(0, 255) + p[i + 2:]
        cases.append("tags " + (p or "-"))
    return cases


def ck_valid(t, mut="id"):
    """AC-Cookie tag whose cookie the harness obtains from the component's own cookie manager for tuple t, now"""
    return "cg:%s:%d:%d:%s" % (t[0], t[1], t[2], mut)


def gen_tb_one(rng, ttl=60, scale=None):
    """one random history"""
    mode = rng.choice(["low", "low", "wrap", "wrap", "rand"])
    occ, nxt = "-", "-"
    if mode == "low":
        start = 1
    elif mode == "wrap":
        start = rng.choice([65534, 65535, 65533])
        nxt = str(start)
        if rng.random() < 0.6:
            lo = rng.randint(65530, 65535)
            hi = rng.randint(1, 6)
            parts = []
            if rng.random() < 0.8:
                parts.append("%d-65535" % lo)
            if rng.random() < 0.8:
                parts.append("1-%d" % hi)
            occ = ",".join(parts) or "-"
            if rng.random() < 0.3:
                nxt = "-"       # keep the counter the restore left (0 after restoring 0xffff)
    else:
        start = rng.randint(2, 65000)
        nxt = str(start)
        if rng.random() < 0.5:
            occ = "%d-%d" % (start + 1, start + rng.randint(1, 4))
    ops = []
    expire_after = False
    sids = [start, start % 65535 + 1, (start + 1) % 65535 + 1, (start + 2) % 65535 + 1, 1, 2, 7, 8, 0, 65535]
    grp = "100-199"
    if rng.random() < 0.5:
        hosts = [A, B, A2, A3] + ([O] if rng.random() < 0.3 else [])
    else:
        base = rng.choice(BASES + [(m, s_, c_) for m in MACS_MORE[2:] for s_ in SVS for c_ in CVS])
        nb = neighbours(base) + [(base[0], base[1] ^ 1, base[2] ^ 1)]
        rng.shuffle(nb)
        hosts = [base, base] + nb[:rng.randint(2, 5)] + ([O] if rng.random() < 0.2 else [])
        grp = "0-199"
    if rng.random() < 0.25:
        used = set()
        if occ != "-":
            for r_ in occ.split(","):
                a_, b_ = r_.split("-")
                used.update(range(int(a_), int(b_) + 1))
        for _ in range(rng.randint(1, 3)):
            x = rng.choice([rng.randint(1, 65535), 65535, 65534, 1, 2, 300])
            if x in used:       # a restore never brings back an id twice
                continue
            used.add(x)
            ops.append("X/%d/%s%s" % (x, tup(rng.choice(hosts)), rng.choice(["", "", "/" + NAMES[0], "/" + rng.choice(NAMES)])))
    for _ in range(rng.randint(3, 16)):
        h = rng.choice(hosts)
        r = rng.random()
        if r < 0.03:
            ops.append("L/%d" % rng.choice([0, 0, 1, 60, ttl]))
        elif r < 0.07:
            # checkpoint synced from the HA peer: the id is the PEER's choice (in use here or not)
            ops.append("H/%d/%s%s" % (rng.choice(sids), tup(h), rng.choice(["", "", "/" + NAMES[0]])))
        elif r < 0.10:
            ops.append(rng.choice(["F", "F", "A"]) + "/-%d" % rng.randint(1, 3))
        elif r < 0.14:
            ops.append("I/" + tup(h))
        elif r < 0.45:
            k = rng.random()
            if k < 0.55:
                spec = "s," + ck_valid(h)
            elif k < 0.6:
                spec = "s,h0a0b,cP:id"
            elif k < 0.68:
                # cookie issued for another tuple: another host, or the same host with one field changed / zeroed
                m_, s_, c_ = h
                spec = ck_valid(rng.choice(hosts + [(m_, s_, 0), (m_, 0, c_), (m_, 0, 0), (m_, c_, s_), (m_, s_, c_ + 1),
                                                    (m_, s_ + 1, c_), (m_[:10] + "00", s_, c_), ("000000000000", s_, c_)]))
            elif k < 0.72:
                ops.append("L/0")                                        # the cookie is already expired when presented
                spec = ck_valid(h)
                expire_after = True
            elif k < 0.75:
                spec = ck_valid(h, mut=rng.choice(["t35", "t0", "t32", "a00", "x0.1", "x35.1", "x33.128", "x31.255"]))
            elif k < 0.8:
                spec = rng.choice(["s", "-", "e," + ck_valid(h), ck_valid(h) + ",e", "m05," + ck_valid(h),
                                   ck_valid(h) + ",m05d4", ck_valid(h) + ",r0104", ck_valid(h) + ",r01040030aa",
                                   ck_valid(h) + "," + ck_valid(B), ck_valid(B) + "," + ck_valid(h),
                                   "cg:-:0:0:t0," + ck_valid(h), ck_valid(h) + ",cg:-:0:0:t0"])
            else:
                spec = "s,h%02x,%s" % (rng.randint(0, 255), ck_valid(h))
            ops.append("R/%s/%s" % (tup(h), spec))
            if expire_after:
                ops.append("L/%d" % ttl)
                expire_after = False
        elif r < 0.65:
            ops.append("T/%s/%d" % (tup(h), rng.choice(sids)))
        elif r < 0.92:
            ops.append("S/%s/%d/%s" % (tup(h), rng.choice(sids), rng.choice(["cr", "cr", "tr", "name:" + NAMES[0], "name:" + rng.choice(NAMES)] + KINDS)))
        else:
            ops.append("D/%d" % rng.choice(sids))
    if rng.random() < 0.06:
        ops.append("P/%d/%d" % (rng.randint(2, 5), rng.choice([100, 101])))
    elif rng.random() < 0.08:
        ops.append("C/%d/%d" % (rng.randint(2, 12), rng.choice([100, 101])))
    return "tb %d G=%s occ=%s next=%s ; %s" % (ttl, grp, occ, nxt, " ".join(ops))


def gen_directed():
    """for every base tuple: its session is addressed by every one-field neighbour with a PADT and with every
    session-stage packet kind; after each foreign PADT the owner's own frame must still reach the session"""
    cases = []
    for b in BASES:
        ops = ["R/%s/%s" % (tup(b), ck_valid(b))]
        for n in neighbours(b):
            ops.append("T/%s/1" % tup(n))
            ops.append("S/%s/1/er" % tup(b))
            for k in KINDS:
                ops.append("S/%s/1/%s" % (tup(n), k))
        ops.append("S/%s/1/cr" % tup(b))
        ops.append("T/%s/1" % tup(b))
        cases.append("tb 60 G=0-199 occ=- next=- ; %s" % " ".join(ops))
        # the neighbour has a session of its own as well (ids 1 and 2): each side quotes the other's id
        for n in neighbours(b)[:8]:
            ops = ["R/%s/%s" % (tup(b), ck_valid(b)), "R/%s/%s" % (tup(n), ck_valid(n))]
            for k in ("cr", "tr", "er", "pap"):
                ops += ["S/%s/1/%s" % (tup(n), k), "S/%s/2/%s" % (tup(b), k)]
            ops += ["T/%s/1" % tup(n), "T/%s/2" % tup(b), "S/%s/1/cr" % tup(b), "S/%s/2/cr" % tup(n),
                    "T/%s/2" % tup(n), "T/%s/1" % tup(b)]
            cases.append("tb 60 G=0-199 occ=- next=- ; %s" % " ".join(ops))
    return cases


NAMES = ["626f62", "616c696365", "62"]      # bob, alice, b


# tuples whose textual renderings collide when a separator is dropped or a field is rendered without a fixed
# width: decimal S-VLAN/C-VLAN concatenations ("123" = 1|23 = 12|3 = 123|0 minus the 0 ...), with / without leading
# zeros, hex-vs-decimal look-alikes, and a MAC whose last hex pair looks like the first VLAN digits
COLLIDE = [
    [(1, 23), (12, 3)], [(1, 230), (12, 30), (123, 0)], [(10, 0), (1, 0), (100, 0)], [(11, 1), (1, 11), (111, 0)],
    [(409, 4), (40, 94), (4, 94), (4094, 0)], [(2, 1), (21, 0), (0, 21)], [(16, 10), (10, 16), (1, 610), (161, 0)],
]


def gen_tb_collide(rng, tier):
    """the same MAC on VLAN pairs whose textual keys could alias: each holds a session; every one addresses every
    other one's session with PADT and session packets; a replayed PADR of one must not displace the other"""
    cases = []
    head = "tb 60 G=0-4094 occ=- next=- ; "
    for grp in COLLIDE:
        for mac in MACS[:1] if tier == "quick" else MACS:
            ts = [(mac, a, b) for a, b in grp]
            ops = ["K/%s/%s" % (mac, ",".join("%d.%d" % ab for ab in grp + [grp[0]]))]
            ops += ["R/%s/%s" % (tup(t), ck_valid(t)) for t in ts]
            n = len(ts)
            for i, t in enumerate(ts):
                for j in range(n):
                    if i != j:
                        ops += ["S/%s/%d/%s" % (tup(t), j + 1, k) for k in ("cr", "tr", "er")]
                        ops.append("T/%s/%d" % (tup(t), j + 1))
            for i, t in enumerate(ts):
                ops.append("S/%s/%d/cr" % (tup(t), i + 1))
            # cookies are bound to the tuple, not to its rendering
            ops.append("R/%s/%s" % (tup(ts[0]), ck_valid(ts[1])))
            ops += ["T/%s/%d" % (tup(t), i + 1) for i, t in enumerate(ts)]
            cases.append(head + " ".join(ops))
            # victim first, then the colliding tuple opens its own session: the victim's tuple entry must survive
            ops = ["R/%s/%s" % (tup(ts[0]), ck_valid(ts[0])), "R/%s/%s" % (tup(ts[1]), ck_valid(ts[1])),
                   "T/%s/2" % tup(ts[1]), "S/%s/1/cr" % tup(ts[0]), "T/%s/1" % tup(ts[0])]
            cases.append(head + " ".join(ops))
    return cases


def gen_tb_hasync(rng, tier):
    """run-time HA restore (restoreFromHASync) of checkpoints whose ids were allocated by the peer: ids that are
    free, 0, in use by a local session of another / the same tuple, just released, about to be allocated"""
    head = "tb 60 G=0-199 occ=- next=- ; "
    cases = []
    for own, peer in [(A, B), (B, A), (A, A2), (A, A)]:
        R = "R/%s/%s" % (tup(own), ck_valid(own))
        cases += [
            head + " ".join([R, "H/1/%s" % tup(peer), "S/%s/1/cr" % tup(own), "S/%s/1/cr" % tup(peer), "T/%s/1" % tup(own),
                             "T/%s/1" % tup(peer), "S/%s/1/er" % tup(own)]),
            head + " ".join(["H/0/%s" % tup(peer), R, "S/%s/0/cr" % tup(peer), "T/%s/0" % tup(peer)]),
            head + " ".join(["H/5/%s/626f62" % tup(peer), R, "R/%s/%s" % (tup(own), ck_valid(own)), "H/2/%s" % tup(peer),
                             "H/3/%s" % tup(peer), "R/%s/%s" % (tup(own), ck_valid(own)), "S/%s/3/cr" % tup(peer)]),
            head + " ".join([R, "T/%s/1" % tup(own), "H/1/%s" % tup(peer), "H/1/%s" % tup(own), "S/%s/1/cr" % tup(peer)]),
            head + " ".join(["H/65535/%s" % tup(peer), R, "H/65535/%s" % tup(own), "P/2/100"]),
            # restore of a far-away free id concurrently with a PADR: order-independent result
            head + " ".join([R, "R/%s/%s" % (tup(A3), ck_valid(A3)), "T/%s/1" % tup(own),
                             "J/1/%s/%s" % (tup(peer), "020000dd0004"), "S/%s/1/cr" % tup(peer)]),
            head + " ".join(["X/7/%s/626f62" % tup(own), "H/7/%s/626f62" % tup(peer), "T/%s/7" % tup(peer), "T/%s/7" % tup(own)]),
        ]
    return cases


def gen_tb_fieldblock(rng, tier):
    """PADR level: a cookie the BNG issued for T (real PADI -> PADO) presented by T with exactly one field changed"""
    cases = []
    for T0 in [("020000aa0001", 100, 10), ("020000bb0002", 0, 0)]:
        ops = ["I/" + tup(T0)]
        for n in neighbours(T0):
            ops.append("R/%s/s,cP:id" % tup(n))
        ops += ["R/%s/s,cP:id" % tup(T0)]
        cases.append("tb 60 G=0-4094 occ=- next=- ; " + " ".join(ops))
    return cases


def gen_tb_sidspace(rng, tier):
    """regions of the 16-bit session-id space and ids that alias when a byte is dropped or swapped: sessions restored
    at 1, 255, 256, 257, 0x0102, 0x0201, 0x7fff, 0x8000, 0x8001, 0xff00, 0xfffe, 0xffff for DIFFERENT hosts; every
    owner addresses its own id (reached / terminated) and the ids that alias with it (low byte only, high byte only,
    bytes swapped, top bit dropped, +-1): nothing may be reached; then new PADRs walk across the wrap"""
    ids = [1, 255, 256, 257, 0x0102, 0x0201, 0x7fff, 0x8000, 0x8001, 0xff00, 0xfffe, 0xffff]
    hosts = [("0200%02xaa%04x" % (i, sid), 100 + i % 3, (i * 7) % 12) for i, sid in enumerate(ids)]
    cases = []
    for part in (0, 1):
        ops = ["X/%d/%s" % (sid, tup(h)) for sid, h in zip(ids, hosts)]
        for sid, h in list(zip(ids, hosts))[part::2]:
            alias = {sid & 0xff, sid >> 8, ((sid & 0xff) << 8) | (sid >> 8), sid & 0x7fff, sid | 0x8000, (sid + 1) & 0xffff,
                     (sid - 1) & 0xffff, sid ^ 0x0100, sid ^ 0x0001} - {sid}
            ops.append("S/%s/%d/er" % (tup(h), sid))
            for a in sorted(alias):
                ops.append("S/%s/%d/cr" % (tup(h), a))
                ops.append("T/%s/%d" % (tup(h), a))
            ops.append("S/%s/%d/cr" % (tup(h), sid))
        ops += ["T/%s/%d" % (tup(h), sid) for sid, h in list(zip(ids, hosts))[part::2]]
        # the counter stands at 0 after restoring 0xffff: new sessions get fresh ids, never one of the survivors
        ops += ["R/%s/%s" % (tup(A), ck_valid(A)), "R/%s/%s" % (tup(B), ck_valid(B)), "P/3/100"]
        cases.append("tb 60 G=0-199 occ=- next=- ; " + " ".join(ops))
    # walks across the wrap with long-lived sessions in the way, from several counter positions
    for nx, occ in [(65534, "65535-65535,1-1,3-3"), (65535, "1-2,4-6"), (255, "256-256,258-258"), (32767, "32768-32769"),
                    (65280, "65281-65283")]:
        ops = ["R/%s/%s" % (tup(h), ck_valid(h)) for h in (A, B, A2, A3, ("020000aa0001", 101, 11), ("020000bb0002", 0, 0))]
        ops += ["S/%s/%d/cr" % (tup(A), x) for x in (nx, (nx + 1) & 0xffff or 1, 1, 2, 3, 4)]
        cases.append("tb 60 G=0-199 occ=%s next=%d ; %s" % (occ, nx, " ".join(ops)))
    return cases


def gen_tb_tags(rng, tier):
    """PADI / PADR with service names, AC-Name, Relay-Session-Id, vendor tags, Host-Uniq of several sizes; a raw
    cookie nobody issued; same MAC with BOTH VLAN tags different"""
    T2 = ("020000aa0001", 101, 11)          # differs from A in both tags
    svc = ["696e7465726e6574", "", "00", "41" * 40]
    cases = []
    for t, o in [(A, T2), (T2, A), (B, A)]:
        ops = []
        for sn in svc:
            ops += ["I/%s/n%s,h%s" % (tup(t), sn or "", "0a0b0c"), "R/%s/n%s,h0a0b0c,cP:id" % (tup(t), sn or ""),
                    "R/%s/n%s,a6f7376626e67,y0102,v00000de90103616263,cP:id" % (tup(o), sn or "")]
        ops += ["R/%s/s,cr:%s" % (tup(t), "00" * 36), "R/%s/s,cr:%s" % (tup(t), "ab" * 36),
                "R/%s/n%s,%s" % (tup(t), svc[0], ck_valid(t)), "R/%s/n%s,%s" % (tup(t), svc[0], ck_valid(o)),
                "R/%s/%s,n%s" % (tup(o), ck_valid(o), svc[3])]
        cases.append("tb 60 G=0-199 occ=- next=- ; " + " ".join(ops))
    return cases


def gen_tb_teardown(rng, tier):
    """every teardown path frees exactly the id of the session it ends: PADT, dead peer, AAA reject (A), dataplane add
    failure (F), also when the failure arrives late (session already gone, id re-used by another subscriber)"""
    head = "tb 60 G=0-199 occ=- next=1 ; "
    cases = []
    for own, other in [(A, B), (B, A), (A, A2), (("020000aa0001", 100, 0), A3)]:
        RA, RB = "R/%s/%s" % (tup(own), ck_valid(own)), "R/%s/%s" % (tup(other), ck_valid(other))
        name = "S/%s/1/name:626f62" % tup(own)
        for end in ("T/%s/1" % tup(own), "D/1", "A/-1", "F/-1"):
            # own session (id 1) authenticates, ends through <end>; the freed id is given to the other host (next=1 again
            # is the allocator's business: any admissible id); late failure / late reject for the dead object change nothing
            cases.append(head + " ".join([RA, name, end, "S/%s/1/cr" % tup(own), RB, "F/-2", "A/-2", "S/%s/1/cr" % tup(other),
                                          "S/%s/2/cr" % tup(other), "T/%s/1" % tup(own), "F/-1", "F/-1"]))
        # reject of the OLDER of two sessions of one tuple (displaced from c.sessions): the answer finds nobody
        cases.append(head + " ".join([RA, name, RA, "A/-2", "S/%s/1/cr" % tup(own), "S/%s/2/name:616c" % tup(own), "A/-1",
                                      "S/%s/2/cr" % tup(own), "S/%s/1/cr" % tup(own), "F/-2", "F/-2"]))
        # nothing outstanding / unknown object
        cases.append(head + " ".join([RA, "A/-1", "A/-3", "F/-3", "S/%s/1/cr" % tup(own)]))
        # HA-restored and start-up restored sessions are torn down by a dataplane failure like any other
        cases.append(head + " ".join(["X/7/%s/626f62" % tup(other), "H/9/%s" % tup(own), "F/-1", "F/-2", "S/%s/7/cr" % tup(other),
                                      "S/%s/9/cr" % tup(own), RA]))
    return cases


def gen_tb_race(rng, tier):
    """PADRs forced to overlap between allocateSessionID and addToIndexes (gate in the harness's AccessResolver)"""
    head = "tb 60 G=0-199 "
    cases = [head + "occ=- next=- ; P/2/100", head + "occ=- next=65534 ; P/4/101",
             head + "occ=65535-65535,1-3 next=65535 ; P/3/100",
             head + "occ=2-2,4-4 next=1 ; R/%s/%s P/3/100" % (tup(A), ck_valid(A)),
             head + "occ=- next=- ; X/65535/%s P/2/100" % tup(A)]
    for _ in range(3 if tier == "quick" else 30):
        st = rng.choice([1, 65533, 65534, 65535, rng.randint(2, 65000)])
        cases.append(head + "occ=- next=%d ; %s P/%d/100" % (
            st, " ".join("R/%s/%s" % (tup(h), ck_valid(h)) for h in rng.sample([A, B, A2, A3], rng.randint(0, 3))),
            rng.randint(2, 6)))
    return cases


def gen_tb_attr(rng, tier):
    """the username index: a session names itself (CHAP Response) like another session, then is removed"""
    head = "tb 60 G=0-199 occ=- next=- ; "
    cases = []
    for own, other in [(A, B), (B, A), (A, A2), (("020000aa0001", 100, 0), A)]:
        for nm in NAMES[:2]:
            for rm in ("T/%s/8" % tup(own), "D/8"):
                cases.append(head + " ".join([
                    "X/7/%s/%s" % (tup(other), NAMES[0]), "R/%s/%s" % (tup(own), ck_valid(own)),
                    "S/%s/8/name:%s" % (tup(other), nm),        # not the owner: refused
                    "S/%s/8/name:%s" % (tup(own), nm), rm, "S/%s/7/cr" % tup(other)]))
        # two restored sessions persisted with the same username; the first one is removed by its owner
        cases.append(head + " ".join([
            "X/7/%s/%s" % (tup(other), NAMES[0]), "X/9/%s/%s" % (tup(own), NAMES[0]), "T/%s/7" % tup(other),
            "T/%s/9" % tup(own)]))
        cases.append(head + " ".join([
            "X/7/%s/%s" % (tup(other), NAMES[0]), "X/9/%s/%s" % (tup(own), NAMES[0]), "T/%s/9" % tup(own),
            "S/%s/7/name:%s" % (tup(other), NAMES[1]), "T/%s/7" % tup(other)]))
        # renamed away before removal / empty name
        cases.append(head + " ".join([
            "X/7/%s/%s" % (tup(other), NAMES[0]), "R/%s/%s" % (tup(own), ck_valid(own)), "S/%s/8/name:%s" % (tup(own), NAMES[0]),
            "S/%s/8/name:%s" % (tup(own), NAMES[1]), "T/%s/8" % tup(own)]))
        cases.append(head + " ".join([
            "X/7/%s/%s" % (tup(other), NAMES[0]), "R/%s/%s" % (tup(own), ck_valid(own)), "S/%s/8/name:-" % tup(own),
            "T/%s/8" % tup(own)]))
    return cases


FULLSCALE = [
    # id space full: the code as found answers with session-id 0
    "tb 60 G=100-199 occ=1-65535 next=777 ; R/%s/%s S/%s/0/cr T/%s/0" % (tup(A), ck_valid(A), tup(A), tup(A)),
    # exactly one free id behind the counter: must be found after the wrap
    "tb 60 G=100-199 occ=1-100,102-65535 next=5000 ; R/%s/%s R/%s/%s T/%s/101 P/2/100" % (
        tup(A), ck_valid(A), tup(B), ck_valid(B), tup(A)),
]
THOROUGH_FULLSCALE = [
    "tb 60 G=100-199 occ=1-65534 next=- ; R/%s/%s R/%s/%s" % (tup(A), ck_valid(A), tup(B), ck_valid(B)),
    "tb 60 G=100-199 occ=2-65535 next=2 ; R/%s/%s R/%s/%s" % (tup(A), ck_valid(A), tup(B), ck_valid(B)),
    "tb 60 G=100-199 occ=1-65535 next=65535 ; D/9 R/%s/%s R/%s/%s" % (tup(A), ck_valid(A), tup(B), ck_valid(B)),
]


def gen_cases(rng, tier, budget):
    cases = gen_sq(rng, tier) + gen_tags(rng, tier) + gen_tb_replay(rng, tier)
    n = (budget or 700) if tier == "quick" else (budget or 12000)
    for _ in range(n):
        cases.append(gen_tb_one(rng, ttl=rng.choice([60, 60, 60, 5])))
    cases += gen_directed() + gen_tb_collide(rng, tier) + gen_tb_hasync(rng, tier) + gen_tb_fieldblock(rng, tier) + gen_tb_sidspace(rng, tier) + gen_tb_tags(rng, tier) + gen_tb_teardown(rng, tier) + gen_tb_race(rng, tier) + gen_tb_attr(rng, tier)
    # quick: one history with 65535 sessions (last id taken -> id space full -> freed -> two PADRs race for it)
    cases += FULLSCALE[1:]
    if tier == "thorough":
        cases += FULLSCALE[:1] + THOROUGH_FULLSCALE
    return cases


# ------------------------------------------------------------------ reading results
def split_tb(line):
    if " ; " not in line:
        return None, None
    a, b = line.rsplit(" ; ", 1)
    return a.split()[1:], b


def tb_ops(case):
    return case.split(" ; ", 1)[1].split()


def nontrivial(case, out):
    if case.startswith("tags"):
        return out.startswith("ok")
    if case.startswith("sq"):
        return " 1" in out and " 0" in out
    return "pads:" in out and ("reach:" in out or "term:" in out) and "none" in out


def classify(case, impl, model):
    if case.startswith("sq"):
        st = case.split()[2:]
        io, mo = impl.split()[1:], model.split()[1:]
        for i, (x, y) in enumerate(zip(io, mo)):
            if x != y:
                if x == "1" and y == "0":
                    return "P", ("step #%d %s: Validate accepts a cookie the model rejects at that point of the history "
                                 "(verdict must depend on secret, lifetime, clock, cookie, tuple only)" % (i, st[i]))
                return "P", "step #%d %s: implementation %s, model %s" % (i, st[i] if i < len(st) else "?", x[:80], y[:80])
        return "G", "cookie history output unusable: impl=%r model=%r" % (impl[:80], model[:80])
    if case.startswith("tags"):
        return "P", "ParseTags differs: impl=%r model=%r" % (impl[:120], model[:120])
    io, idump = split_tb(impl)
    mo, mdump = split_tb(model)
    if io is None or mo is None:
        return "G", "table harness output unusable: impl=%r model=%r" % (impl[:120], model[:120])
    ops = tb_ops(case)
    for i, (x, y) in enumerate(zip(io, mo)):
        if x != y:
            txt = "op #%d %s: implementation %s, model (repaired) %s" % (i, ops[i] if i < len(ops) else "?", x, y)
            kind_ = ops[i].split("/")[0] if i < len(ops) else "?"
            if kind_ == "F" and y == "none" and x.startswith("term:"):
                # a second teardown of an object that is already torn down: it cannot touch sidIndex / sessions
                # (C04_stale_teardown_noop); the repeated Released event is not this property's subject
                return "G", txt + " (late dataplane failure handled again: outside this property, correspondence only)"
            if kind_ == "P" and x.split("/p")[0] == y.split("/p")[0] and "/p" in x:
                # same ids, the reservation probe differs: while a PADR handler waited to index, another one was inside
                # the allocator / sidMu was free (or the probe could not settle): allocation and indexing are not one
                # critical section, so the forced overlap was not achieved and the last-free-id race is not excluded
                return "G", txt + " (overlap-not-forced: the id is not reserved between allocation and indexing)"
            if y == "INADMISSIBLE":
                # which id a PADR gets is free; the model rejected the implementation's answer.  An id that is 0,
                # in use or handed out twice violates the property; creating NOTHING although an id is free does not
                ids = re.findall(r"\d+", x.split("/g")[0].split(":u")[0]) if x.split(":")[0] in ("pads", "conc", "ovl", "join") else []
                if x == "none" or (ids and len(ids) == len(set(ids)) and "0" not in ids and x.split(":")[0] in ("conc", "ovl")):
                    return "G", txt + " (no session although an id is free: outside the property, correspondence only)"
                return "P", txt + " (the session-id handed out is 0, in use or reserved)"
            return "P", txt
    return "P", "final session table differs: impl %r model %r" % (idump[:200], mdump[:200])


def shrink(case):
    t = case.split()
    if t[0] == "sq":
        head, st = t[:2], t[2:]
        if len(st) > 8:
            keep = [x for x in st if x.startswith("G/")]
            rest = [x for x in st if not x.startswith("G/")]
            yield " ".join(head + keep + rest[:len(rest) // 2])
            yield " ".join(head + keep + rest[len(rest) // 2:])
        for i in range(len(st)):
            if not st[i].startswith("G/"):      # g<i> references stay valid
                yield " ".join(head + st[:i] + st[i + 1:])
        return
    if t[0] == "tags":
        p = "" if t[1] == "-" else t[1]
        for i in range(0, len(p), 2):
            yield "tags " + ((p[:i] + p[i + 2:]) or "-")
        return
    head, ops = t[:6], t[6:]
    if len(ops) > 1:
        yield " ".join(head + ops[:len(ops) // 2])
        yield " ".join(head + ops[len(ops) // 2:])
    for i in range(len(ops)):
        yield " ".join(head + ops[:i] + ops[i + 1:])
    if head[3] != "occ=-":
        rs = head[3][4:].split(",")
        for i in range(len(rs)):
            h = list(head)
            h[3] = "occ=" + (",".join(rs[:i] + rs[i + 1:]) or "-")
            yield " ".join(h + ops)
    if head[4] != "next=-":
        h = list(head)
        h[4] = "next=-"
        yield " ".join(h + ops)


def distribution(cases, impl):
    d = {"ck_cases": 0, "ck_queries": 0, "ck_accepted": 0, "tags": 0, "tags_ok": 0, "tb": 0, "ops": {},
         "padr_created": 0, "padr_refused": 0, "padt_term": 0, "padt_none": 0, "sess_reach": 0, "sess_none": 0,
         "wrap_cases": 0, "fullscale_cases": 0, "sid0": 0}
    for c, o in zip(cases, impl):
        if o is None:
            continue
        if c.startswith("sq"):
            d["sq_cases"] = d.get("sq_cases", 0) + 1
            d["sq_validations"] = d.get("sq_validations", 0) + o.split().count("1") + o.split().count("0")
            d["sq_real_wait"] = d.get("sq_real_wait", 0) + (" W/" in c)
        elif c.startswith("tags"):
            d["tags"] += 1
            d["tags_ok"] += o.startswith("ok")
        else:
            d["tb"] += 1
            io, _ = split_tb(o)
            ops = tb_ops(c)
            d["wrap_cases"] += ("next=6553" in c or "65535" in c.split(" ; ")[0])
            d["fullscale_cases"] += bool(re.search(r"occ=\S*-6553", c) and re.search(r"occ=[12]-", c))
            for k, x in zip(ops, io or []):
                kk = k.split("/")[0]
                d["ops"][kk] = d["ops"].get(kk, 0) + 1
                if kk == "R":
                    d["padr_created" if x.startswith("pads:") else "padr_refused"] += 1
                    d["sid0"] += x.startswith("pads:0:")
                elif kk in ("A", "F"):
                    key = {"A": "aaa_reject", "F": "vpp_fail"}[kk] + ("_term" if x.startswith("term:") else "_noop")
                    d[key] = d.get(key, 0) + 1
                elif kk == "H":
                    d["ha_sync_" + ("installed" if x.startswith("synced:") else "refused")] = d.get(
                        "ha_sync_" + ("installed" if x.startswith("synced:") else "refused"), 0) + 1
                elif kk == "T":
                    d["padt_term" if x.startswith("term:") else "padt_none"] += 1
                elif kk == "S":
                    d["sess_reach" if x.startswith("reach:") else "sess_none"] += 1
    return d
