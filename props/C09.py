"""C09 — accounting bracketing and monotone usage counters (internal/aaa/{accounting,component}.go)."""

ID = "C09"
HARNESSES = [dict(name="aaa", pkg="./internal/aaa/", test="TestVerifC09", timeout=900,
                  files=[("internal/aaa/zz_verif_c09_test.go", "harness/C09/zz_verif_c09_test.go")])]
# first variant: all three repairs (the theorems are proved for it); last: the code as found.
# c = counter regress undetected, s = Stop without open accounting, a = Active overwrites a restored checkpoint
VARIANTS = ["repaired", "d_c", "d_s", "d_a", "d_cs", "d_ca", "d_sa", "defective"]
FLAGS = {"repaired": "", "d_c": "c", "d_s": "s", "d_a": "a", "d_cs": "cs", "d_ca": "ca", "d_sa": "sa", "defective": "csa"}
SIG = {"c": "applyVPPCounters-regress-compared-with-zero-baseline",
       "s": "handleSessionRelease-stop-without-accounting-entry",
       "a": "handleSessionLifecycle-start-over-restored-checkpoint"}
RULE = ("One case = one history of the real AAA component with 1-4 sessions (two of them share an interim bucket; "
        "IPoE and PPPoE payloads): lifecycle-active (repeated), restored (same or renumbered interface), released "
        "(repeated, before any start), bucket ticks (own bucket, foreign bucket, per-session Accounting-Response "
        "failures), process restart (new component over the same opdb, loadAcctSessions), orphan prune before/after "
        "the deadline. Dataplane readings per interface follow named classes: monotone growth, equal, reset to 0 / to "
        "a smaller value / of a single counter, reading missing, snapshot unavailable, duplicate index, values at "
        "2^32 and 2^63..2^64-1 (u64 wrap). A degenerate stream adds histories starting with released/tick/restart. "
        "Compared exactly: every Start/Interim/Stop call with its four counters and success flag, the final cache / "
        "bucket / checkpoint state, and the per-session verdict of the property (bracketing, stops, monotone) computed "
        "independently in Go on the observed calls. Non-trivial: at least one Interim and a Stop or a restart. "
        "Distinct: by case text.")
TRUSTED = ["goroutines spawned by one notification (Start/Stop/Update calls, checkpoint Put/Delete) are awaited before "
           "the next notification is delivered: reordering by the scheduler is outside the model",
           "in-memory opdb fake and scripted stats snapshot in the harness"]
ASSUMPTIONS = ["per-session independence: session ids are distinct strings; the component-level model is the product of "
               "per-session machines (C09_component_is_product)",
               "monotonicity is claimed while the u64 cumulative does not wrap (lrun_wraps = false) and while the orphan "
               "prune deadline does not pass for a live session (no_prune)",
               "L2GW sessions (separate stats segment) are not exercised"]

POOL = [("s7", 7), ("s10", 7), ("s2", 0), ("s3", 11)]
IFX = [5, 6, 8, 9]
BIG = [2 ** 32 - 1, 2 ** 32, 2 ** 32 + 12345, 2 ** 63, 2 ** 64 - 1, 2 ** 64 - 1000]


def snap_tok(items):
    if items is None:
        return "-"
    if not items:
        return "e"
    return "+".join(":".join(str(x) for x in it) for it in items)


class Plane:
    """scripted dataplane: four counters per interface index, evolving by reading classes"""

    def __init__(self, rng, big):
        self.rng = rng
        self.c = {i: [0, 0, 0, 0] for i in IFX}
        self.big = big
        self.classes = []

    def evolve(self):
        rng = self.rng
        for i in IFX:
            r = rng.random()
            c = self.c[i]
            if r < 0.55:
                k = "grow"
                for j in range(4):
                    c[j] += rng.choice([0, 1, 7, 100, 1500, 10 ** 6]) if j < 2 else rng.choice([0, 1, 3, 50])
            elif r < 0.65:
                k = "equal"
            elif r < 0.75:
                k = "reset0"
                self.c[i] = [0, 0, 0, 0]
            elif r < 0.87:
                k = "reset_smaller"
                self.c[i] = [rng.randint(0, x) for x in c]
            elif r < 0.93:
                k = "reset_one"
                j = rng.randrange(4)
                c[j] = rng.randint(0, c[j])
            elif self.big and r < 0.97:
                k = "big"
                j = rng.randrange(4)
                c[j] = rng.choice(BIG)
            else:
                k = "jump"
                for j in range(4):
                    c[j] += rng.choice([2 ** 31, 2 ** 32, 5 * 10 ** 9]) if j < 2 else 10 ** 6
            for j in range(4):
                c[j] %= 2 ** 64
            self.classes.append(k)

    def snapshot(self):
        rng = self.rng
        r = rng.random()
        if r < 0.06:
            self.classes.append("unavailable")
            return None
        if r < 0.10:
            self.classes.append("empty")
            return []
        items = []
        for i in IFX:
            if rng.random() < 0.12:
                self.classes.append("missing")
                continue
            items.append([i] + list(self.c[i]))
        if items and rng.random() < 0.05:
            self.classes.append("duplicate_index")
            d = list(rng.choice(items))
            d[1:] = [rng.randint(0, 2000) for _ in range(4)]
            items.insert(rng.randrange(len(items) + 1), d)
        return items


def gen_one(rng, nops, big, degenerate=False):
    k = rng.choice([1, 1, 2, 2, 3, 4])
    sess = POOL[:k] if rng.random() < 0.7 else rng.sample(POOL, k)
    head = ["S", str(k)] + ["%s:%d:%s" % (sid, b, rng.choice("ip")) for sid, b in sess]
    pl = Plane(rng, big)
    cur = {j: rng.choice(IFX) for j in range(k)}
    ops = []
    if degenerate:
        ops.append(rng.choice(["X,0,e", "T,%d,0,e" % sess[0][1], "B", "P,1", "R,0,5", "X,0,-"]))
    for _ in range(nops):
        r = rng.random()
        j = rng.randrange(k)
        if r < 0.14:
            ops.append("A,%d,%d" % (j, cur[j]))
            if rng.random() < 0.3:
                ops.append("A,%d,%d" % (j, cur[j]))
        elif r < 0.24:
            if rng.random() < 0.5:
                cur[j] = rng.choice(IFX)          # renumbered
            ops.append("R,%d,%d" % (j, cur[j]))
            if rng.random() < 0.2:
                ops.append("R,%d,%d" % (j, cur[j]))
        elif r < 0.33:
            pl.evolve()
            ops.append("X,%d,%s" % (j, snap_tok(pl.snapshot())))
            if rng.random() < 0.3:
                ops.append("X,%d,%s" % (j, snap_tok(pl.snapshot())))
        elif r < 0.82:
            pl.evolve()
            b = sess[j][1] if rng.random() < 0.9 else rng.choice([0, 3, 7, 11])
            mask = 0
            if rng.random() < 0.25:
                mask = rng.randrange(1, 1 << k)
            ops.append("T,%d,%d,%s" % (b, mask, snap_tok(pl.snapshot())))
        elif r < 0.92:
            ops.append("B")
            if rng.random() < 0.6:
                # the usual restore cycle: every session is re-announced, mostly by Restored
                for jj in range(k):
                    if rng.random() < 0.8:
                        if rng.random() < 0.3:
                            cur[jj] = rng.choice(IFX)
                        ops.append(("R,%d,%d" if rng.random() < 0.8 else "A,%d,%d") % (jj, cur[jj]))
        else:
            ops.append("P,%d" % rng.choice([0, 1, 1]))
    return " ".join(head + ops), pl.classes


def gen_cases(rng, tier, budget):
    n = budget or (2500 if tier == "quick" else 40000)
    cases = []
    # the DESIGN.md section 6 history and its neighbours, always
    base = "S 1 s7:7:i A,0,5"
    for seq in ([400, 1000, 5, 20], [1000, 5], [7, 7, 7], [10, 0, 10, 0, 10], [2 ** 32 - 1, 2 ** 32, 3], [2 ** 64 - 1, 1, 2 ** 64 - 1]):
        ops = " ".join("T,7,0,5:%d:%d:%d:%d" % (x, x // 2, x // 100, x // 200) for x in seq)
        cases.append("%s %s X,0,5:%d:0:0:0" % (base, ops, seq[-1] // 2))
    cases += ["S 1 s7:7:i A,0,5 X,0,e X,0,e", "S 1 s7:7:p X,0,e", "S 1 s7:7:i R,0,5 X,0,- X,0,-",
              "S 1 s7:7:i A,0,5 A,0,5 A,0,6 R,0,5 R,0,5 A,0,5 X,0,e",
              "S 1 s7:7:i A,0,5 T,7,0,5:400:40:4:1 B A,0,5 T,7,0,5:500:50:5:2 X,0,e",
              "S 1 s7:7:i A,0,5 T,7,0,5:400:40:4:1 B R,0,6 T,7,0,6:3:3:3:3 B R,0,5 X,0,5:1:1:1:1",
              "S 1 s7:7:i A,0,5 T,7,0,5:400:40:4:1 B P,1 R,0,5 T,7,0,5:3:3:3:3",
              "S 1 s7:7:i R,0,5 T,7,1,5:9:9:9:9 B A,0,5 T,7,0,5:10:10:10:10 X,0,e",
              "S 2 s7:7:i s10:7:p A,0,5 A,1,5 T,7,2,5:10:20:30:40 T,7,1,5:5:50:5:50 X,1,5:1:1:1:1 T,7,0,5:2:2:2:2 X,0,e"]
    for i in range(n):
        r = rng.random()
        nops = rng.choice([3, 5, 8, 12, 18, 25]) if tier == "quick" else rng.choice([3, 6, 10, 16, 24, 40])
        c, _ = gen_one(rng, nops, big=(r < 0.15), degenerate=(0.15 <= r < 0.25))
        cases.append(c)
    return cases


def parts(line):
    p = line.split(" ; ")
    return p + [""] * (3 - len(p))


def nontrivial(case, out):
    calls = parts(out)[0]
    return ("I" in calls) and ("E" in calls or " B" in case)


def classify(case, impl, model):
    ic, idump, iv = parts(impl)[:3]
    mc, mdump, mv = parts(model)[:3]
    names = ["a second Start inside one bracket", "a Stop that answers no open accounting (or a second Stop)",
             "reported counters went backwards"]
    bad = []
    for tok in iv.split():
        sid, _, bits = tok.partition("=")
        for b, nm in zip(bits[:3], names):
            if b == "0":
                bad.append("%s: %s" % (sid, nm))
    mbad = "0" in "".join(t.partition("=")[2][:3] for t in mv.split())
    diff = ""
    if ic != mc:
        ig, mg = ic.split("] "), mc.split("] ")
        k = next((i for i, (x, y) in enumerate(zip(ig, mg)) if x != y), min(len(ig), len(mg)))
        diff = "accounting calls differ from the proved behaviour at op #%d: impl=%s] model=%s]" % (
            k, ig[k].rstrip("]") if k < len(ig) else "?", mg[k].rstrip("]") if k < len(mg) else "?")
    elif idump != mdump:
        diff = "component state differs after the history: impl=%r model=%r" % (idump, mdump)
    if not ic.startswith("["):
        return "G", "harness did not complete the history (panic / hang / bad case): impl=%r model=%r" % (impl[:200], model[:200])
    if bad and not mbad:
        return "P", "accounting stream violates the property (" + "; ".join(sorted(set(bad))) + ")" + (
            "; " + diff if diff else "")
    if ic != mc:
        return "P", diff
    return "G", diff or "outputs differ: impl=%r model=%r" % (impl[:200], model[:200])


def signature(case, impl, models):
    match = [v for v in VARIANTS if models.get(v) == impl]
    if not match:
        return None
    v = min(match, key=lambda x: len(FLAGS[x]))
    f = FLAGS[v]
    return SIG[f[0]] if f else None


def shrink(case):
    t = case.split()
    k = int(t[1])
    head, ops = t[:2 + k], t[2 + k:]
    for i in range(len(ops)):
        yield " ".join(head + ops[:i] + ops[i + 1:])
    # drop the last session when no op names it
    if k > 1:
        used = set()
        for o in ops:
            a = o.split(",")
            if a[0] in "ARX":
                used.add(int(a[1]))
        if (k - 1) not in used:
            ops2 = []
            for o in ops:
                a = o.split(",")
                if a[0] == "T":
                    a[2] = str(int(a[2]) & ((1 << (k - 1)) - 1))
                ops2.append(",".join(a))
            yield " ".join(["S", str(k - 1)] + head[2:2 + k - 1] + ops2)
    for i, o in enumerate(ops):
        a = o.split(",")
        if a[0] == "T" and a[2] != "0":
            yield " ".join(head + ops[:i] + [",".join([a[0], a[1], "0", a[3]])] + ops[i + 1:])
        if a[0] in "TX" and a[-1] not in ("-", "e"):
            items = a[-1].split("+")
            if len(items) > 1:
                for j in range(len(items)):
                    yield " ".join(head + ops[:i] + [",".join(a[:-1] + ["+".join(items[:j] + items[j + 1:])])] + ops[i + 1:])
            for j, it in enumerate(items):
                f = it.split(":")
                for q in range(1, 5):
                    if f[q] != "0":
                        for nv in ("0", str(int(f[q]) // 2)):
                            if nv != f[q]:
                                g = f[:q] + [nv] + f[q + 1:]
                                yield " ".join(head + ops[:i] + [",".join(a[:-1] + ["+".join(items[:j] + [":".join(g)] + items[j + 1:])])] + ops[i + 1:])


def distribution(cases, impl):
    d = {"ops": {}, "calls": {"S": 0, "I_ok": 0, "I_fail": 0, "E": 0}, "sessions": {}, "history_len": {},
         "verdict_bits_zero": 0, "histories_with_reading_reset": 0, "histories_with_restart": 0,
         "snapshots": {"unavailable": 0, "empty": 0, "items": 0}}
    for c, o in zip(cases, impl):
        t = c.split()
        k = int(t[1])
        d["sessions"][k] = d["sessions"].get(k, 0) + 1
        ops = t[2 + k:]
        b = min(len(ops) // 5 * 5, 40)
        d["history_len"][b] = d["history_len"].get(b, 0) + 1
        seen = {}
        reset = False
        for op in ops:
            a = op.split(",")
            d["ops"][a[0]] = d["ops"].get(a[0], 0) + 1
            if a[0] in "TX":
                s = a[-1]
                if s == "-":
                    d["snapshots"]["unavailable"] += 1
                elif s == "e":
                    d["snapshots"]["empty"] += 1
                else:
                    for it in s.split("+"):
                        f = [int(x) for x in it.split(":")]
                        d["snapshots"]["items"] += 1
                        if f[0] in seen and any(x < y for x, y in zip(f[1:], seen[f[0]])):
                            reset = True
                        seen[f[0]] = f[1:]
        d["histories_with_reading_reset"] += reset
        d["histories_with_restart"] += ("B" in ops)
        calls, _, verd = parts(o or "")[:3]
        for tok in calls.replace("[", " ").replace("]", " ").split():
            if tok[0] == "S":
                d["calls"]["S"] += 1
            elif tok[0] == "E":
                d["calls"]["E"] += 1
            elif tok[0] == "I":
                d["calls"]["I_ok" if tok.endswith(":k") else "I_fail"] += 1
        d["verdict_bits_zero"] += sum(x.partition("=")[2][:3].count("0") for x in verd.split())
    return d
